"""E2 - statement-level CFG for function bodies, dominators, reaching
definitions and path queries (must-pass-through, guard-before-effect)."""
import ast
import collections


class Node:
    __slots__ = ("id", "kind", "stmt", "succ", "pred", "label")

    def __init__(self, id, kind, stmt=None, label=""):
        self.id = id
        self.kind = kind      # entry exit raise_exit stmt test branch loop try
        self.stmt = stmt
        self.succ = []
        self.pred = []
        self.label = label

    def __repr__(self):
        ln = getattr(self.stmt, "lineno", None)
        return f"<{self.id}:{self.kind}@{ln} {self.label}>"


class CFG:
    def __init__(self, fn):
        self.fn = fn
        self.nodes = []
        self.entry = self.new("entry")
        self.exit = self.new("exit")
        self.raise_exit = self.new("raise_exit")
        self.loop_stack = []
        self.try_stack = []
        last = self.block(fn.body, [self.entry])
        for n in last:
            self.edge(n, self.exit)
        self._dom = None
        self._rd = None

    def new(self, kind, stmt=None, label=""):
        n = Node(len(self.nodes), kind, stmt, label)
        self.nodes.append(n)
        return n

    def edge(self, a, b):
        if b not in a.succ:
            a.succ.append(b)
            b.pred.append(a)

    def block(self, stmts, preds):
        cur = preds
        for st in stmts:
            cur = self.stmt(st, cur)
        return cur

    def stmt(self, st, preds):
        if isinstance(st, ast.If):
            t = self.new("test", st, "if")
            for p in preds:
                self.edge(p, t)
            tb = self.new("branch", st, "then")
            self.edge(t, tb)
            fb = self.new("branch", st, "else")
            self.edge(t, fb)
            a = self.block(st.body, [tb])
            b = self.block(st.orelse, [fb])
            return a + b
        if isinstance(st, (ast.For, ast.AsyncFor, ast.While)):
            head = self.new("loop", st, "head")
            for p in preds:
                self.edge(p, head)
            body_in = self.new("branch", st, "body")
            self.edge(head, body_in)
            after = self.new("branch", st, "loop-exit")
            infinite = isinstance(st, ast.While) and isinstance(st.test, ast.Constant) and st.test.value is True
            if not infinite:
                self.edge(head, after)
            self.loop_stack.append((head, after, []))
            end = self.block(st.body, [body_in])
            _, _, breaks = self.loop_stack.pop()
            for e in end:
                self.edge(e, head)
            out = self.block(st.orelse, [after]) if st.orelse else [after]
            if infinite and not st.orelse:
                out = []
            return out + breaks
        if isinstance(st, ast.Try):
            tin = self.new("try", st, "try")
            for p in preds:
                self.edge(p, tin)
            handlers = [self.new("branch", h, "except") for h in st.handlers]
            self.try_stack.append(handlers)
            before = len(self.nodes)
            end = self.block(st.body, [tin])
            self.try_stack.pop()
            for n in self.nodes[before:]:
                if n.kind in ("stmt", "test", "loop"):
                    for h in handlers:
                        self.edge(n, h)
            for h in handlers:
                self.edge(tin, h)
            hend = []
            for hn, h in zip(handlers, st.handlers):
                hend += self.block(h.body, [hn])
            end = self.block(st.orelse, end) if st.orelse else end
            allend = end + hend
            if st.finalbody:
                allend = self.block(st.finalbody, allend)
            return allend
        if isinstance(st, (ast.With, ast.AsyncWith)):
            w = self.new("stmt", st, "with")
            for p in preds:
                self.edge(p, w)
            return self.block(st.body, [w])
        if isinstance(st, ast.Match):
            m = self.new("test", st, "match")
            for p in preds:
                self.edge(p, m)
            outs = []
            irrefutable = False
            for c in st.cases:
                cn = self.new("branch", c, "case")
                self.edge(m, cn)
                outs += self.block(c.body, [cn])
                pat = c.pattern
                if c.guard is None and (
                        (isinstance(pat, ast.MatchAs) and pat.pattern is None)):
                    irrefutable = True
            return outs + ([] if irrefutable else [m])
        n = self.new("stmt", st, type(st).__name__)
        for p in preds:
            self.edge(p, n)
        if isinstance(st, ast.Return):
            self.edge(n, self.exit)
            return []
        if isinstance(st, ast.Raise):
            if self.try_stack:
                for h in self.try_stack[-1]:
                    self.edge(n, h)
            else:
                self.edge(n, self.raise_exit)
            return []
        if isinstance(st, ast.Continue):
            self.edge(n, self.loop_stack[-1][0])
            return []
        if isinstance(st, ast.Break):
            self.loop_stack[-1][2].append(n)
            return []
        return [n]

    # ------------------------------------------------------------- queries
    def reachable(self, src, avoid=frozenset(), forward=True):
        seen = set()
        work = [src]
        while work:
            n = work.pop()
            if n in seen or (n in avoid and n is not src):
                continue
            seen.add(n)
            work += (n.succ if forward else n.pred)
        return seen

    def must_pass(self, src, dst, pred):
        """every path src -> dst passes a node (other than src) satisfying pred"""
        avoid = frozenset(n for n in self.nodes if n is not src and pred(n))
        return dst not in self.reachable(src, avoid)

    def dominators(self):
        if self._dom is not None:
            return self._dom
        reach = self.reachable(self.entry)
        dom = {n: set(reach) for n in reach}
        dom[self.entry] = {self.entry}
        changed = True
        while changed:
            changed = False
            for n in self.nodes:
                if n is self.entry or n not in reach:
                    continue
                ps = [dom[p] for p in n.pred if p in reach]
                new = (set.intersection(*ps) if ps else set()) | {n}
                if new != dom[n]:
                    dom[n] = new
                    changed = True
        self._dom = dom
        return dom

    def nodes_of(self, stmt):
        return [n for n in self.nodes if n.stmt is stmt and n.kind in ("stmt", "test", "loop", "try")]

    def node_containing(self, expr):
        """the statement-ish node whose own (non-nested-block) expressions contain expr"""
        for n in self.nodes:
            if n.kind not in ("stmt", "test", "loop") or n.stmt is None:
                continue
            for sub in own_exprs(n):
                for x in ast.walk(sub):
                    if x is expr:
                        return n
        return None

    def stmts(self, kind=None):
        return [n for n in self.nodes if n.kind in ("stmt", "test", "loop") and (kind is None or isinstance(n.stmt, kind))]

    def raising_guards(self):
        """test nodes one arm of which leads only to raise_exit (cannot reach exit).
        Returns list of (test node, arm label that raises)"""
        out = []
        for n in self.nodes:
            if n.kind == "test" and isinstance(n.stmt, ast.If):
                for arm in n.succ:
                    r = self.reachable(arm)
                    if self.exit not in r and self.raise_exit in r:
                        # arm must not fall back into the normal flow
                        out.append((n, arm.label))
        return out

    def guarded_by_raise(self, node, test_pred):
        """True iff `node` is dominated by an if-test satisfying test_pred one arm
        of which always raises, and node is not inside that arm."""
        dom = self.dominators()
        for t, arm in self.raising_guards():
            if t in dom.get(node, ()) and test_pred(t.stmt.test, arm):
                return True
        return False

    def reaching_defs(self):
        if self._rd is not None:
            return self._rd
        gen = {n: set() for n in self.nodes}
        for n in self.nodes:
            if n.kind == "stmt":
                for v in defs_of(n.stmt):
                    gen[n].add((v, n))
            elif n.kind == "branch" and n.label == "body" and isinstance(n.stmt, (ast.For, ast.AsyncFor)):
                for v in defs_of(n.stmt):
                    gen[n].add((v, n))
            elif n.kind == "branch" and n.label == "except" and getattr(n.stmt, "name", None):
                gen[n].add((n.stmt.name, n))
        a = self.fn.args
        for p in a.posonlyargs + a.args + a.kwonlyargs + ([a.vararg] if a.vararg else []) + ([a.kwarg] if a.kwarg else []):
            gen[self.entry].add((p.arg, self.entry))
        IN = {n: set() for n in self.nodes}
        OUT = {n: set(gen[n]) for n in self.nodes}
        work = collections.deque(self.nodes)
        while work:
            n = work.popleft()
            i = set().union(*[OUT[p] for p in n.pred]) if n.pred else set()
            killed = {v for v, _ in gen[n]}
            o = {(v, d) for v, d in i if v not in killed} | gen[n]
            if i != IN[n] or o != OUT[n]:
                IN[n] = i
                OUT[n] = o
                work.extend(n.succ)
        self._rd = (IN, OUT)
        return self._rd

    def defs_reaching(self, node, var):
        IN, _ = self.reaching_defs()
        return [d for v, d in IN[node] if v == var]


def own_exprs(n):
    """expression roots evaluated at this node itself (not nested blocks)"""
    st = n.stmt
    if n.kind == "test" and isinstance(st, ast.If):
        return [st.test]
    if n.kind == "test" and isinstance(st, ast.Match):
        return [st.subject]
    if n.kind == "loop":
        return [st.iter] if isinstance(st, (ast.For, ast.AsyncFor)) else [st.test]
    if isinstance(st, (ast.With, ast.AsyncWith)):
        return [i.context_expr for i in st.items]
    if isinstance(st, (ast.FunctionDef, ast.AsyncFunctionDef, ast.ClassDef)):
        return []
    return [st] if st is not None else []


def defs_of(st):
    out = []

    def tg(t):
        if isinstance(t, ast.Name):
            out.append(t.id)
        elif isinstance(t, (ast.Tuple, ast.List)):
            for e in t.elts:
                tg(e)
        elif isinstance(t, ast.Starred):
            tg(t.value)

    if isinstance(st, ast.Assign):
        for t in st.targets:
            tg(t)
    elif isinstance(st, (ast.AugAssign, ast.AnnAssign)):
        tg(st.target)
    elif isinstance(st, (ast.For, ast.AsyncFor)):
        tg(st.target)
    elif isinstance(st, (ast.With, ast.AsyncWith)):
        for i in st.items:
            if i.optional_vars is not None:
                tg(i.optional_vars)
    elif isinstance(st, (ast.FunctionDef, ast.AsyncFunctionDef, ast.ClassDef)):
        out.append(st.name)
    elif isinstance(st, (ast.Import, ast.ImportFrom)):
        for a in st.names:
            out.append((a.asname or a.name).split(".")[0])
    # walrus
    if st is not None and not isinstance(st, (ast.For, ast.AsyncFor, ast.While, ast.If, ast.With, ast.Try, ast.FunctionDef, ast.ClassDef)):
        for x in ast.walk(st):
            if isinstance(x, ast.NamedExpr) and isinstance(x.target, ast.Name):
                out.append(x.target.id)
    return out
