"""Optional-dereference analysis (nil-safety) for repository functions that may return None.

A function *may return None* if it has at least one `return <value>` and its exit is also reachable through a
bare `return`, `return None`, or by falling off the end.  At a call site of such a function the result must not be
dereferenced (attribute access, subscript, call, iteration, len) unless a None test guards the use:
  * the use is inside `if v is not None:` / the else-arm of `if v is None:` (also `if v:` / `if not v:` for views), or
  * an earlier `if v is None: return|raise|continue` dominates the use.
Passing the value on as an argument or returning it is not a dereference.
"""
import ast

from .astutil import U, walk_own, enclosing_map
from .cfg import CFG


def may_return_none(fnode):
    rets = [n for n in walk_own(fnode) if isinstance(n, ast.Return)]
    valued = [r for r in rets if r.value is not None and not (isinstance(r.value, ast.Constant) and r.value.value is None)]
    if not valued:
        return False
    if any(r.value is None or (isinstance(r.value, ast.Constant) and r.value.value is None) for r in rets):
        return True
    g = CFG(fnode)
    for p in g.exit.pred:
        if not (p.kind == "stmt" and isinstance(p.stmt, ast.Return)):
            return True
    return False


def _none_test(t, name):
    """('is_none'|'not_none', True) if test t decides `name` against None; else None"""
    tt = U(t).replace(" ", "")
    if tt in (f"{name}isNone", f"not{name}", f"{name}==None"):
        return "is_none"
    if tt in (f"{name}isnotNone", name, f"{name}!=None"):
        return "not_none"
    return None


def guarded(fnode, g, par, use, name):
    # (a) syntactic: enclosing if
    n = use
    while n in par:
        p = par[n]
        if isinstance(p, ast.If):
            k = _none_test(p.test, name)
            in_body = any(n is b for b in p.body)
            in_else = any(n is b for b in p.orelse)
            if (k == "not_none" and in_body) or (k == "is_none" and in_else):
                return True
            if isinstance(p.test, ast.BoolOp) and isinstance(p.test.op, ast.And) and in_body and any(_none_test(v, name) == "not_none" for v in p.test.values):
                return True
        if isinstance(p, ast.IfExp):
            k = _none_test(p.test, name)
            if (k == "not_none" and n is p.body) or (k == "is_none" and n is p.orelse):
                return True
        if isinstance(p, ast.BoolOp) and isinstance(p.op, ast.And):
            idx = p.values.index(n) if n in p.values else -1
            if idx > 0 and any(_none_test(v, name) == "not_none" for v in p.values[:idx]):
                return True
        n = p
    # (b) an earlier exiting guard `if name is None: return/raise/continue` dominating the use
    node = g.node_containing(use)
    if node is None:
        return False
    dom = g.dominators()
    for t in g.nodes:
        if t.kind == "test" and isinstance(t.stmt, ast.If) and _none_test(t.stmt.test, name) == "is_none" and t in dom.get(node, ()):
            body = t.stmt.body
            if body and isinstance(body[-1], (ast.Return, ast.Raise, ast.Continue, ast.Break)):
                # the use must not be inside that body
                inside = any(use in list(ast.walk(b)) for b in body)
                if not inside:
                    return True
    return False


def derefs_of(fnode, par, name):
    """uses of local `name` that dereference it"""
    out = []
    for n in walk_own(fnode):
        if isinstance(n, ast.Name) and n.id == name and isinstance(n.ctx, ast.Load):
            p = par.get(n)
            if isinstance(p, ast.Attribute) and p.value is n:
                out.append((n, f"{name}.{p.attr}"))
            elif isinstance(p, ast.Subscript) and p.value is n:
                out.append((n, f"{name}[...]"))
            elif isinstance(p, ast.Call) and p.func is n:
                out.append((n, f"{name}(...)"))
            elif isinstance(p, (ast.For, ast.comprehension)) and p.iter is n:
                out.append((n, f"iteration over {name}"))
            elif isinstance(p, ast.Call) and isinstance(p.func, ast.Name) and p.func.id in ("len", "iter", "list", "sorted") and n in p.args:
                out.append((n, f"{p.func.id}({name})"))
    return out


def check_function(R, T, f, optional_fns):
    """[(construct text, callee, reason)] unguarded dereferences of Optional results in function f"""
    findings = []
    par = enclosing_map(f.node)
    g = None
    for call, callees, how in T.resolve_calls(f.qname):
        targets = [c for c in callees if c in optional_fns]
        if not targets:
            continue
        if how == "CHA-name" and len(targets) != len([c for c in callees if c in R.funcs]):
            continue
        callee = R.funcs[targets[0]].site()
        p = par.get(call)
        # direct dereference of the call result
        if isinstance(p, ast.Attribute) and p.value is call:
            findings.append((U(p)[:80], callee, f"the result of {callee}() can be None and is dereferenced at once (`.{p.attr}`)"))
            continue
        if isinstance(p, ast.Subscript) and p.value is call:
            findings.append((U(p)[:80], callee, f"the result of {callee}() can be None and is subscripted at once"))
            continue
        if isinstance(p, (ast.For, ast.comprehension)) and p.iter is call:
            findings.append((U(call)[:80], callee, f"the result of {callee}() can be None and is iterated at once"))
            continue
        if isinstance(p, ast.Assign) and len(p.targets) == 1 and isinstance(p.targets[0], ast.Name) and p.value is call:
            name = p.targets[0].id
            g = g or CFG(f.node)
            for use, what in derefs_of(f.node, par, name):
                if use.lineno < call.lineno:
                    continue
                if not guarded(f.node, g, par, use, name):
                    findings.append((what, callee, f"`{name}` holds the result of {callee}(), which can be None, and `{what}` is not guarded by a None test"))
    return findings
