"""Table-driven code is analysed in unrolled form.

A loop over a *constant table* (a module- or class-level tuple/list display of constants or of constant tuples)

    for name, attr, pos, is_text in self._LAYOUT:
        column = getattr(self, attr)[pos]
        if is_text: column = encode(column)
        f.create_dataset(name, data=column)

is replaced by one copy of its body per table row with the row's constants substituted and the body's locals renamed per
copy.  In a function where that happened the following (semantics-preserving) clean-ups run as well, so that the existing
per-statement rules see the same shape as hand-written code:

    if True: A else: B            -> A                         (inliner.simplify)
    v = a; v = g(v)               -> v = g(a)                  (inliner.simplify)
    getattr(x, "name")            -> x.name
    d = {"k1": [], "k2": []} ... d["k1"]   (constant keys only) -> d__k1 = [] ... d__k1
    x = []; x.append(a); x.append(b)       (straight line)      -> x = [a, b]
    tuple([a, b]) / list((a, b))           -> (a, b) / [a, b]
"""
import ast
import copy

from .astutil import U, walk_own

MAX_ROWS = 32


def _const(e, free_ok=None):
    """free_ok(name): the caller vouches that this free name denotes the same module-level object where the table is defined and where
    it is used (module-level functions and aliases in a module-level table, not shadowed in the consuming function)
    constants, displays of constants, and closed lambdas (no free local variables: parameters, module aliases and
    attribute chains on them only), operator.* / attrgetter("name") accessors"""
    if isinstance(e, ast.Constant):
        return True
    if isinstance(e, (ast.Tuple, ast.List)):
        return all(_const(x, free_ok) for x in e.elts)
    if free_ok is not None:
        root = e
        while isinstance(root, ast.Attribute):
            root = root.value
        if isinstance(root, ast.Name) and isinstance(e, (ast.Name, ast.Attribute)) and free_ok(root.id):
            return True
    if isinstance(e, ast.UnaryOp) and isinstance(e.op, ast.USub) and isinstance(e.operand, ast.Constant):
        return True
    if isinstance(e, ast.Lambda):
        a = e.args
        if a.vararg or a.kwarg or a.kwonlyargs or a.defaults:
            return False
        bound = {p.arg for p in a.posonlyargs + a.args}
        for x in ast.walk(e.body):
            if isinstance(x, ast.Name) and x.id not in bound and x.id not in _MODULE_NAMES and not x.id[:1].isupper():
                return False
        return True
    if isinstance(e, ast.Call) and U(e.func) in ("attrgetter", "operator.attrgetter", "methodcaller", "operator.methodcaller") and e.args and all(isinstance(a, ast.Constant) for a in e.args) and not e.keywords:
        return True
    return False


_MODULE_NAMES = {"np", "numpy", "math", "operator", "pandas", "pd", "scipy", "sp", "os", "len", "bool", "int", "float", "str", "abs", "min", "max", "sum", "any", "all",
                 "expit", "logit", "isinstance", "tuple", "list", "sorted"}


def record_fields(repo, mod, name, allow_methods=False):
    """ordered field names of a repository class that is a plain record: a typing.NamedTuple subclass or a @dataclass whose body
    declares annotated fields (no __init__/__new__/__post_init__ of its own); None otherwise"""
    cq = repo.chase(mod, name)
    cn = repo.classes.get(cq) if cq else None
    if cn is None:
        # functional form:  K = collections.namedtuple("K", ["a", "b"])  /  namedtuple("K", "a b")
        v = repo.const_value(mod, name)
        if isinstance(v, ast.Call) and U(v.func) in ("collections.namedtuple", "namedtuple") and len(v.args) == 2 and not v.keywords:
            fl = v.args[1]
            if isinstance(fl, (ast.List, ast.Tuple)) and fl.elts and all(isinstance(x, ast.Constant) and isinstance(x.value, str) for x in fl.elts):
                return [x.value for x in fl.elts]
            if isinstance(fl, ast.Constant) and isinstance(fl.value, str) and fl.value.replace(",", " ").split():
                return fl.value.replace(",", " ").split()
        return None
    bases = [U(b) for b in cn.bases]
    decos = [U(d).split("(")[0] for d in cn.decorator_list]
    is_nt = any(b in ("NamedTuple", "typing.NamedTuple") for b in bases)
    is_dc = any(d in ("dataclass", "dataclasses.dataclass") for d in decos)
    if not (is_nt or is_dc) or (is_nt and len(bases) != 1) or (is_dc and bases):
        return None
    fields = []
    for st in cn.body:
        if isinstance(st, ast.AnnAssign) and isinstance(st.target, ast.Name):
            if st.value is not None and not isinstance(st.value, ast.Constant):
                return None          # only constant defaults: an omitted argument is that constant (see record_defaults / Fold.visit_Call)
            fields.append(st.target.id)
        elif isinstance(st, (ast.FunctionDef,)) and st.name in ("__init__", "__new__", "__post_init__", "__getattribute__", "__getattr__"):
            return None
    return fields or None


def record_defaults(repo, mod, name):
    """{field: constant default} of a plain record class of the repository ({} when it declares none)"""
    cq = repo.chase(mod, name)
    cn = repo.classes.get(cq) if cq else None
    if cn is None:
        return {}
    return {st.target.id: st.value for st in cn.body if isinstance(st, ast.AnnAssign) and isinstance(st.target, ast.Name) and isinstance(st.value, ast.Constant)}


def complete_record_call(repo, mod, call):
    """K(a, b) with K a plain record whose remaining fields have constant defaults -> K(a, b, c=<default>) in place; True if changed"""
    if not (isinstance(call, ast.Call) and isinstance(call.func, ast.Name)) or any(isinstance(a, ast.Starred) for a in call.args) or any(k.arg is None for k in call.keywords):
        return False
    fields = record_fields(repo, mod, call.func.id)
    if fields is None or len(call.args) + len(call.keywords) >= len(fields) or len(call.args) > len(fields):
        return False
    dflt = record_defaults(repo, mod, call.func.id)
    given = set(fields[:len(call.args)]) | {k.arg for k in call.keywords}
    missing = [fl for fl in fields if fl not in given]
    if not missing or any(fl not in dflt for fl in missing) or not given <= set(fields):
        return False
    import copy as _copy
    for fl in missing:
        call.keywords.append(ast.keyword(arg=fl, value=_copy.deepcopy(dflt[fl])))
    return True


def record_value(repo, mod, call, field):
    """the argument a record construction K(a, b, c=..) binds to `field`, or None"""
    if not (isinstance(call, ast.Call) and isinstance(call.func, ast.Name)):
        return None
    fields = record_fields(repo, mod, call.func.id)
    if fields is None or field not in fields or any(isinstance(a, ast.Starred) for a in call.args) or any(k.arg is None for k in call.keywords):
        return None
    if len(call.args) + len(call.keywords) != len(fields):
        return None
    i = fields.index(field)
    if i < len(call.args):
        return call.args[i]
    for k in call.keywords:
        if k.arg == field:
            return k.value
    return None


def _table(repo, f, it):
    """the constant table an iterable expression denotes, or None"""
    if isinstance(it, ast.BinOp) and isinstance(it.op, ast.Add):
        # TABLE_A + TABLE_B: the rows of both, in order
        l_, r_ = _table(repo, f, it.left), _table(repo, f, it.right)
        if l_ is not None and r_ is not None and len(l_) + len(r_) <= MAX_ROWS:
            return list(l_) + list(r_)
        return None
    v = None
    if isinstance(it, ast.Name):
        v = repo.const_value(f.mod, it.id)
    elif isinstance(it, ast.Attribute) and isinstance(it.value, ast.Name):
        base = it.value.id
        cq = None
        if base in ("self", "cls") and f.cls:
            cq = f"{f.mod}.{f.cls}"
        else:
            c = repo.chase(f.mod, base)
            if c in repo.classes:
                cq = c
        if cq is None:
            # a local bound once to a construction cls(..) / K(..): the class-level table of that class
            binds = [n for n in ast.walk(f.node) if isinstance(n, ast.Name) and n.id == base and isinstance(n.ctx, (ast.Store, ast.Del))]
            if len(binds) == 1 and base not in f.params:
                for n in ast.walk(f.node):
                    if isinstance(n, ast.Assign) and len(n.targets) == 1 and n.targets[0] is binds[0] and isinstance(n.value, ast.Call) and isinstance(n.value.func, ast.Name):
                        if n.value.func.id == "cls" and f.cls:
                            cq = f"{f.mod}.{f.cls}"
                        else:
                            c = repo.chase(f.mod, n.value.func.id)
                            if c in repo.classes:
                                cq = c
        if cq:
            for k in repo.mro(cq):
                cn = repo.classes.get(k)
                if cn is None:
                    continue
                for st in cn.body:
                    if isinstance(st, ast.Assign) and len(st.targets) == 1 and isinstance(st.targets[0], ast.Name) and st.targets[0].id == it.attr:
                        v = st.value
                        break
                    if isinstance(st, ast.AnnAssign) and isinstance(st.target, ast.Name) and st.target.id == it.attr and st.value is not None:
                        v = st.value
                        break
                if v is not None:
                    break
    if isinstance(v, ast.Call) and U(v.func) in ("frozenset", "set", "tuple", "list") and len(v.args) == 1 and not v.keywords:
        v = v.args[0]
    # a projection of another module-level table: (row.field for row in TABLE if row.flag) with TABLE rows plain records / tuples of
    # constants - evaluated here, row by row
    if isinstance(v, (ast.GeneratorExp, ast.ListComp, ast.SetComp)) and len(v.generators) == 1 and isinstance(v.generators[0].target, ast.Name) \
            and isinstance(v.generators[0].iter, ast.Name) and isinstance(it, ast.Name) and v.generators[0].iter.id != it.id and not v.generators[0].is_async:
        g_ = v.generators[0]
        src = _table(repo, f, g_.iter) if g_.iter.id in repo.consts.get(f.mod, {}) else None
        x_ = g_.target.id

        def field_of(row, e):
            """constant value of e (x, x.field, x[i]) for the row, or None"""
            if isinstance(e, ast.Name) and e.id == x_:
                return row if isinstance(row, ast.Constant) else None
            if isinstance(e, ast.Attribute) and isinstance(e.value, ast.Name) and e.value.id == x_:
                r_ = record_value(repo, f.mod, row, e.attr)
                return r_ if isinstance(r_, ast.Constant) else None
            if isinstance(e, ast.Subscript) and isinstance(e.value, ast.Name) and e.value.id == x_ and isinstance(e.slice, ast.Constant) and isinstance(e.slice.value, int) \
                    and isinstance(row, (ast.Tuple, ast.List)) and -len(row.elts) <= e.slice.value < len(row.elts):
                r_ = row.elts[e.slice.value]
                return r_ if isinstance(r_, ast.Constant) else None
            return None

        def cond_of(row, t):
            if isinstance(t, ast.UnaryOp) and isinstance(t.op, ast.Not):
                c_ = cond_of(row, t.operand)
                return None if c_ is None else not c_
            if isinstance(t, ast.Compare) and len(t.ops) == 1 and isinstance(t.ops[0], (ast.Eq, ast.NotEq)) and isinstance(t.comparators[0], ast.Constant):
                l_ = field_of(row, t.left)
                return None if l_ is None else ((l_.value == t.comparators[0].value) == isinstance(t.ops[0], ast.Eq))
            l_ = field_of(row, t)
            return None if l_ is None else bool(l_.value)
        if src is not None:
            out_, ok_ = [], True
            for row in src:
                cs_ = [cond_of(row, t) for t in g_.ifs]
                if any(c_ is None for c_ in cs_):
                    ok_ = False
                    break
                if not all(cs_):
                    continue
                e_ = field_of(row, v.elt)
                if e_ is None:
                    ok_ = False
                    break
                out_.append(e_)
            if ok_ and out_:
                return out_
        return None
    if isinstance(v, (ast.Tuple, ast.List, ast.Set)) and v.elts and len(v.elts) <= MAX_ROWS:
        local = {a.arg for a in ast.walk(f.node.args) if isinstance(a, ast.arg)} | {x.id for x in ast.walk(f.node) if isinstance(x, ast.Name) and isinstance(x.ctx, ast.Store)}

        same_mod = (isinstance(it, ast.Name) and it.id in repo.consts.get(f.mod, {})) or (isinstance(it, ast.Attribute) and cq is not None and cq.rsplit(".", 1)[0] == f.mod)

        def free_ok(name):
            if not same_mod:
                return False
            # a module-level name of the table's module, visible unshadowed in the consuming function of the same module
            return name not in local and (name in _MODULE_NAMES or repo.chase(f.mod, name) is not None)
        def row_ok(x):
            if _const(x, free_ok):
                return True
            # a row that constructs a plain record (NamedTuple / dataclass of the repository) from constants
            if same_mod and isinstance(x, ast.Call) and isinstance(x.func, ast.Name) and record_fields(repo, f.mod, x.func.id) is not None \
                    and not any(isinstance(a, ast.Starred) for a in x.args) and all(k.arg is not None for k in x.keywords):
                return all(_const(a, free_ok) for a in x.args) and all(_const(k.value, free_ok) for k in x.keywords)
            return False
        if all(row_ok(x) for x in v.elts):
            return v.elts
    return None


class _Sub(ast.NodeTransformer):
    def __init__(self, consts, renames):
        self.consts, self.renames = consts, renames

    def visit_Name(self, n):
        if n.id in self.consts and isinstance(n.ctx, ast.Load):
            return copy.deepcopy(self.consts[n.id])
        if n.id in self.renames:
            return ast.copy_location(ast.Name(id=self.renames[n.id], ctx=n.ctx), n)
        return n


def iteration_locals(body, names_outside):
    """names assigned in a loop body that are private to one iteration: never mentioned outside the loop, and every read of the
    name in the body is preceded, on every path through the body, by an assignment in the same iteration (definite assignment) -
    i.e. not loop-carried state such as an accumulator or a value left over from an earlier iteration's other branch"""
    carried = set()

    def reads(node, defined):
        for x in _in_order(node):
            if isinstance(x, ast.Name):
                if isinstance(x.ctx, ast.Load) and x.id not in defined:
                    carried.add(x.id)
                elif isinstance(x.ctx, ast.Store):
                    defined.add(x.id)
                elif isinstance(x.ctx, ast.Del):
                    carried.add(x.id)

    def block(stmts, defined):
        for st in stmts:
            if isinstance(st, ast.If):
                reads(st.test, defined)
                d1, d2 = set(defined), set(defined)
                block(st.body, d1)
                block(st.orelse, d2)
                defined |= (d1 & d2)
            elif isinstance(st, (ast.For, ast.AsyncFor)):
                reads(st.iter, defined)
                d1 = set(defined)
                reads(st.target, d1)
                block(st.body, d1)
                block(st.orelse, set(d1))
            elif isinstance(st, ast.While):
                reads(st.test, defined)
                block(st.body, set(defined))
                block(st.orelse, set(defined))
            elif isinstance(st, (ast.With, ast.AsyncWith)):
                for i in st.items:
                    reads(i.context_expr, defined)
                    if i.optional_vars is not None:
                        reads(i.optional_vars, defined)
                block(st.body, defined)
            elif isinstance(st, ast.Try):
                d1 = set(defined)
                block(st.body, d1)
                for h in st.handlers:
                    block(h.body, set(defined))
                block(st.orelse, set(d1))
                block(st.finalbody, set(defined))
            elif isinstance(st, (ast.FunctionDef, ast.AsyncFunctionDef, ast.ClassDef, ast.Lambda)):
                for x in ast.walk(st):
                    if isinstance(x, ast.Name) and x.id not in defined:
                        carried.add(x.id)        # captured by a closure: keep the name
                defined.add(st.name)
            elif isinstance(st, ast.Match):
                reads(st.subject, defined)
                for c in st.cases:
                    d1 = set(defined)
                    for x in ast.walk(c.pattern):
                        if isinstance(x, (ast.MatchAs, ast.MatchStar)) and x.name:
                            d1.add(x.name)
                    if c.guard is not None:
                        reads(c.guard, d1)
                    block(c.body, d1)
            else:
                reads(st, defined)
    block(body, set())
    for st in body:
        for x in ast.walk(st):
            if isinstance(x, ast.Lambda):
                bound = {a.arg for a in ast.walk(x.args) if isinstance(a, ast.arg)}
                for y in ast.walk(x.body):
                    if isinstance(y, ast.Name) and y.id not in bound:
                        carried.add(y.id)
    return {n for n in _stored(body) if n not in carried and n not in names_outside}


def _in_order(node):
    """names in evaluation order: for an assignment the value is read before the target is written"""
    if isinstance(node, ast.Assign):
        yield from _in_order(node.value)
        for t in node.targets:
            yield from _in_order(t)
        return
    if isinstance(node, ast.AugAssign):
        # the target is read first
        if isinstance(node.target, ast.Name):
            yield ast.Name(id=node.target.id, ctx=ast.Load())
        yield from _in_order(node.value)
        yield from _in_order(node.target)
        return
    if isinstance(node, ast.Name):
        yield node
        return
    for c in ast.iter_child_nodes(node):
        yield from _in_order(c)


def names_outside(fnode, node):
    inside = {id(x) for x in ast.walk(node)}
    return {x.id for x in ast.walk(fnode) if isinstance(x, ast.Name) and id(x) not in inside}


def _stored(stmts):
    out = set()
    for st in stmts:
        for x in ast.walk(st):
            if isinstance(x, ast.Name) and isinstance(x.ctx, ast.Store):
                out.add(x.id)
    return out


def unroll(repo, f):
    """unroll loops over constant tables in f (in place); returns the number of loops unrolled"""
    count = [0]

    def rewrite(stmts):
        out = []
        for st in stmts:
            for fld in ("body", "orelse", "finalbody"):
                sub = getattr(st, fld, None)
                if isinstance(sub, list) and sub and isinstance(sub[0], ast.stmt) and not isinstance(st, (ast.FunctionDef, ast.AsyncFunctionDef, ast.ClassDef)):
                    setattr(st, fld, rewrite(sub))
            if isinstance(st, ast.Try):
                for h in st.handlers:
                    h.body = rewrite(h.body)
            if isinstance(st, ast.For) and not st.orelse and not any(isinstance(x, (ast.Break, ast.Continue, ast.Return, ast.Yield, ast.YieldFrom)) for b in st.body for x in ast.walk(b)):
                rows = _table(repo, f, st.iter)
                tg = st.target
                names = [tg] if isinstance(tg, ast.Name) else (list(tg.elts) if isinstance(tg, ast.Tuple) and all(isinstance(x, ast.Name) for x in tg.elts) else None)
                if rows is not None and names is not None:
                    ok = True
                    for r in rows:
                        if isinstance(tg, ast.Tuple) and not (isinstance(r, (ast.Tuple, ast.List)) and len(r.elts) == len(names)):
                            ok = False
                    if ok:
                        stored = _stored(st.body)
                        locals_ = iteration_locals(st.body, names_outside(f.node, st)) - {n.id for n in names}
                        rebound = stored & {n.id for n in names}
                        k = count[0]
                        count[0] += 1
                        for i, r in enumerate(rows):
                            vals = [r] if isinstance(tg, ast.Name) else list(r.elts)
                            consts = {n.id: v for n, v in zip(names, vals)}
                            ren = {l: f"{l}__u{k}_{i}" for l in locals_ | rebound}
                            for t in sorted(rebound):
                                out.append(ast.Assign(targets=[ast.Name(id=ren[t], ctx=ast.Store())], value=copy.deepcopy(consts[t]), lineno=getattr(st, "lineno", 0), col_offset=0))
                            consts = {k_: v for k_, v in consts.items() if k_ not in rebound}
                            for b in st.body:
                                nb = _Sub(consts, ren).visit(copy.deepcopy(b))
                                ast.fix_missing_locations(nb)
                                out.append(nb)
                        continue
            out.append(st)
        return out
    f.node.body = rewrite(f.node.body)
    return count[0]


_BITWISE = {"np.bitwise_or": ast.BitOr, "np.bitwise_and": ast.BitAnd, "np.bitwise_xor": ast.BitXor, "operator.or_": ast.BitOr, "operator.and_": ast.BitAnd}


class _SliceZero(ast.NodeTransformer):
    """x[0:n] -> x[:n] ; x[a:b:1] -> x[a:b]"""
    def visit_Slice(self, n):
        self.generic_visit(n)
        if isinstance(n.lower, ast.Constant) and n.lower.value == 0 and not isinstance(n.lower.value, bool):
            n.lower = None
        if isinstance(n.step, ast.Constant) and n.step.value == 1:
            n.step = None
        return n


_NUMPY_DRAWS = {"normal": ("loc", "scale"), "gamma": ("shape", "scale"), "uniform": ("low", "high"), "clip": ("a", "a_min", "a_max")}


class _Synonyms(ast.NodeTransformer):
    """exact synonyms, applied to every function: getattr(x, "name") -> x.name; vars(x) -> x.__dict__;
    np.bitwise_or(a, b) -> a | b (likewise and/xor); np.invert(a) / np.bitwise_not(a) -> ~a; x[slice(a, b)] -> x[a:b];
    f(*(a, b)) -> f(a, b)"""
    @staticmethod
    def _slice_call(sl):
        if isinstance(sl, ast.Call) and isinstance(sl.func, ast.Name) and sl.func.id == "slice" and 1 <= len(sl.args) <= 3 and not sl.keywords:
            a = sl.args
            none = lambda x: isinstance(x, ast.Constant) and x.value is None
            lo = None if len(a) == 1 or none(a[0]) else a[0]
            up = (None if none(a[0]) else a[0]) if len(a) == 1 else (None if none(a[1]) else a[1])
            stp = a[2] if len(a) == 3 and not none(a[2]) else None
            return ast.Slice(lower=lo, upper=up, step=stp)
        return sl

    def visit_UnaryOp(self, n):
        self.generic_visit(n)
        # not (a is b) -> a is not b ;  not (a in b) -> a not in b   and the reverse: identity and membership tests always give a bool
        if isinstance(n.op, ast.Not) and isinstance(n.operand, ast.Compare) and len(n.operand.ops) == 1 and isinstance(n.operand.ops[0], (ast.Is, ast.IsNot, ast.In, ast.NotIn)):
            inv = {ast.Is: ast.IsNot, ast.IsNot: ast.Is, ast.In: ast.NotIn, ast.NotIn: ast.In}[type(n.operand.ops[0])]
            return ast.copy_location(ast.Compare(left=n.operand.left, ops=[inv()], comparators=n.operand.comparators), n)
        return n

    def visit_Subscript(self, n):
        self.generic_visit(n)
        n.slice = self._slice_call(n.slice)
        # X[M.nonzero()] / X[np.nonzero(M)]  (the whole tuple of index arrays of a mask, not its [0]) selects what X[M] selects, in the same order
        sl_ = n.slice
        if isinstance(n.ctx, ast.Load) and isinstance(sl_, ast.Call) and not sl_.keywords:
            if isinstance(sl_.func, ast.Attribute) and sl_.func.attr == "nonzero" and not sl_.args and not (isinstance(sl_.func.value, ast.Name) and sl_.func.value.id in ("np", "numpy")):
                n.slice = sl_.func.value
            elif isinstance(sl_.func, ast.Attribute) and sl_.func.attr == "nonzero" and isinstance(sl_.func.value, ast.Name) and sl_.func.value.id in ("np", "numpy") and len(sl_.args) == 1:
                n.slice = sl_.args[0]
        # P[a:][k] is P[a + k] ; P[a:][b:] is P[a + b:]    (non-negative integer constants)
        v = n.value
        if isinstance(v, ast.Subscript) and isinstance(v.slice, ast.Slice) and v.slice.upper is None and v.slice.step is None and isinstance(v.slice.lower, ast.Constant) \
                and isinstance(v.slice.lower.value, int) and v.slice.lower.value >= 0 and isinstance(n.ctx, ast.Load):
            a_ = v.slice.lower.value
            if isinstance(n.slice, ast.Constant) and isinstance(n.slice.value, int) and not isinstance(n.slice.value, bool) and n.slice.value >= 0:
                return ast.copy_location(ast.Subscript(value=v.value, slice=ast.Constant(value=a_ + n.slice.value), ctx=ast.Load()), n)
            if isinstance(n.slice, ast.Slice) and n.slice.upper is None and n.slice.step is None and isinstance(n.slice.lower, ast.Constant) and isinstance(n.slice.lower.value, int) \
                    and n.slice.lower.value >= 0:
                return ast.copy_location(ast.Subscript(value=v.value, slice=ast.Slice(lower=ast.Constant(value=a_ + n.slice.lower.value), upper=None, step=None), ctx=ast.Load()), n)
        if isinstance(n.slice, ast.Tuple):
            n.slice.elts = [self._slice_call(e) for e in n.slice.elts]
            # X[:, :]  (two or more full slices: array-only syntax, a view of all of X) read as a value is X
            if isinstance(n.ctx, ast.Load) and len(n.slice.elts) >= 2 and all(isinstance(e, ast.Slice) and e.lower is None and e.upper is None and e.step is None for e in n.slice.elts):
                return n.value
        return n
    def visit_Call(self, n):
        self.generic_visit(n)
        f = U(n.func)
        # K._make(t)  ->  K(*t)     (the NamedTuple class method: positional construction from an iterable)
        if isinstance(n.func, ast.Attribute) and n.func.attr == "_make" and isinstance(n.func.value, ast.Name) and n.func.value.id.lstrip("_")[:1].isupper() \
                and len(n.args) == 1 and not n.keywords and not isinstance(n.args[0], ast.Starred):
            return ast.copy_location(ast.Call(func=n.func.value, args=[ast.Starred(value=n.args[0], ctx=ast.Load())], keywords=[]), n)
        # normal(loc=m, scale=s) / gamma(shape=a, scale=b) on numpy's random module or a Generator: the leading parameters by position, the
        # way the reviewed tree writes every one of these draws
        if isinstance(n.func, ast.Attribute) and n.func.attr in _NUMPY_DRAWS and n.keywords and not any(isinstance(a, ast.Starred) for a in n.args) \
                and all(k.arg is not None for k in n.keywords):
            ps_ = _NUMPY_DRAWS[n.func.attr]
            kw_ = {k.arg: k.value for k in n.keywords}
            args_ = list(n.args)
            while len(args_) < len(ps_) and ps_[len(args_)] in kw_:
                args_.append(kw_.pop(ps_[len(args_)]))
            if len(args_) != len(n.args):
                n.args = args_
                n.keywords = [k for k in n.keywords if k.arg in kw_]
        # dict(a=x, b=y) -> {"a": x, "b": y}      (keywords only; `dict` is the builtin: the engine's modules never rebind it)
        if isinstance(n.func, ast.Name) and n.func.id == "dict" and not n.args and n.keywords and all(k.arg is not None for k in n.keywords):
            return ast.copy_location(ast.Dict(keys=[ast.Constant(value=k.arg) for k in n.keywords], values=[k.value for k in n.keywords]), n)
        if any(isinstance(a, ast.Starred) and isinstance(a.value, (ast.Tuple, ast.List)) for a in n.args):
            args = []
            for a in n.args:
                if isinstance(a, ast.Starred) and isinstance(a.value, (ast.Tuple, ast.List)) and not any(isinstance(x, ast.Starred) for x in a.value.elts):
                    args += list(a.value.elts)
                else:
                    args.append(a)
            n.args = args
        # map(f, it)  ->  (f(x) for x in it)      (one iterable; both are lazy and call f once per item, in order)
        if isinstance(n.func, ast.Name) and n.func.id == "map" and len(n.args) == 2 and not n.keywords and not any(isinstance(a, ast.Starred) for a in n.args) \
                and isinstance(n.args[0], (ast.Name, ast.Attribute, ast.Lambda)):
            used = {x.id for x in ast.walk(n) if isinstance(x, ast.Name)}
            v = "item__m"
            while v in used:
                v += "_"
            call = self.visit(ast.Call(func=n.args[0], args=[ast.Name(id=v, ctx=ast.Load())], keywords=[]))      # (K._make(x) -> K(*x), np.add(..) -> .., on the call just built)
            return ast.copy_location(ast.GeneratorExp(elt=call, generators=[ast.comprehension(target=ast.Name(id=v, ctx=ast.Store()), iter=n.args[1], ifs=[], is_async=0)]), n)
        # operator.add(a, b) / np.add(a, b) -> a + b   (likewise sub, mul, truediv, matmul, and_, or_, xor; two positional arguments only)
        _BIN = {"operator.add": ast.Add, "operator.sub": ast.Sub, "operator.mul": ast.Mult, "operator.truediv": ast.Div, "operator.matmul": ast.MatMult,
                "operator.and_": ast.BitAnd, "operator.or_": ast.BitOr, "operator.xor": ast.BitXor, "operator.floordiv": ast.FloorDiv, "operator.mod": ast.Mod,
                "np.add": ast.Add, "np.subtract": ast.Sub, "np.multiply": ast.Mult, "np.true_divide": ast.Div, "np.divide": ast.Div, "np.matmul": ast.MatMult}
        if f in _BIN and len(n.args) == 2 and not n.keywords and not any(isinstance(a, ast.Starred) for a in n.args):
            return ast.copy_location(ast.BinOp(left=n.args[0], op=_BIN[f](), right=n.args[1]), n)
        if f in ("operator.neg", "np.negative") and len(n.args) == 1 and not n.keywords:
            return ast.copy_location(ast.UnaryOp(op=ast.USub(), operand=n.args[0]), n)
        # np.arange(N, 0, -1)  ->  N - np.arange(N)     (N, N-1, .., 1 either way; fresh integer arrays)
        if f in ("np.arange", "numpy.arange") and len(n.args) == 3 and not n.keywords and isinstance(n.args[1], ast.Constant) and n.args[1].value == 0 \
                and isinstance(n.args[2], ast.UnaryOp) and isinstance(n.args[2].op, ast.USub) and isinstance(n.args[2].operand, ast.Constant) and n.args[2].operand.value == 1 \
                and not any(isinstance(x, (ast.Call,)) and U(x.func) not in ("len",) for x in ast.walk(n.args[0])):
            return ast.copy_location(ast.BinOp(left=n.args[0], op=ast.Sub(), right=ast.Call(func=n.func, args=[copy.deepcopy(n.args[0])], keywords=[])), n)
        if isinstance(n.func, ast.Name) and n.func.id == "getattr" and len(n.args) == 2 and not n.keywords and isinstance(n.args[1], ast.Constant) \
                and isinstance(n.args[1].value, str) and n.args[1].value.isidentifier():
            return ast.copy_location(ast.Attribute(value=n.args[0], attr=n.args[1].value, ctx=ast.Load()), n)
        if isinstance(n.func, ast.Attribute) and n.func.attr in ("__getattribute__", "__getattr__") and len(n.args) == 1 and not n.keywords and isinstance(n.args[0], ast.Constant) \
                and isinstance(n.args[0].value, str) and n.args[0].value.isidentifier():
            return ast.copy_location(ast.Attribute(value=n.func.value, attr=n.args[0].value, ctx=ast.Load()), n)
        # np.take(a, idx, axis=0) -> a[idx] ; np.equal(a, b) -> a == b (likewise not_equal / less / greater ...)
        if f == "np.take" and len(n.args) == 2 and [k.arg for k in n.keywords] == ["axis"] and U(n.keywords[0].value) == "0":
            return ast.copy_location(ast.Subscript(value=n.args[0], slice=n.args[1], ctx=ast.Load()), n)
        cmp_ops = {"np.equal": ast.Eq, "np.not_equal": ast.NotEq, "np.less": ast.Lt, "np.less_equal": ast.LtE, "np.greater": ast.Gt, "np.greater_equal": ast.GtE}
        if f in cmp_ops and len(n.args) == 2 and not n.keywords:
            return ast.copy_location(ast.Compare(left=n.args[0], ops=[cmp_ops[f]()], comparators=[n.args[1]]), n)
        if f == "vars" and len(n.args) == 1 and not n.keywords:
            return ast.copy_location(ast.Attribute(value=n.args[0], attr="__dict__", ctx=ast.Load()), n)
        if f in _BITWISE and len(n.args) == 2 and not n.keywords:
            return ast.copy_location(ast.BinOp(left=n.args[0], op=_BITWISE[f](), right=n.args[1]), n)
        if f in ("np.invert", "np.bitwise_not") and len(n.args) == 1 and not n.keywords:
            return ast.copy_location(ast.UnaryOp(op=ast.Invert(), operand=n.args[0]), n)
        # np.full(shape, False[, dtype=bool]) -> np.zeros(shape, dtype=bool); True -> np.ones; 0.0 / 1.0 -> float zeros / ones
        if f == "np.full" and len(n.args) == 2 and isinstance(n.args[1], ast.Constant) and all(k.arg == "dtype" for k in n.keywords):
            v = n.args[1].value
            dt = U(n.keywords[0].value) if n.keywords else None
            if isinstance(v, bool) and dt in (None, "bool", "np.bool_"):
                return ast.copy_location(ast.Call(func=ast.Attribute(value=ast.Name(id="np", ctx=ast.Load()), attr="ones" if v else "zeros", ctx=ast.Load()),
                                                  args=[n.args[0]], keywords=[ast.keyword(arg="dtype", value=ast.Name(id="bool", ctx=ast.Load()))]), n)
            if isinstance(v, float) and v in (0.0, 1.0) and dt in (None, "float", "np.float64"):
                return ast.copy_location(ast.Call(func=ast.Attribute(value=ast.Name(id="np", ctx=ast.Load()), attr="ones" if v == 1.0 else "zeros", ctx=ast.Load()),
                                                  args=[n.args[0]], keywords=[]), n)
        return n


class _StmtSynonyms(ast.NodeTransformer):
    """statement-level synonyms: setattr(x, "name", v) -> x.name = v ;  x.__dict__.update({"a": u, "b": v}) / .update(a=u, b=v)
    -> x.a = u; x.b = v"""
    def visit_FunctionDef(self, n):
        self.generic_visit(n)
        return n

    def visit_Assign(self, n):
        # q, r = divmod(a, b)  ->  q = a // b; r = a % b     (a and b plain names / constants / paths)
        if len(n.targets) == 1 and isinstance(n.targets[0], ast.Tuple) and len(n.targets[0].elts) == 2 and all(isinstance(t, ast.Name) for t in n.targets[0].elts) \
                and isinstance(n.value, ast.Call) and isinstance(n.value.func, ast.Name) and n.value.func.id == "divmod" and len(n.value.args) == 2 and not n.value.keywords \
                and all(isinstance(a, (ast.Name, ast.Constant, ast.Attribute)) for a in n.value.args):
            a, b = n.value.args
            q, r = n.targets[0].elts
            if q.id not in (U(a), U(b)) and r.id not in (U(a), U(b)):
                return [ast.copy_location(ast.Assign(targets=[ast.Name(id=q.id, ctx=ast.Store())], value=ast.BinOp(left=copy.deepcopy(a), op=ast.FloorDiv(), right=copy.deepcopy(b)), lineno=n.lineno), n),
                        ast.copy_location(ast.Assign(targets=[ast.Name(id=r.id, ctx=ast.Store())], value=ast.BinOp(left=copy.deepcopy(a), op=ast.Mod(), right=copy.deepcopy(b)), lineno=n.lineno), n)]
        return n

    def visit_Expr(self, n):
        c = n.value
        if isinstance(c, ast.Call) and isinstance(c.func, ast.Name) and c.func.id == "setattr" and len(c.args) == 3 and not c.keywords \
                and isinstance(c.args[1], ast.Constant) and isinstance(c.args[1].value, str) and c.args[1].value.isidentifier():
            return ast.copy_location(ast.Assign(targets=[ast.Attribute(value=c.args[0], attr=c.args[1].value, ctx=ast.Store())], value=c.args[2], lineno=n.lineno), n)
        if isinstance(c, ast.Call) and isinstance(c.func, ast.Attribute) and c.func.attr == "update" and isinstance(c.func.value, ast.Attribute) and c.func.value.attr == "__dict__":
            obj = c.func.value.value
            pairs = None
            if len(c.args) == 1 and not c.keywords and isinstance(c.args[0], ast.Dict) and all(isinstance(k, ast.Constant) and isinstance(k.value, str) and k.value.isidentifier() for k in c.args[0].keys):
                pairs = [(k.value, v) for k, v in zip(c.args[0].keys, c.args[0].values)]
            elif not c.args and c.keywords and all(k.arg for k in c.keywords):
                pairs = [(k.arg, k.value) for k in c.keywords]
            if pairs:
                return [ast.copy_location(ast.Assign(targets=[ast.Attribute(value=copy.deepcopy(obj), attr=k, ctx=ast.Store())], value=v, lineno=n.lineno), n) for k, v in pairs]
        return n


class _MatchToIf(ast.NodeTransformer):
    """match S: case K(): A  case "c": B  case _ / case name: C     (S a plain name / path; class patterns without sub-patterns, constants,
    a final wildcard or capture)   ->   if isinstance(S, K): A  elif S == "c": B  else: [name = S;] C
    so that every pass that walks if / else arms sees the case bodies.  Other match statements are left alone."""
    def visit_Match(self, n):
        self.generic_visit(n)
        subj = n.subject
        root = subj
        while isinstance(root, ast.Attribute):
            root = root.value
        if not isinstance(root, ast.Name):
            return n
        arms = []
        for i, c in enumerate(n.cases):
            p = c.pattern
            if c.guard is not None:
                return n
            if isinstance(p, ast.MatchClass) and not p.patterns and not p.kwd_patterns:
                test = ast.Call(func=ast.Name(id="isinstance", ctx=ast.Load()), args=[copy.deepcopy(subj), p.cls], keywords=[])
                arms.append((test, c.body, None))
            elif isinstance(p, ast.MatchValue) and isinstance(p.value, ast.Constant):
                arms.append((ast.Compare(left=copy.deepcopy(subj), ops=[ast.Eq()], comparators=[p.value]), c.body, None))
            elif isinstance(p, ast.MatchAs) and p.pattern is None and i == len(n.cases) - 1:
                arms.append((None, c.body, p.name))
            else:
                return n
        # a subject re-bound inside a case body would change what later tests see: they are evaluated up front only in `match`
        stored = {x.id for c in n.cases for st in c.body for x in ast.walk(st) if isinstance(x, ast.Name) and isinstance(x.ctx, ast.Store)}
        if root.id in stored:
            return n
        node = None
        for test, body, cap in reversed(arms):
            if test is None:
                pre = [ast.Assign(targets=[ast.Name(id=cap, ctx=ast.Store())], value=copy.deepcopy(subj), lineno=n.lineno, col_offset=0)] if cap else []
                node = pre + list(body)
            else:
                node = [ast.If(test=test, body=list(body), orelse=node or [], lineno=n.lineno, col_offset=0)]
        if node is None:
            return n
        for x in node:
            ast.copy_location(x, n)
        return node


def tuple_view_of_record_results(repo):
    """A repository function whose every value-returning `return` is a construction of one NamedTuple class K hands its callers a tuple
    with names.  For the analysis it is read as the tuple it is:
      in the function     return K(a, b, c)                 ->  return (a, b, c)
      in every caller     x = g(..); .. x.f1 .. x.f2 ..     ->  x__f1, x__f2, x__f3 = g(..); .. x__f1 .. x__f2 ..
    (x bound once, every read of x a field read).  Callers that use x in another way keep the call as it is - indexing and unpacking
    a NamedTuple already read like a tuple.  Returns the number of functions changed."""
    import copy as _copy
    changed = 0
    producers = {}
    for q, f in repo.funcs.items():
        rets = [n for n in _walk_own(f.node) if isinstance(n, ast.Return) and n.value is not None and not (isinstance(n.value, ast.Constant) and n.value.value is None)]
        if not rets or not all(isinstance(r.value, ast.Call) and isinstance(r.value.func, ast.Name) for r in rets):
            continue
        names = {r.value.func.id for r in rets}
        if len(names) != 1:
            continue
        K = names.pop()
        cq = repo.chase(f.mod, K)
        cn = repo.classes.get(cq) if cq else None
        fl = record_fields(repo, f.mod, K, allow_methods=True)
        if cn is None or not fl or not any(U(b) in ("NamedTuple", "typing.NamedTuple") for b in cn.bases):
            continue
        ok = True
        vals = []
        for r in rets:
            c = _copy.deepcopy(r.value)
            complete_record_call(repo, f.mod, c)
            if any(isinstance(a, ast.Starred) for a in c.args) or any(k.arg is None for k in c.keywords) or len(c.args) + len(c.keywords) != len(fl):
                ok = False
                break
            d = dict(zip(fl, c.args))
            d.update({k.arg: k.value for k in c.keywords})
            if set(d) != set(fl):
                ok = False
                break
            vals.append([d[x] for x in fl])
        if not ok:
            continue
        producers[q] = (fl, rets, vals)
    if not producers:
        return 0
    simple = {}
    for q in producers:
        simple.setdefault(q.rsplit(".", 1)[-1], []).append(q)
    for q, (fl, rets, vals) in producers.items():
        for r, v in zip(rets, vals):
            r.value = ast.copy_location(ast.Tuple(elts=v, ctx=ast.Load()), r.value)
        ast.fix_missing_locations(repo.funcs[q].node)
        changed += 1
    for f in repo.funcs.values():
        for st in list(ast.walk(f.node)):
            if not (isinstance(st, ast.Assign) and len(st.targets) == 1 and isinstance(st.targets[0], ast.Name) and isinstance(st.value, ast.Call)):
                continue
            fn = st.value.func
            nm = fn.id if isinstance(fn, ast.Name) else (fn.attr if isinstance(fn, ast.Attribute) else None)
            cands = simple.get(nm, [])
            if len(cands) != 1:
                continue
            if isinstance(fn, ast.Name) and repo.chase(f.mod, fn.id) != cands[0]:
                continue
            fl = producers[cands[0]][0]
            x = st.targets[0].id
            names_ = [n for n in ast.walk(f.node) if isinstance(n, ast.Name) and n.id == x]
            if sum(1 for n in names_ if isinstance(n.ctx, (ast.Store, ast.Del))) != 1:
                continue
            par = {}
            for n in ast.walk(f.node):
                for c in ast.iter_child_nodes(n):
                    par[c] = n
            loads = [n for n in names_ if isinstance(n.ctx, ast.Load)]
            if not loads or not all(isinstance(par.get(n), ast.Attribute) and par[n].value is n and par[n].attr in fl and isinstance(par[n].ctx, ast.Load) for n in loads):
                continue
            new = {fld: f"{x}__{fld}" for fld in fl}
            if any(isinstance(n, ast.Name) and n.id in new.values() for n in ast.walk(f.node)):
                continue
            st.targets = [ast.Tuple(elts=[ast.Name(id=new[fld], ctx=ast.Store()) for fld in fl], ctx=ast.Store())]

            class R(ast.NodeTransformer):
                def visit_Attribute(self, n):
                    if isinstance(n.value, ast.Name) and n.value.id == x and n.attr in new and isinstance(n.ctx, ast.Load):
                        return ast.copy_location(ast.Name(id=new[n.attr], ctx=ast.Load()), n)
                    return self.generic_visit(n)
            f.node = R().visit(f.node)
            ast.fix_missing_locations(f.node)
            changed += 1
    return changed


def _walk_own(fnode):
    stack = list(ast.iter_child_nodes(fnode))
    while stack:
        n = stack.pop()
        yield n
        if isinstance(n, (ast.FunctionDef, ast.AsyncFunctionDef, ast.Lambda, ast.ClassDef)):
            continue
        stack.extend(ast.iter_child_nodes(n))


def canonical_args_local(fnode):
    """the one local a command binds to its parsed command line (`x = get_args()`) is called `args` (an alpha-renaming: applied only when
    that local is bound exactly once, is not a parameter, and nothing else in the function is called `args`)"""
    cands = [st.targets[0].id for st in ast.walk(fnode) if isinstance(st, ast.Assign) and len(st.targets) == 1 and isinstance(st.targets[0], ast.Name)
             and isinstance(st.value, ast.Call) and isinstance(st.value.func, ast.Name) and st.value.func.id == "get_args" and not st.value.args and not st.value.keywords]
    if len(cands) != 1 or cands[0] == "args":
        return False
    x = cands[0]
    stores = sum(1 for n in ast.walk(fnode) if isinstance(n, ast.Name) and n.id == x and isinstance(n.ctx, (ast.Store, ast.Del)))
    a = fnode.args
    params = {p.arg for p in a.posonlyargs + a.args + a.kwonlyargs}
    if stores != 1 or x in params or any(isinstance(n, ast.Name) and n.id == "args" for n in ast.walk(fnode)) or "args" in params:
        return False
    for n in ast.walk(fnode):
        if isinstance(n, ast.Name) and n.id == x:
            n.id = "args"
    return True


ENCODE_OBS_ROLES = ("y", "cline", "dd1", "dd2")


def canonical_encode_obs_locals(fnode):
    """`a, b, c, d = self.encode_obs()`: the samplers' observation columns are known by position (C08.R11 checks the order encode_obs hands
    them out in); the locals that receive them are called y, cline, dd1, dd2 (an alpha-renaming, applied only when each renamed local is
    bound exactly once and the canonical name is not otherwise used in the function)"""
    sites = [st for st in ast.walk(fnode) if isinstance(st, ast.Assign) and len(st.targets) == 1 and isinstance(st.targets[0], ast.Tuple)
             and isinstance(st.value, ast.Call) and isinstance(st.value.func, ast.Attribute) and st.value.func.attr == "encode_obs" and not st.value.args]
    if len(sites) != 1:
        return False
    ren = {}
    for pos, t in enumerate(sites[0].targets[0].elts):
        if isinstance(t, ast.Starred) or pos >= len(ENCODE_OBS_ROLES):
            break
        if isinstance(t, ast.Name) and t.id != "_" and t.id != ENCODE_OBS_ROLES[pos]:
            ren[t.id] = ENCODE_OBS_ROLES[pos]
    if not ren:
        return False
    a = fnode.args
    params = {p.arg for p in a.posonlyargs + a.args + a.kwonlyargs}
    names = [n for n in ast.walk(fnode) if isinstance(n, ast.Name)]
    for old_, new_ in ren.items():
        if old_ in params or sum(1 for n in names if n.id == old_ and isinstance(n.ctx, (ast.Store, ast.Del))) != 1 or any(n.id == new_ for n in names) or new_ in params:
            return False
    for n in names:
        if n.id in ren:
            n.id = ren[n.id]
    return True


def return_of_temporary(fnode):
    """x = E; return x      (adjacent statements; x a plain local that no nested function mentions)   ->   return E
    The name adds nothing: the function returns the value of E either way."""
    stores, loads = {}, {}
    for n in ast.walk(fnode):
        if isinstance(n, ast.Name):
            d = stores if isinstance(n.ctx, (ast.Store, ast.Del)) else loads
            d[n.id] = d.get(n.id, 0) + 1
    a = fnode.args
    params = {p.arg for p in a.posonlyargs + a.args + a.kwonlyargs} | ({a.vararg.arg} if a.vararg else set()) | ({a.kwarg.arg} if a.kwarg else set())
    declared = {x for n in ast.walk(fnode) if isinstance(n, (ast.Global, ast.Nonlocal)) for x in n.names}
    # nothing can read this store but the return that follows it - unless a nested function closes over the name
    nested = {x.id for n in ast.walk(fnode) if n is not fnode and isinstance(n, (ast.FunctionDef, ast.AsyncFunctionDef, ast.Lambda)) for x in ast.walk(n) if isinstance(x, ast.Name)}
    changed = False
    for owner in ast.walk(fnode):
        for fld in ("body", "orelse", "finalbody"):
            lst = getattr(owner, fld, None)
            if not (isinstance(lst, list) and lst and isinstance(lst[0], ast.stmt)):
                continue
            k = 0
            while k + 1 < len(lst):
                a_, r_ = lst[k], lst[k + 1]
                if isinstance(a_, ast.Assign) and len(a_.targets) == 1 and isinstance(a_.targets[0], ast.Name) and isinstance(r_, ast.Return) and isinstance(r_.value, ast.Name) \
                        and r_.value.id == a_.targets[0].id and r_.value.id not in declared | nested:
                    lst[k:k + 2] = [ast.copy_location(ast.Return(value=a_.value), r_)]
                    changed = True
                    continue
                k += 1
    return changed


def star_of_tuple_temporaries(fnode):
    """t = (a, b); S     with S the next statement, reading t exactly once, as `*t` among the positional arguments of a call   ->   S with `a, b` in
    place of `*t`.  Conditions: t is a plain local bound once and read once, no nested function mentions it, and every element is a
    name, an attribute path or a constant (nothing whose evaluation could be moved across the other arguments).  The shape a helper
    returning a pair leaves behind when its call was `f(*helper(..))`."""
    stores, loads = {}, {}
    for n in ast.walk(fnode):
        if isinstance(n, ast.Name):
            d = stores if isinstance(n.ctx, (ast.Store, ast.Del)) else loads
            d[n.id] = d.get(n.id, 0) + 1
    declared = {x for n in ast.walk(fnode) if isinstance(n, (ast.Global, ast.Nonlocal)) for x in n.names}
    nested = {x.id for n in ast.walk(fnode) if n is not fnode and isinstance(n, (ast.FunctionDef, ast.AsyncFunctionDef, ast.Lambda)) for x in ast.walk(n) if isinstance(x, ast.Name)}

    def simple(e):
        while isinstance(e, ast.Attribute):
            e = e.value
        return isinstance(e, (ast.Name, ast.Constant))
    changed = False
    for owner in ast.walk(fnode):
        for fld in ("body", "orelse", "finalbody"):
            lst = getattr(owner, fld, None)
            if not (isinstance(lst, list) and lst and isinstance(lst[0], ast.stmt)):
                continue
            k = 0
            while k + 1 < len(lst):
                a_, s_ = lst[k], lst[k + 1]
                if isinstance(a_, ast.Assign) and len(a_.targets) == 1 and isinstance(a_.targets[0], ast.Name) and isinstance(a_.value, ast.Tuple) \
                        and all(simple(e) for e in a_.value.elts) and isinstance(s_, (ast.Return, ast.Assign, ast.Expr)):
                    t = a_.targets[0].id
                    if stores.get(t) == 1 and loads.get(t) == 1 and t not in declared | nested:
                        hit = [(c, i) for c in ast.walk(s_) if isinstance(c, ast.Call) for i, x in enumerate(c.args)
                               if isinstance(x, ast.Starred) and isinstance(x.value, ast.Name) and x.value.id == t]
                        if len(hit) == 1:
                            c, i = hit[0]
                            c.args[i:i + 1] = list(a_.value.elts)
                            del lst[k]
                            changed = True
                            continue
                k += 1
    return changed


def arguments_of_temporaries(fnode):
    """t1 = E1; t2 = E2; S        with S a simple statement whose whole value is one call f(.., t1, .., k=t2, ..)   ->   S with E1, E2 in place
    Conditions: each t is a plain local bound once and read once - as a direct argument of that call -, the run of such bindings sits
    immediately in front of S, their order is the order of their uses in the call (evaluation order is kept), f is a name / attribute path,
    and no nested function mentions them.  (The inverse of `give every argument a name`.)"""
    stores, loads = {}, {}
    for n in ast.walk(fnode):
        if isinstance(n, ast.Name):
            d = stores if isinstance(n.ctx, (ast.Store, ast.Del)) else loads
            d[n.id] = d.get(n.id, 0) + 1
    a = fnode.args
    params = {p.arg for p in a.posonlyargs + a.args + a.kwonlyargs} | ({a.vararg.arg} if a.vararg else set()) | ({a.kwarg.arg} if a.kwarg else set())
    declared = {x for n in ast.walk(fnode) if isinstance(n, (ast.Global, ast.Nonlocal)) for x in n.names}
    nested = {x.id for n in ast.walk(fnode) if n is not fnode and isinstance(n, (ast.FunctionDef, ast.AsyncFunctionDef, ast.Lambda)) for x in ast.walk(n) if isinstance(x, ast.Name)}

    def is_path(e):
        while isinstance(e, ast.Attribute):
            e = e.value
        return isinstance(e, ast.Name)
    changed = False
    for owner in ast.walk(fnode):
        for fld in ("body", "orelse", "finalbody"):
            lst = getattr(owner, fld, None)
            if not (isinstance(lst, list) and lst and isinstance(lst[0], ast.stmt)):
                continue
            k = 0
            while k < len(lst):
                st = lst[k]
                call = st.value if isinstance(st, (ast.Assign, ast.Expr, ast.Return)) and isinstance(getattr(st, "value", None), ast.Call) else None
                if call is None or not is_path(call.func) or any(isinstance(x, ast.Starred) for x in call.args) or any(kw.arg is None for kw in call.keywords) \
                        or (isinstance(call.func, ast.Name) and call.func.id in ("divmod", "zip")):
                    # (divmod / zip keep their named operands: the statement-level synonyms and the row-stream reader want them as written)
                    k += 1
                    continue
                slots = [("a", i) for i in range(len(call.args))] + [("k", i) for i in range(len(call.keywords))]
                arg_names = []
                for kind, i in slots:
                    v = call.args[i] if kind == "a" else call.keywords[i].value
                    if isinstance(v, ast.Name) and stores.get(v.id) == 1 and loads.get(v.id) == 1 and v.id not in params | declared | nested:
                        arg_names.append((v.id, kind, i))
                # the maximal run of bindings right in front of the statement that binds such arguments, in use order
                j = k
                run = []
                want = {nm for nm, _, _ in arg_names}
                while j - 1 >= 0 and want:
                    p_ = lst[j - 1]
                    if isinstance(p_, ast.Assign) and len(p_.targets) == 1 and isinstance(p_.targets[0], ast.Name) and p_.targets[0].id in want \
                            and not any(isinstance(x, (ast.Yield, ast.YieldFrom, ast.Await, ast.NamedExpr)) for x in ast.walk(p_.value)):
                        run.insert(0, p_)
                        want.discard(p_.targets[0].id)
                        j -= 1
                    else:
                        break
                # the bindings are evaluated in the order their values are then evaluated as arguments
                # .. (the latest bindings that are in use order; an earlier one that is used out of order keeps its name)
                while run and [p_.targets[0].id for p_ in run] != [nm for nm, _, _ in arg_names if nm in [p_.targets[0].id for p_ in run]]:
                    run.pop(0)
                    j += 1
                if not run:
                    k += 1
                    continue
                vals = {p_.targets[0].id: p_.value for p_ in run}
                for nm, kind, i in arg_names:
                    if nm in vals:
                        if kind == "a":
                            call.args[i] = vals[nm]
                        else:
                            call.keywords[i].value = vals[nm]
                del lst[j:k]
                k = j + 1
                changed = True
    return changed


def comprehensions_of_collect_loops(fnode):
    """x = [] ; for T in IT: [if C:] x.append(E)      ->   x = [E for T in IT if C]
       x = {} ; for T in IT: [if C:] x[K] = V         ->   x = {K: V for T in IT if C}
    when the loop follows the empty display immediately, its body is that one statement (under nested else-less `if`s), x is not mentioned
    in IT / C / E, the loop's variables are not read after the loop (a comprehension's do not leak) and - for the dict - key and value do
    not both contain calls (a comprehension evaluates the key first, the store the value).  The inverse of writing a comprehension out."""
    changed = False
    a = fnode.args
    params = {p.arg for p in a.posonlyargs + a.args + a.kwonlyargs}
    for owner in ast.walk(fnode):
        for fld in ("body", "orelse", "finalbody"):
            lst = getattr(owner, fld, None)
            if not (isinstance(lst, list) and lst and isinstance(lst[0], ast.stmt)):
                continue
            k = 0
            while k + 1 < len(lst):
                st, lp = lst[k], lst[k + 1]
                k += 1
                if not (isinstance(st, ast.Assign) and len(st.targets) == 1 and isinstance(st.targets[0], ast.Name) and isinstance(lp, ast.For) and not lp.orelse and len(lp.body) == 1):
                    continue
                x = st.targets[0].id
                is_list = isinstance(st.value, ast.List) and not st.value.elts
                is_dict = isinstance(st.value, ast.Dict) and not st.value.keys
                if not (is_list or is_dict) or x in params:
                    continue
                conds = []
                inner = lp.body[0]
                while isinstance(inner, ast.If) and not inner.orelse and len(inner.body) == 1:
                    conds.append(inner.test)
                    inner = inner.body[0]
                comp = None
                if is_list and isinstance(inner, ast.Expr) and isinstance(inner.value, ast.Call) and isinstance(inner.value.func, ast.Attribute) and inner.value.func.attr == "append" \
                        and isinstance(inner.value.func.value, ast.Name) and inner.value.func.value.id == x and len(inner.value.args) == 1 and not inner.value.keywords \
                        and not isinstance(inner.value.args[0], ast.Starred):
                    parts = [inner.value.args[0]]
                    comp = lambda: ast.ListComp(elt=parts[0], generators=[ast.comprehension(target=lp.target, iter=lp.iter, ifs=conds, is_async=0)])
                elif is_dict and isinstance(inner, ast.Assign) and len(inner.targets) == 1 and isinstance(inner.targets[0], ast.Subscript) and isinstance(inner.targets[0].value, ast.Name) \
                        and inner.targets[0].value.id == x:
                    parts = [inner.targets[0].slice, inner.value]
                    if any(isinstance(y, ast.Call) for y in ast.walk(parts[0])) and any(isinstance(y, ast.Call) for y in ast.walk(parts[1])):
                        continue
                    comp = lambda: ast.DictComp(key=parts[0], value=parts[1], generators=[ast.comprehension(target=lp.target, iter=lp.iter, ifs=conds, is_async=0)])
                if comp is None:
                    continue
                if any(isinstance(y, ast.Name) and y.id == x for part in parts + conds + [lp.iter] for y in ast.walk(part)):
                    continue
                if any(isinstance(y, (ast.Yield, ast.YieldFrom, ast.Await, ast.NamedExpr)) for part in parts + conds + [lp.iter] for y in ast.walk(part)):
                    continue
                tnames = {y.id for y in ast.walk(lp.target) if isinstance(y, ast.Name)}
                if not all(isinstance(y, (ast.Name, ast.Tuple, ast.List)) for y in ast.walk(lp.target) if not isinstance(y, ast.expr_context)):
                    continue
                # the loop's variables: bound nowhere else in the function and read only inside the loop
                inside = {id(y) for y in ast.walk(lp)}
                if any(isinstance(y, ast.Name) and y.id in tnames and id(y) not in inside for y in ast.walk(fnode)):
                    continue
                st.value = ast.copy_location(comp(), st.value)
                del lst[k]
                changed = True
    if changed:
        ast.fix_missing_locations(fnode)
    return changed


def configuration_attributes(repo):
    """names of attributes that are plain configuration: stored on `self` in an `__init__` of the repository and stored nowhere else (no
    method re-binds them, no setattr / delattr anywhere), and no method, property or class-level name of that name exists"""
    cached = getattr(repo, "_config_attrs", None)
    if cached is not None:
        return cached
    in_init, elsewhere, defs = set(), set(), set()
    dynamic = False
    for f in repo.funcs.values():
        if f.cls:
            defs.add(f.name)
        for x in ast.walk(f.node):
            if isinstance(x, ast.Attribute) and isinstance(x.ctx, (ast.Store, ast.Del)):
                (in_init if f.name == "__init__" and isinstance(x.value, ast.Name) and x.value.id == "self" else elsewhere).add(x.attr)
            if isinstance(x, ast.Call) and isinstance(x.func, ast.Name) and x.func.id in ("setattr", "delattr"):
                dynamic = True
            if isinstance(x, ast.Attribute) and x.attr == "__dict__":
                dynamic = True
    for cn in repo.classes.values():
        for m in getattr(cn, "body", []):
            if isinstance(m, (ast.Assign, ast.AnnAssign)):
                for t in (m.targets if isinstance(m, ast.Assign) else [m.target]):
                    if isinstance(t, ast.Name):
                        defs.add(t.id)
    repo._config_attrs = set() if dynamic and False else (in_init - elsewhere - defs)
    return repo._config_attrs


def aliases_of_configuration(repo, f):
    """x = self.attr   with attr plain configuration (see configuration_attributes) and x a local bound once, never a parameter, not captured
    by a nested function   ->   self.attr wherever x is read.  The alias names the same object for the whole call; the inverse of
    `read the option once into a local`."""
    fnode = f.node
    if not f.cls or f.name == "__init__" or not fnode.args.args or fnode.args.args[0].arg != "self":
        return False
    config = configuration_attributes(repo)
    stores = {}
    for x in ast.walk(fnode):
        if isinstance(x, ast.Name) and isinstance(x.ctx, (ast.Store, ast.Del)):
            stores[x.id] = stores.get(x.id, 0) + 1
    if stores.get("self"):
        return False
    a = fnode.args
    params = {p.arg for p in a.posonlyargs + a.args + a.kwonlyargs} | ({a.vararg.arg} if a.vararg else set()) | ({a.kwarg.arg} if a.kwarg else set())
    nested = {x.id for n in ast.walk(fnode) if n is not fnode and isinstance(n, (ast.FunctionDef, ast.AsyncFunctionDef, ast.Lambda)) for x in ast.walk(n) if isinstance(x, ast.Name)}
    alias = {}
    for st in walk_own_stmts(fnode):
        if isinstance(st, ast.Assign) and len(st.targets) == 1 and isinstance(st.targets[0], ast.Name) and isinstance(st.value, ast.Attribute) \
                and isinstance(st.value.value, ast.Name) and st.value.value.id == "self" and st.value.attr in config:
            x = st.targets[0].id
            if stores.get(x) == 1 and x not in params and x not in nested:
                alias[x] = st
    if not alias:
        return False

    class R(ast.NodeTransformer):
        def visit_Name(self, n):
            if n.id in alias and isinstance(n.ctx, ast.Load):
                return ast.copy_location(copy.deepcopy(alias[n.id].value), n)
            return n

    def strip(stmts):
        out = []
        for st in stmts:
            if any(st is d for d in alias.values()):
                continue
            for fld in ("body", "orelse", "finalbody"):
                sub = getattr(st, fld, None)
                if isinstance(sub, list) and sub and isinstance(sub[0], ast.stmt) and not isinstance(st, (ast.FunctionDef, ast.AsyncFunctionDef, ast.ClassDef)):
                    setattr(st, fld, strip(sub) or [ast.Pass()])
            if isinstance(st, ast.Try):
                for h in st.handlers:
                    h.body = strip(h.body) or [ast.Pass()]
            out.append(st)
        return out
    fnode.body = strip(fnode.body) or [ast.Pass()]
    f.node = R().visit(fnode)
    ast.fix_missing_locations(f.node)
    return True


def walk_own_stmts(fnode):
    """the statements of a function, nested blocks included, nested function / class bodies excluded"""
    todo = list(fnode.body)
    while todo:
        st = todo.pop(0)
        yield st
        if isinstance(st, (ast.FunctionDef, ast.AsyncFunctionDef, ast.ClassDef)):
            continue
        for fld in ("body", "orelse", "finalbody"):
            sub = getattr(st, fld, None)
            if isinstance(sub, list) and sub and isinstance(sub[0], ast.stmt):
                todo += sub
        if isinstance(st, ast.Try):
            for h in st.handlers:
                todo += h.body


def statements_of_conditional_values(fnode):
    """x = A if c else B   ->   if c: x = A  else: x = B          return A if c else B   ->   if c: return A  else: return B
    when the conditional expression is the WHOLE value of the statement: the test is evaluated first and exactly one arm after it in both
    forms.  (Augmented assignments and conditional expressions nested inside a larger expression are left alone.)"""
    changed = False

    def block(stmts):
        nonlocal changed
        out = []
        for st in stmts:
            for fld in ("body", "orelse", "finalbody"):
                v = getattr(st, fld, None)
                if isinstance(v, list) and v and isinstance(v[0], ast.stmt) and not isinstance(st, (ast.FunctionDef, ast.AsyncFunctionDef, ast.ClassDef)):
                    setattr(st, fld, block(v))
            if isinstance(st, ast.Try):
                for h in st.handlers:
                    h.body = block(h.body)
            v = getattr(st, "value", None)
            if isinstance(st, (ast.Assign, ast.Return)) and isinstance(v, ast.IfExp) \
                    and (isinstance(st, ast.Return) or (len(st.targets) == 1 and isinstance(st.targets[0], ast.Name))):
                a, b = copy.copy(st), copy.copy(st)
                a.value, b.value = v.body, v.orelse
                if isinstance(st, ast.Assign):
                    a.targets = [copy.deepcopy(st.targets[0])]
                    b.targets = [copy.deepcopy(st.targets[0])]
                node = ast.copy_location(ast.If(test=v.test, body=block([a]), orelse=block([b])), st)
                out.append(node)
                changed = True
                continue
            out.append(st)
        return out
    fnode.body = block(fnode.body)
    if changed:
        ast.fix_missing_locations(fnode)
    return changed


def split_tuple_assignments(fnode):
    """a, b = X, Y   ->   a = X ; b = Y     when every target is a plain name and no later value reads an earlier target (then binding a
    before Y is evaluated changes nothing; X is evaluated before Y in both forms)"""
    changed = False

    def block(stmts):
        nonlocal changed
        out = []
        for st in stmts:
            for fld in ("body", "orelse", "finalbody"):
                v = getattr(st, fld, None)
                if isinstance(v, list) and v and isinstance(v[0], ast.stmt) and not isinstance(st, (ast.FunctionDef, ast.AsyncFunctionDef, ast.ClassDef)):
                    setattr(st, fld, block(v))
            if isinstance(st, ast.Try):
                for h in st.handlers:
                    h.body = block(h.body)
            if isinstance(st, ast.Assign) and len(st.targets) == 1 and isinstance(st.targets[0], (ast.Tuple, ast.List)) and isinstance(st.value, (ast.Tuple, ast.List)) \
                    and len(st.targets[0].elts) == len(st.value.elts) >= 2 and all(isinstance(t, ast.Name) for t in st.targets[0].elts) \
                    and not any(isinstance(x, ast.Starred) for x in st.value.elts) and len({t.id for t in st.targets[0].elts}) == len(st.targets[0].elts):
                names = [t.id for t in st.targets[0].elts]
                ok = True
                for j, v in enumerate(st.value.elts):
                    read = {x.id for x in ast.walk(v) if isinstance(x, ast.Name)}
                    if read & set(names[:j]) or any(isinstance(x, (ast.NamedExpr, ast.Lambda, ast.Yield, ast.YieldFrom, ast.Await)) for x in ast.walk(v)):
                        ok = False
                if ok:
                    for t, v in zip(st.targets[0].elts, st.value.elts):
                        out.append(ast.copy_location(ast.Assign(targets=[ast.Name(id=t.id, ctx=ast.Store())], value=v, lineno=st.lineno), st))
                    changed = True
                    continue
            out.append(st)
        return out
    fnode.body = block(fnode.body)
    if changed:
        ast.fix_missing_locations(fnode)
    return changed


def tests_of_temporaries(fnode):
    """t = E; if t: ..   (or `if not t:`)   with t a plain local bound once and read once - in that test -   ->   if E: ..
    (the inverse of `give the condition a name`; same conditions as for arguments)"""
    stores, loads = {}, {}
    for n in ast.walk(fnode):
        if isinstance(n, ast.Name):
            d = stores if isinstance(n.ctx, (ast.Store, ast.Del)) else loads
            d[n.id] = d.get(n.id, 0) + 1
    a = fnode.args
    params = {p.arg for p in a.posonlyargs + a.args + a.kwonlyargs} | ({a.vararg.arg} if a.vararg else set()) | ({a.kwarg.arg} if a.kwarg else set())
    declared = {x for n in ast.walk(fnode) if isinstance(n, (ast.Global, ast.Nonlocal)) for x in n.names}
    nested = {x.id for n in ast.walk(fnode) if n is not fnode and isinstance(n, (ast.FunctionDef, ast.AsyncFunctionDef, ast.Lambda)) for x in ast.walk(n) if isinstance(x, ast.Name)}
    changed = False
    for owner in ast.walk(fnode):
        for fld in ("body", "orelse", "finalbody"):
            lst = getattr(owner, fld, None)
            if not (isinstance(lst, list) and lst and isinstance(lst[0], ast.stmt)):
                continue
            k = 1
            while k < len(lst):
                st, pr = lst[k], lst[k - 1]
                if isinstance(st, ast.If) and isinstance(pr, ast.Assign) and len(pr.targets) == 1 and isinstance(pr.targets[0], ast.Name):
                    x = pr.targets[0].id
                    t = st.test
                    inner = t.operand if isinstance(t, ast.UnaryOp) and isinstance(t.op, ast.Not) else t
                    if isinstance(inner, ast.Name) and inner.id == x and stores.get(x) == 1 and loads.get(x) == 1 and x not in params | declared | nested \
                            and not isinstance(pr.value, (ast.Constant, ast.Name)) \
                            and not any(isinstance(y, (ast.Yield, ast.YieldFrom, ast.Await, ast.NamedExpr)) for y in ast.walk(pr.value)):
                        if inner is t:
                            st.test = pr.value
                        else:
                            t.operand = pr.value
                        del lst[k - 1]
                        changed = True
                        continue
                k += 1
    return changed


def unelse_after_exit(fnode):
    """One shape for a two-way split of control.
         if c: ..; <return / raise / continue / break>  else: B     ->   if c: ..; <exit>   followed by B      (an arm that leaves needs no else)
       and one order of the two ways, so that `if not c: B else: A` and `if c: A else: B` read the same:
         - the way that leaves comes first when only one leaves;
         - when both leave (an `if` whose arm leaves, followed by statements that end in a leave, counts as such a split too): the one
           ending in `raise` first when only one does, else the shorter one, else the one whose test carries no leading `not`;
         - when neither leaves: the test carries no leading `not`.
       elif chains are unfolded arm by arm."""
    changed = False
    EXIT = (ast.Return, ast.Raise, ast.Continue, ast.Break)

    def size(stmts):
        return sum(1 for st in stmts for x in ast.walk(st) if isinstance(x, ast.stmt))

    def negate(t):
        return t.operand if isinstance(t, ast.UnaryOp) and isinstance(t.op, ast.Not) else ast.copy_location(ast.UnaryOp(op=ast.Not(), operand=t), t)

    def second_first(t, A, B):
        """for two ways A (under t) and B (otherwise) that both leave: should B come first?"""
        ra, rb = isinstance(A[-1], ast.Raise), isinstance(B[-1], ast.Raise)
        if ra != rb:
            return rb
        if size(A) != size(B):
            return size(B) < size(A)
        return isinstance(t, ast.UnaryOp) and isinstance(t.op, ast.Not)

    def block(stmts):
        nonlocal changed
        out = []
        i = 0
        stmts = list(stmts)
        while i < len(stmts):
            st = stmts[i]
            for fld in ("body", "orelse", "finalbody"):
                v = getattr(st, fld, None)
                if isinstance(v, list) and v and isinstance(v[0], ast.stmt) and not isinstance(st, (ast.FunctionDef, ast.AsyncFunctionDef, ast.ClassDef)):
                    setattr(st, fld, block(v))
            if isinstance(st, ast.Try):
                for h in st.handlers:
                    h.body = block(h.body)
            if isinstance(st, ast.If) and st.body and st.orelse and not (len(st.orelse) == 1 and isinstance(st.orelse[0], ast.If) and not isinstance(st.body[-1], EXIT)):
                b_exit, e_exit = isinstance(st.body[-1], EXIT), isinstance(st.orelse[-1], EXIT)
                negated = isinstance(st.test, ast.UnaryOp) and isinstance(st.test.op, ast.Not)
                swap = (e_exit and not b_exit) or (not b_exit and not e_exit and negated) or (b_exit and e_exit and second_first(st.test, st.body, st.orelse))
                if swap:
                    st.test = negate(st.test)
                    st.body, st.orelse = st.orelse, st.body
                    changed = True
            elif isinstance(st, ast.If) and st.body and not st.orelse and isinstance(st.body[-1], EXIT) and i + 1 < len(stmts) and isinstance(stmts[-1], EXIT) \
                    and not any(isinstance(x, (ast.FunctionDef, ast.AsyncFunctionDef, ast.ClassDef)) for x in stmts[i + 1:]):
                # `if c: A <leave>` followed by REST <leave>: the same split written without else
                rest = stmts[i + 1:]
                rest = block(rest)
                if second_first(st.test, st.body, rest):
                    st.test = negate(st.test)
                    A = st.body
                    st.body = rest
                    out.append(st)
                    out += A
                    changed = True
                else:
                    out.append(st)
                    out += rest
                return out
            if isinstance(st, ast.If) and st.orelse and st.body and isinstance(st.body[-1], EXIT):
                rest = st.orelse
                st.orelse = []
                changed = True
                # the former else arm now follows: it is the rest of this block together with what came after it
                stmts[i + 1:i + 1] = rest
                continue_same = True
                # re-examine this statement in its new, else-less shape
                continue
            out.append(st)
            i += 1
        return out
    fnode.body = block(fnode.body)
    return changed


def _resolve_callee(repo, f, c, local, by_name_too=False):
    """qualified name of the repository callable a call names directly (module-level function, class -> its __init__ or the class itself for a
    plain record, self.method / cls.method of the enclosing class) and the parameter names its arguments bind to; (None, None) otherwise"""
    def plain_params(g, drop_first):
        a = g.node.args
        if a.vararg or a.kwarg or a.posonlyargs or any(U(d).split("(")[0] not in ("staticmethod", "classmethod", "property") for d in g.node.decorator_list):
            return None
        ps = [p.arg for p in a.args]
        return ps[1:] if drop_first else ps
    fn = c.func
    if isinstance(fn, ast.Name) and fn.id not in local:
        q = repo.chase(f.mod, fn.id)
        if q in repo.funcs and not repo.funcs[q].cls:
            return q, plain_params(repo.funcs[q], False)
        if q in repo.classes:
            init = repo.lookup_method(q, "__init__")
            if init:
                return q, plain_params(repo.funcs[init], True)
            return q, record_fields(repo, f.mod, fn.id)
    elif isinstance(fn, ast.Attribute) and isinstance(fn.value, ast.Name) and fn.value.id in ("self", "cls") and f.cls:
        m = repo.lookup_method(f.class_q, fn.attr)
        if m:
            g = repo.funcs[m]
            return m, plain_params(g, not g.is_static)
    elif isinstance(fn, ast.Attribute) and isinstance(fn.value, ast.Name) and fn.value.id not in local:
        # ClassName.method(..): a static / class method called on the class
        cq = repo.chase(f.mod, fn.value.id)
        if cq in repo.classes:
            m = repo.lookup_method(cq, fn.attr)
            if m and (repo.funcs[m].is_static or repo.funcs[m].is_classmethod):
                g = repo.funcs[m]
                return m, plain_params(g, not g.is_static)
    if isinstance(fn, ast.Attribute) and isinstance(fn.value, ast.Name) and fn.value.id in local:
        # local.method(..) where the local is a parameter annotated with a repository class or is only ever bound to a constructor call
        cq = _local_class(repo, f, fn.value.id)
        if cq:
            m = repo.lookup_method(cq, fn.attr)
            if m and not repo.funcs[m].is_static and not repo.funcs[m].is_classmethod and not repo.funcs[m].is_property:
                return m, plain_params(repo.funcs[m], True)
    if isinstance(fn, ast.Attribute) and not (isinstance(fn.value, ast.Name) and (fn.value.id in ("self", "cls") or repo.chase(f.mod, fn.value.id))):
        # receiver.method(.., name=value) on a receiver of unknown type: by the method's name, when every repository method of that name
        # has the same plain signature and the call passes keywords that are all parameters of it (a foreign method of the same name that
        # accepts the same keywords in another order is not a realistic reading).  Used to bring keywords back to positions only.
        cands = [repo.funcs[q] for q in repo.methods_named(fn.attr)]
        sigs = {tuple(plain_params(g, True) or ()) if not (g.is_static or g.is_classmethod or g.is_property) else None for g in cands}
        if cands and len(sigs) == 1 and None not in sigs and next(iter(sigs)):
            ps = list(next(iter(sigs)))
            if by_name_too or (c.keywords and all(k.arg in ps for k in c.keywords)):
                return "byname:" + fn.attr, ps
    return None, None


def _local_class(repo, f, name):
    """the repository class a local certainly is an instance of: a parameter annotated `C` / `Optional[C]` / `C | None`, or a local whose
    every binding is `name = C(..)`; None otherwise"""
    def cls_of(e):
        if isinstance(e, ast.Subscript) and U(e.value).split(".")[-1] == "Optional":
            return cls_of(e.slice)
        if isinstance(e, ast.BinOp) and isinstance(e.op, ast.BitOr):
            l, r = e.left, e.right
            if isinstance(r, ast.Constant) and r.value is None:
                return cls_of(l)
            if isinstance(l, ast.Constant) and l.value is None:
                return cls_of(r)
            return None
        if isinstance(e, ast.Name):
            q = repo.chase(f.mod, e.id)
            return q if q in repo.classes else None
        return None
    stores = [x for x in ast.walk(f.node) if isinstance(x, ast.Name) and x.id == name and isinstance(x.ctx, (ast.Store, ast.Del))]
    for p in ast.walk(f.node.args):
        if isinstance(p, ast.arg) and p.arg == name:
            return cls_of(p.annotation) if p.annotation is not None and not stores else None
    found = set()
    n_assign = 0
    for st in ast.walk(f.node):
        if isinstance(st, ast.Assign) and len(st.targets) == 1 and isinstance(st.targets[0], ast.Name) and st.targets[0].id == name:
            n_assign += 1
            found.add(cls_of(st.value.func) if isinstance(st.value, ast.Call) else None)
    if n_assign == len(stores) and len(found) == 1 and None not in found:
        return next(iter(found))
    return None


def call_conventions(repo):
    """{callee: {parameter: "pos" | "kw" | "mixed"}} as the calls of the analysed tree spell them (used to freeze tables/call_conventions.json
    from the reviewed tree)"""
    conv = {}
    for f in repo.funcs.values():
        local = {x.id for x in ast.walk(f.node) if isinstance(x, ast.Name) and isinstance(x.ctx, ast.Store)} | {p.arg for p in ast.walk(f.node.args) if isinstance(p, ast.arg)} - {"self", "cls"}
        for c in ast.walk(f.node):
            if not isinstance(c, ast.Call) or any(isinstance(a, ast.Starred) for a in c.args) or any(k.arg is None for k in c.keywords):
                continue
            q, params = _resolve_callee(repo, f, c, local, by_name_too=True)
            if not q or not params or len(c.args) > len(params):
                continue
            d = conv.setdefault(q, {})
            for p_ in params[:len(c.args)]:
                d[p_] = "pos" if d.get(p_, "pos") == "pos" else "mixed"
            for k in c.keywords:
                if k.arg in params:
                    d[k.arg] = "kw" if d.get(k.arg, "kw") == "kw" else "mixed"
    return conv


def respell_calls(repo):
    """Whether an argument is passed by position or by keyword does not change the call.  Every call of a repository callable that is named
    directly is brought to the spelling the reviewed tree uses for that callable (tables/call_conventions.json, frozen by
    bin/gen_call_conventions.py): a parameter the reviewed tree always passes by keyword is passed by keyword, one it always passes by
    position is passed by position (when every earlier parameter is).  On the reviewed tree this changes nothing by construction; a
    call respelled by a later change reads like its reviewed siblings.  Callables not in the table are left as written."""
    import json
    import os
    table = os.path.join(os.path.dirname(os.path.dirname(os.path.abspath(__file__))), "tables", "call_conventions.json")
    if not os.path.exists(table):
        return 0
    conv = json.load(open(table))
    changed = 0
    for f in repo.funcs.values():
        local = {x.id for x in ast.walk(f.node) if isinstance(x, ast.Name) and isinstance(x.ctx, ast.Store)} | {p.arg for p in ast.walk(f.node.args) if isinstance(p, ast.arg)} - {"self", "cls"}
        touched = False
        for c in ast.walk(f.node):
            if not isinstance(c, ast.Call) or any(isinstance(a, ast.Starred) for a in c.args) or any(k.arg is None for k in c.keywords):
                continue
            q, params = _resolve_callee(repo, f, c, local)
            if not q or not params or q not in conv or len(c.args) > len(params):
                continue
            want = conv[q]
            if q.startswith("byname:"):
                want = {p_: w_ for p_, w_ in want.items() if w_ == "pos"}
            bound = dict(zip(params, c.args))
            kws = {k.arg: k.value for k in c.keywords}
            if set(bound) & set(kws) or not set(kws) <= set(params):
                continue
            bound.update(kws)
            # leading parameters that the table passes by position and that are given: positional, in order, without a gap
            n_pos = 0
            for p_ in params:
                if p_ in bound and want.get(p_) == "pos" and n_pos == params.index(p_):
                    n_pos += 1
                elif p_ in bound and p_ in dict(zip(params, c.args)) and want.get(p_, "mixed") != "kw" and n_pos == params.index(p_):
                    n_pos += 1          # written by position, no keyword convention: stays
                else:
                    break
            new_args = [bound[p_] for p_ in params[:n_pos]]
            written_kw_order = [k.arg for k in c.keywords]
            rest = [p_ for p_ in params[n_pos:] if p_ in bound]
            # keep the written order of the keywords that stay keywords; former positionals that become keywords go first, in parameter order
            former_pos = [p_ for p_ in rest if p_ not in kws]
            new_kws = [ast.keyword(arg=p_, value=bound[p_]) for p_ in former_pos] + [ast.keyword(arg=a_, value=bound[a_]) for a_ in written_kw_order if a_ in rest]
            if [U(a) for a in new_args] != [U(a) for a in c.args] or [k.arg for k in new_kws] != [k.arg for k in c.keywords]:
                c.args, c.keywords = new_args, new_kws
                touched = True
        if touched:
            ast.fix_missing_locations(f.node)
            changed += 1
    return changed


def apply_synonyms(repo):
    n = 0
    respell_calls(repo)
    for f in repo.funcs.values():
        before = ast.dump(f.node)
        f.node = _MatchToIf().visit(f.node)          # first: the passes below walk if / else arms, not match cases
        split_tuple_assignments(f.node)
        aliases_of_configuration(repo, f)
        tests_of_temporaries(f.node)
        star_of_tuple_temporaries(f.node)
        arguments_of_temporaries(f.node)
        return_of_temporary(f.node)
        statements_of_conditional_values(f.node)          # (after the temporaries are read in place: `x = A if c else B; return x` is `return A if c else B` first)
        comprehensions_of_collect_loops(f.node)
        unelse_after_exit(f.node)
        if f.name == "main":
            canonical_args_local(f.node)
        if f.cls:
            canonical_encode_obs_locals(f.node)
        f.node = _MatchToIf().visit(f.node)
        f.node = _Synonyms().visit(f.node)
        f.node = _StmtSynonyms().visit(f.node)
        f.node = _SliceZero().visit(f.node)
        ast.fix_missing_locations(f.node)
        if ast.dump(f.node) != before:
            n += 1
    return n


class _Getattr(ast.NodeTransformer):
    def visit_Call(self, n):
        self.generic_visit(n)
        if isinstance(n.func, ast.Name) and n.func.id == "getattr" and len(n.args) == 2 and not n.keywords and isinstance(n.args[1], ast.Constant) \
                and isinstance(n.args[1].value, str) and n.args[1].value.isidentifier():
            return ast.copy_location(ast.Attribute(value=n.args[0], attr=n.args[1].value, ctx=ast.Load()), n)
        if isinstance(n.func, ast.Name) and n.func.id in ("tuple", "list") and len(n.args) == 1 and not n.keywords and isinstance(n.args[0], (ast.List, ast.Tuple)):
            cls = ast.Tuple if n.func.id == "tuple" else ast.List
            return ast.copy_location(cls(elts=n.args[0].elts, ctx=ast.Load()), n)
        return n


def split_constant_key_dicts(fnode):
    """d = {"a": X, "b": Y} read and written only as d["a"] / d["b"] -> locals d__a, d__b"""
    cands = {}
    for n in walk_own(fnode):
        if isinstance(n, ast.Assign) and len(n.targets) == 1 and isinstance(n.targets[0], ast.Name) and isinstance(n.value, ast.Dict) and n.value.keys \
                and all(isinstance(k, ast.Constant) and isinstance(k.value, str) and k.value.isidentifier() for k in n.value.keys):
            cands.setdefault(n.targets[0].id, []).append(n)
    par = {}
    for n in ast.walk(fnode):
        for c in ast.iter_child_nodes(n):
            par[c] = n
    for d, defs in cands.items():
        if len(defs) != 1:
            continue
        keys = {k.value for k in defs[0].value.keys}
        ok = True
        for x in walk_own(fnode):
            if isinstance(x, ast.Name) and x.id == d and x is not defs[0].targets[0]:
                p = par.get(x)
                if not (isinstance(p, ast.Subscript) and p.value is x and isinstance(p.slice, ast.Constant) and p.slice.value in keys):
                    ok = False
        if not ok:
            continue

        class RW(ast.NodeTransformer):
            def visit_Subscript(self, n):
                self.generic_visit(n)
                if isinstance(n.value, ast.Name) and n.value.id == d and isinstance(n.slice, ast.Constant):
                    return ast.copy_location(ast.Name(id=f"{d}__{n.slice.value}", ctx=n.ctx), n)
                return n

        def rewrite(stmts):
            out = []
            for st in stmts:
                if st is defs[0]:
                    for k, v in zip(st.value.keys, st.value.values):
                        out.append(ast.copy_location(ast.Assign(targets=[ast.Name(id=f"{d}__{k.value}", ctx=ast.Store())], value=v, lineno=st.lineno), st))
                    continue
                for fld in ("body", "orelse", "finalbody"):
                    sub = getattr(st, fld, None)
                    if isinstance(sub, list) and sub and isinstance(sub[0], ast.stmt):
                        setattr(st, fld, rewrite(sub))
                out.append(RW().visit(st))
            return out
        fnode.body = rewrite(fnode.body)
        ast.fix_missing_locations(fnode)
        par = {}
        for n in ast.walk(fnode):
            for c in ast.iter_child_nodes(n):
                par[c] = n


def fold_append_sequences(fnode):
    """x = [..]; x.append(a); x.append(b)  with nothing else touching x in between -> x = [.., a, b] (placed at the last append;
    `with` blocks are transparent, other compound statements are barriers)"""
    def names(node):
        return {n.id for n in ast.walk(node) if isinstance(n, ast.Name)}

    def rewrite(stmts, pending):
        out = []
        for st in stmts:
            c = st.value if isinstance(st, ast.Expr) and isinstance(st.value, ast.Call) else None
            if c is not None and isinstance(c.func, ast.Attribute) and c.func.attr == "append" and isinstance(c.func.value, ast.Name) and len(c.args) == 1 and not c.keywords \
                    and c.func.value.id in pending and isinstance(pending[c.func.value.id][0].value, ast.List) and c.func.value.id not in names(c.args[0]):
                x = c.func.value.id
                old, owner = pending[x]
                new = ast.copy_location(ast.Assign(targets=[ast.Name(id=x, ctx=ast.Store())], value=ast.List(elts=list(old.value.elts) + [c.args[0]], ctx=ast.Load()), lineno=st.lineno), st)
                for i, o in enumerate(owner):
                    if o is old:
                        del owner[i]
                        break
                out.append(new)
                pending[x] = (new, out)
                continue
            # d = {..}; d["k"] = v  with nothing else touching d in between -> d = {.., "k": v}   (a key that the display does not have yet)
            if isinstance(st, ast.Assign) and len(st.targets) == 1 and isinstance(st.targets[0], ast.Subscript) and isinstance(st.targets[0].value, ast.Name) \
                    and st.targets[0].value.id in pending and isinstance(pending[st.targets[0].value.id][0].value, ast.Dict) and isinstance(st.targets[0].slice, ast.Constant) \
                    and st.targets[0].value.id not in names(st.value):
                x = st.targets[0].value.id
                old, owner = pending[x]
                if None not in old.value.keys and all(isinstance(k, ast.Constant) for k in old.value.keys) and st.targets[0].slice.value not in [k.value for k in old.value.keys]:
                    new = ast.copy_location(ast.Assign(targets=[ast.Name(id=x, ctx=ast.Store())],
                                                       value=ast.Dict(keys=list(old.value.keys) + [st.targets[0].slice], values=list(old.value.values) + [st.value]), lineno=st.lineno), st)
                    for i, o in enumerate(owner):
                        if o is old:
                            del owner[i]
                            break
                    out.append(new)
                    pending[x] = (new, out)
                    continue
            if isinstance(st, (ast.With, ast.AsyncWith)):
                for x in list(pending):
                    if any(x in names(i.context_expr) for i in st.items):
                        pending.pop(x)
                st.body = rewrite(st.body, pending)
                out.append(st)
                continue
            mentioned = names(st)
            stored_here = {n.id for n in ast.walk(st) if isinstance(n, ast.Name) and isinstance(n.ctx, (ast.Store, ast.Del))}
            for x in list(pending):
                if x in mentioned or (stored_here & names(pending[x][0].value)):
                    pending.pop(x)          # the list itself, or a name one of its pending elements reads, is touched: the elements stay where they are
            for fld in ("body", "orelse", "finalbody"):
                sub = getattr(st, fld, None)
                if isinstance(sub, list) and sub and isinstance(sub[0], ast.stmt) and not isinstance(st, (ast.FunctionDef, ast.ClassDef)):
                    setattr(st, fld, rewrite(sub, {}))
            if isinstance(st, ast.Assign) and len(st.targets) == 1 and isinstance(st.targets[0], ast.Name) and isinstance(st.value, (ast.List, ast.Dict)) \
                    and st.targets[0].id not in names(st.value):
                pending[st.targets[0].id] = (st, out)
            out.append(st)
        return out
    fnode.body = rewrite(fnode.body, {})
    ast.fix_missing_locations(fnode)


def simplify_lists(fnode, simplify):
    def rec(stmts):
        stmts = simplify(stmts, set())
        for st in stmts:
            for fld in ("body", "orelse", "finalbody"):
                sub = getattr(st, fld, None)
                if isinstance(sub, list) and sub and isinstance(sub[0], ast.stmt) and not isinstance(st, (ast.FunctionDef, ast.ClassDef, ast.If)):
                    setattr(st, fld, rec(sub))
        return stmts
    fnode.body = rec(fnode.body)


def normalize_table_driven(repo):
    """returns {function qname: number of loops unrolled}"""
    from .inliner import simplify
    report = {}
    for q, f in list(repo.funcs.items()):
        n = unroll(repo, f)
        if not n:
            continue
        report[q] = n
        simplify_lists(f.node, simplify)
        f.node = _Getattr().visit(f.node)
        split_constant_key_dicts(f.node)
        fold_append_sequences(f.node)
        f.node = _Getattr().visit(f.node)
        ast.fix_missing_locations(f.node)
    return report


def renumber(fnode):
    """give the statements of a rewritten function strictly increasing line numbers in source order (expressions take their
    statement's number), so that `a.lineno < b.lineno` means `a comes first` again after splicing / unrolling"""
    base = getattr(fnode, "lineno", 1) or 1
    k = [base]

    def visit(stmts):
        for st in stmts:
            k[0] += 1
            ln = k[0]
            for x in ast.walk(st):
                if isinstance(x, ast.stmt) and x is not st:
                    continue
                if hasattr(x, "lineno"):
                    x.lineno = ln
                    x.end_lineno = ln
            # nested statement lists get their own numbers (after the header)
            for fld in ("body", "orelse", "finalbody"):
                sub = getattr(st, fld, None)
                if isinstance(sub, list) and sub and isinstance(sub[0], ast.stmt):
                    visit(sub)
            for h in getattr(st, "handlers", []) or []:
                k[0] += 1
                h.lineno = k[0]
                visit(h.body)
            for c in getattr(st, "cases", []) or []:
                k[0] += 1
                visit(c.body)
    visit(fnode.body)


def copyto_as_store(fnode):
    """np.copyto(dst, v, where=W)  ->  dst[M] = v   when W is the row mask M itself or M broadcast over the trailing axes
    (`M.reshape(M.shape + (1,) * k)`, `M[:, None]`, `M[..., np.newaxis]`): both write v into the rows selected by M.
    Returns a transformed deep copy."""
    from .astutil import single_defs, inline
    fnode = copy.deepcopy(fnode)
    env = single_defs(fnode)

    def row_mask(w):
        w = env.get(w.id, w) if isinstance(w, ast.Name) else w
        if isinstance(w, ast.Call) and isinstance(w.func, ast.Attribute) and w.func.attr == "reshape" and len(w.args) == 1:
            base = w.func.value
            t = U(w.args[0]).replace(" ", "")
            b = U(base).replace(" ", "")
            if t.startswith(f"{b}.shape+(1,)*") or t.startswith(f"({b}.shape+(1,)*") or t in (f"{b}.shape+(1,)", "(-1,1)", f"({b}.shape[0],1)"):
                return base
            return None
        if isinstance(w, ast.Subscript) and U(w.slice).replace(" ", "") in (":,None", ":,np.newaxis", "...,None", "...,np.newaxis", "(:,None)"):
            return w.value
        if isinstance(w, (ast.Name, ast.Compare)):
            return w
        return None

    class T(ast.NodeTransformer):
        def visit_Expr(self, n):
            c = n.value
            if isinstance(c, ast.Call) and U(c.func) == "np.copyto" and len(c.args) == 2:
                kw = {k.arg: k.value for k in c.keywords}
                if "where" in kw and set(kw) <= {"where", "casting"}:
                    m = row_mask(kw["where"])
                    if m is not None:
                        return ast.copy_location(ast.Assign(targets=[ast.Subscript(value=c.args[0], slice=m, ctx=ast.Store())], value=c.args[1], lineno=n.lineno), n)
            return n
    fnode = T().visit(fnode)
    ast.fix_missing_locations(fnode)
    return fnode
