"""Row streams: where the per-row values fed to a sink call come from.

For a sink call inside a loop (e.g. `self.wrapped_model._update(y=.., cl=.., dd1=.., dd2=..)`) every argument is traced
back to a *field*: (root, attribute, column, row selector, element-wise transforms), independent of how the rows are
enumerated:

    for a, b in zip(X[m], Y[m]): sink(a, b)                      zip of selected arrays
    for i in np.flatnonzero(M): sink(X[i], Y[i])                 index loop (selector: rows where M)
    for i in range(len(X)): if M[i]: sink(X[i], Y[i])            index loop with a per-row guard
    rows = ((a, b) for a, (b, c), ok in zip(..) if ok)           generator pipelines with destructuring and filters
    for a, b in rows: sink(a, b)

Field values are followed through single-definition locals and element-wise transforms (logit, clip, astype, ...), which
are recorded in application order.
"""
import ast

from .astutil import U, call_name, attr_tail, kwargs, walk_own, enclosing_map

ELEMENTWISE = {"logit", "expit", "np.clip", "np.log", "np.exp", "np.asarray", "np.array", "np.float32", "np.float64", "np.nan_to_num", "np.abs", "np.sqrt", "np.log1p"}
ELEMENTWISE_METHODS = {"astype", "copy", "clip"}


class Undecided(Exception):
    pass


class _Idx(str):
    """name of an index variable; .sel = the selection inside which it counts positions (None: positions in the whole column)"""
    sel = None


class Field:
    def __init__(self, root, attr, selector=None, col=None, transforms=None, index=None):
        self.root, self.attr, self.selector, self.col = root, attr, selector, col
        self.transforms = list(transforms or [])
        self.index = index          # name of the index variable the field was read with, if any

    def copy(self, **kw):
        f = Field(self.root, self.attr, self.selector, self.col, self.transforms, self.index)
        for k, v in kw.items():
            setattr(f, k, v)
        return f

    def __repr__(self):
        c = "" if self.col is None else f"[:, {self.col}]"
        s = "" if self.selector is None else f" @rows[{self.selector}]"
        t = "".join(f" |> {x}" for x in self.transforms)
        return f"{self.root}.{self.attr}{c}{s}{t}"


def _is_path(e):
    while isinstance(e, ast.Attribute):
        e = e.value
    return isinstance(e, ast.Name)


def _transform_desc(c):
    name = call_name(c) or (c.func.attr if isinstance(c.func, ast.Attribute) else "?")
    extra = [U(a) for a in c.args[1:]] + [f"{k.arg}={U(k.value)}" for k in c.keywords]
    return name + ("(" + ",".join(extra) + ")" if extra else "")


def array_field(e, env, depth=0):
    """Field for an array-valued expression (whole column or a selection of rows of it)"""
    if depth > 12:
        raise Undecided(f"definition chain too deep at `{U(e)[:60]}`")
    if isinstance(e, ast.Name):
        if e.id in env:
            d = env[e.id]
            if _is_index_vector(d):
                # a vector of row positions: as a value it is "the rows it selects", named by the local that holds it
                return Field("<rows>", "<index>", selector=e.id)
            return array_field(d, env, depth + 1)
        raise Undecided(f"`{e.id}` has no single definition")
    if isinstance(e, ast.Call):
        cn = call_name(e)
        if cn in ELEMENTWISE and e.args:
            f = array_field(e.args[0], env, depth + 1)
            return f.copy(transforms=f.transforms + [_transform_desc(e)])
        if isinstance(e.func, ast.Attribute) and e.func.attr in ELEMENTWISE_METHODS and not _is_path(e.func):
            f = array_field(e.func.value, env, depth + 1)
            d = e.func.attr + ("(" + ",".join([U(a) for a in e.args] + [f"{k.arg}={U(k.value)}" for k in e.keywords]) + ")")
            return f.copy(transforms=f.transforms + [d])
        if isinstance(e.func, ast.Attribute) and e.func.attr in ELEMENTWISE_METHODS:
            f = array_field(e.func.value, env, depth + 1)
            d = e.func.attr + ("(" + ",".join([U(a) for a in e.args] + [f"{k.arg}={U(k.value)}" for k in e.keywords]) + ")")
            return f.copy(transforms=f.transforms + [d])
        raise Undecided(f"`{U(e)[:60]}` is not an element-wise transform of a data column")
    if isinstance(e, ast.Attribute) and _is_path(e.value):
        return Field(U(e.value), e.attr)
    if isinstance(e, ast.Subscript):
        f = array_field(e.value, env, depth + 1)
        sl = e.slice
        parts = list(sl.elts) if isinstance(sl, ast.Tuple) else [sl]
        full = lambda x: isinstance(x, ast.Slice) and x.lower is None and x.upper is None and x.step is None
        if len(parts) == 1 and not full(parts[0]):
            return f.copy(selector=_compose(f.selector, parts[0], env))
        if len(parts) == 2:
            r, c = parts
            if not (isinstance(c, ast.Constant) and isinstance(c.value, int)) and not full(c):
                raise Undecided(f"column selection `{U(c)}` is not a constant")
            out = f
            if not full(r):
                out = out.copy(selector=_compose(f.selector, r, env))
            if not full(c):
                if out.col is not None:
                    raise Undecided(f"`{U(e)[:60]}` selects a column twice")
                out = out.copy(col=c.value)
            return out
        if len(parts) == 1 and full(parts[0]):
            return f
        raise Undecided(f"unsupported subscript `{U(e)[:60]}`")
    raise Undecided(f"`{U(e)[:60]}` is not a data column")


def _is_index_vector(d):
    return (isinstance(d, ast.Call) and call_name(d) in ("np.flatnonzero",) and len(d.args) == 1) or \
        (isinstance(d, ast.Subscript) and isinstance(d.value, ast.Call) and call_name(d.value) in ("np.where", "np.nonzero") and len(d.value.args) == 1 and U(d.slice) == "0")


def _index_chain(e, env, depth=0):
    """a row selector as a chain of successive selections: a name bound to `A[B]` with A itself an index vector
    (X[A][B] == X[A[B]]) is expanded to (A.., B)"""
    if isinstance(e, ast.Name) and e.id in env and depth < 6:
        d = env[e.id]
        if isinstance(d, ast.Subscript) and isinstance(d.value, ast.Name) and d.value.id in env and not isinstance(d.slice, (ast.Tuple, ast.Slice)):
            base = env[d.value.id]
            is_index = (isinstance(base, ast.Call) and call_name(base) in ("np.flatnonzero", "np.arange")) or \
                (isinstance(base, ast.Subscript) and isinstance(base.value, ast.Call) and call_name(base.value) in ("np.where", "np.nonzero")) or \
                (isinstance(base, ast.Subscript) and isinstance(base.value, ast.Name) and base.value.id in env)
            if is_index:
                return _index_chain(d.value, env, depth + 1) + (U(d.slice),)
    return (U(e),)


def _compose(prev, sel, env):
    chain = _index_chain(sel, env)
    if prev is None:
        return chain if len(chain) > 1 else chain[0]
    p = prev if isinstance(prev, tuple) else (prev,)
    return p + chain


class Stream:
    """kind 'zip': fields by position; kind 'index': rows enumerated by an index set"""
    enumerated = False

    def __init__(self, kind, fields=None, filters=None, index_mask=None, names=None):
        self.kind, self.fields, self.filters, self.index_mask = kind, fields or [], list(filters or []), index_mask
        self.names = names      # for a generator pipeline: the bound tuple


def bind_loop(loop, env):
    """{name: Field} for the target of a `for` over a (possibly enumerated) zip stream; also returns the stream"""
    st = stream_of(loop.iter, env)
    if st.kind != "zip":
        raise Undecided("not a zip stream")
    tgt = loop.target
    if st.enumerated:
        if not (isinstance(tgt, ast.Tuple) and len(tgt.elts) == 2):
            raise Undecided("enumerate target is not (index, row)")
        tgt = tgt.elts[1]
    return _bind(tgt, st.fields), st


def _bind(target, fields):
    """{name: Field} for a loop/comprehension target pattern over positional fields"""
    out = {}
    if isinstance(target, ast.Name):
        if len(fields) == 1:
            out[target.id] = fields[0]
            return out
        raise Undecided(f"a single name receives a {len(fields)}-tuple of fields")
    if isinstance(target, (ast.Tuple, ast.List)):
        if len(target.elts) != len(fields):
            raise Undecided(f"target `{U(target)}` does not match {len(fields)} zipped values")
        for t, f in zip(target.elts, fields):
            if isinstance(t, ast.Name):
                out[t.id] = f
            elif isinstance(t, (ast.Tuple, ast.List)) and all(isinstance(x, ast.Name) for x in t.elts):
                if f.col is not None:
                    raise Undecided(f"`{U(t)}` destructures a scalar field")
                for j, x in enumerate(t.elts):
                    out[x.id] = f.copy(col=j)
            else:
                raise Undecided(f"unsupported target `{U(t)}`")
        return out
    raise Undecided(f"unsupported target `{U(target)}`")


def stream_of(it, env, depth=0):
    if depth > 8:
        raise Undecided("stream definition chain too deep")
    if isinstance(it, ast.Name):
        if it.id in env:
            return stream_of(env[it.id], env, depth + 1)
        raise Undecided(f"iterable `{it.id}` has no single definition")
    if isinstance(it, ast.Call) and call_name(it) == "zip" and it.args:
        return Stream("zip", [array_field(a, env) for a in it.args])
    if isinstance(it, ast.Call) and call_name(it) == "enumerate" and len(it.args) == 1 and not it.keywords:
        inner = stream_of(it.args[0], env, depth + 1)
        if inner.kind == "zip":
            # (idx, (a, b, c)): position 0 is the running index, position 1 the zipped tuple
            st = Stream("zip", inner.fields, inner.filters)
            st.enumerated = True
            return st
    if isinstance(it, (ast.GeneratorExp, ast.ListComp)) and len(it.generators) == 1:
        g = it.generators[0]
        src = stream_of(g.iter, env, depth + 1)
        if src.kind != "zip":
            raise Undecided("comprehension over an index stream")
        b = _bind(g.target, src.fields)
        filters = list(src.filters)
        for c in g.ifs:
            filters.append(_filter(c, b))
        elts = it.elt.elts if isinstance(it.elt, ast.Tuple) else [it.elt]
        fields = []
        for x in elts:
            fields.append(_value(x, b, env))
        return Stream("zip", fields, filters)
    if isinstance(it, ast.Call) and call_name(it) in ("list", "tuple", "iter") and len(it.args) == 1:
        return stream_of(it.args[0], env, depth + 1)
    # itertools.compress(rows, selectors): the rows whose selector entry is true, selectors aligned row by row with the stream
    if isinstance(it, ast.Call) and call_name(it) in ("compress", "itertools.compress") and len(it.args) == 2 and not it.keywords:
        src = stream_of(it.args[0], env, depth + 1)
        if src.kind != "zip":
            raise Undecided("compress over an index stream")
        sel = array_field(it.args[1], env)
        return Stream("zip", src.fields, list(src.filters) + [(sel, True)])
    # index sets
    if isinstance(it, ast.Call) and call_name(it) == "np.flatnonzero" and it.args:
        return Stream("index", index_mask=array_field(it.args[0], env))
    if isinstance(it, ast.Subscript) and isinstance(it.value, ast.Call) and call_name(it.value) in ("np.where", "np.nonzero") and U(it.slice) == "0" and len(it.value.args) == 1:
        return Stream("index", index_mask=array_field(it.value.args[0], env))
    if isinstance(it, ast.Call) and call_name(it) == "range" and len(it.args) == 1:
        return Stream("index", index_mask=None)
    raise Undecided(f"`{U(it)[:70]}` is not a recognised row enumeration (zip / generator pipeline / index set)")


def _filter(c, bound):
    neg = False
    while isinstance(c, ast.UnaryOp) and isinstance(c.op, ast.Not):
        neg = not neg
        c = c.operand
    if isinstance(c, ast.Name) and c.id in bound:
        return (bound[c.id], not neg)
    raise Undecided(f"row filter `{U(c)[:60]}` is not a zipped field")


def _value(x, bound, env, index=None, lenv=None):
    """Field of a per-row scalar expression"""
    if isinstance(x, ast.Name):
        if x.id in bound:
            return bound[x.id]
        if lenv and x.id in lenv:
            return _value(lenv[x.id], bound, env, index, lenv)
        raise Undecided(f"`{x.id}` is not bound to a row field")
    if isinstance(x, ast.Subscript):
        # zipped row field then column: dd[0]
        if isinstance(x.value, ast.Name) and (x.value.id in bound or (lenv and x.value.id in lenv)) and isinstance(x.slice, ast.Constant) and isinstance(x.slice.value, int):
            f = _value(x.value, bound, env, index, lenv)
            if f.col is not None:
                raise Undecided(f"`{U(x)}` indexes a scalar field")
            return f.copy(col=x.slice.value)
        # (per-row value)[k]: column k of a row-valued field
        if isinstance(x.slice, ast.Constant) and isinstance(x.slice.value, int) and isinstance(x.value, ast.Subscript):
            f = _value(x.value, bound, env, index, lenv)
            if f.col is not None:
                raise Undecided(f"`{U(x)}` indexes a scalar field")
            return f.copy(col=x.slice.value)
        # X[r] with r a zipped element of a vector of row positions: the column at those rows
        if isinstance(x.slice, ast.Name) and x.slice.id in bound and bound[x.slice.id].attr == "<index>":
            f = array_field(x.value, env)
            if f.selector is not None:
                raise Undecided(f"`{U(x)}` indexes an already selected array by a row position")
            return f.copy(selector=bound[x.slice.id].selector)
        # index loop: X[i], X[i][c], X[i, c]
        if index is not None:
            sl = x.slice
            if isinstance(sl, ast.Name) and sl.id == index:
                f = array_field(x.value, env)
                if f.selector is not None:
                    # positions inside one common selection S: the index runs over flatnonzero(M[S]) and every array read with it is X[S]
                    # - the same rows as zip(X[S], .., M[S]) filtered by its last member
                    if getattr(index, "sel", None) is not None and str(f.selector).replace(" ", "") == str(index.sel).replace(" ", ""):
                        return f.copy(index=index)
                    raise Undecided(f"`{U(x)}` indexes an already selected array by the loop index")
                if getattr(index, "sel", None) is not None:
                    raise Undecided(f"`{U(x)}` indexes a whole column by a position inside the selection `{index.sel}`")
                return f.copy(index=index)
            if isinstance(sl, ast.Tuple) and len(sl.elts) == 2 and isinstance(sl.elts[0], ast.Name) and sl.elts[0].id == index and isinstance(sl.elts[1], ast.Constant):
                f = array_field(x.value, env)
                return f.copy(index=index, col=sl.elts[1].value)
            if isinstance(sl, ast.Constant) and isinstance(sl.value, int):
                f = _value(x.value, bound, env, index, lenv)
                if f.col is not None:
                    raise Undecided(f"`{U(x)}` indexes a scalar field")
                return f.copy(col=sl.value)
    if isinstance(x, ast.Call) and (call_name(x) in ELEMENTWISE or (isinstance(x.func, ast.Attribute) and x.func.attr in ELEMENTWISE_METHODS)):
        inner = x.args[0] if call_name(x) in ELEMENTWISE else x.func.value
        f = _value(inner, bound, env, index, lenv)
        return f.copy(transforms=f.transforms + [_transform_desc(x)])
    raise Undecided(f"per-row value `{U(x)[:60]}` is not traceable to a data column")


def sink_feed(fnode, env, sink_tail):
    """for the (single) call of `.sink_tail(...)` inside a loop of fnode:
    returns ({kwarg: Field}, [(Field, polarity) row filters], the loop node, the call)"""
    par = enclosing_map(fnode)
    sinks = [c for c in walk_own(fnode) if isinstance(c, ast.Call) and attr_tail(c) == sink_tail]
    if len(sinks) != 1:
        raise Undecided(f"expected exactly one `{sink_tail}` call, found {len(sinks)}")
    call = sinks[0]
    loops = []
    guards = []
    n = call
    while n in par:
        p = par[n]
        if isinstance(p, (ast.For, ast.While)):
            loops.append(p)
        if isinstance(p, ast.If):
            guards.append((p.test, n in p.body or any(n is b for b in p.body) or _inside(n, p.body)))
        n = p
    if len(loops) != 1 or not isinstance(loops[0], ast.For):
        raise Undecided(f"`{sink_tail}` is called under {len(loops)} loops (a row could be ingested more than once, or not per row)")
    loop = loops[0]
    st = stream_of(loop.iter, env)
    lenv = {}
    for s in loop.body:
        for x in ast.walk(s):
            if isinstance(x, ast.Assign) and len(x.targets) == 1 and isinstance(x.targets[0], ast.Name):
                lenv[x.targets[0].id] = x.value
            elif isinstance(x, ast.Assign) and len(x.targets) == 1 and isinstance(x.targets[0], (ast.Tuple, ast.List)) and all(isinstance(t, ast.Name) for t in x.targets[0].elts) \
                    and not isinstance(x.value, (ast.Tuple, ast.List)):
                # a, b = row  ->  a = row[0]; b = row[1]
                for j, t in enumerate(x.targets[0].elts):
                    lenv[t.id] = ast.Subscript(value=x.value, slice=ast.Constant(value=j), ctx=ast.Load())
    if st.kind == "zip":
        bound = _bind(loop.target, st.fields)
        index = None
        filters = list(st.filters)
    else:
        if not isinstance(loop.target, ast.Name):
            raise Undecided("index loop with a tuple target")
        bound = {}
        index = _Idx(loop.target.id)
        filters = []
        if st.index_mask is not None:
            filters.append((st.index_mask, True))
            index.sel = st.index_mask.selector
    # early `continue` guards in the loop body before the call
    from .astutil import stmt_conditions
    conds = stmt_conditions(loop.body)
    stmt = call
    while stmt in par and not isinstance(stmt, ast.stmt):
        stmt = par[stmt]
    for t, pol in conds.get(id(stmt), []):
        neg = False
        c = t
        while isinstance(c, ast.UnaryOp) and isinstance(c.op, ast.Not):
            neg = not neg
            c = c.operand
        try:
            f = _value(c, bound, env, index, lenv)
        except Undecided:
            raise Undecided(f"the guard `{U(t)[:60]}` around `{sink_tail}` is not a per-row field test")
        filters.append((f, pol != neg))
    feed = {}
    for k, v in kwargs(call).items():
        feed[k] = _value(v, bound, env, index, lenv)
    pos = [_value(a, bound, env, index, lenv) for a in call.args]
    return feed, pos, filters, loop, call


def _inside(n, stmts):
    return any(n is x for s in stmts for x in ast.walk(s))
