"""Statement-level inlining of *new* helper functions at their call sites.

The rules are anchored in the functions that existed at the reviewed commit (tables/baseline_functions.json).
Code that a later change moved into a function outside that table (helper extraction) is analysed where it is
called: the helper's body is spliced into the caller (inlining bound 2), so that the existing per-function rules
see the same statements as before the extraction.  Only calls in statement position are spliced:

    h(args)                      -> body (a trailing `return` dropped)
    t = h(args) / a, b = h(args) -> body with every `return e` replaced by `t = e`
    return h(args)               -> body (returns kept)

Helpers with decorators (memoised, properties), generators, varargs, or a `return` inside a loop/try are left alone;
calls nested inside larger expressions are handled by the expression-level `inline_calls` for straight-line helpers.
"""
import ast
import copy

from .astutil import walk_own, U


def _assigned_names(node):
    out = set()
    for n in walk_own(node):
        # walk_own does not yield nested definitions: their NAMES are bound in this scope all the same
        for c in ast.iter_child_nodes(n):
            if isinstance(c, (ast.FunctionDef, ast.AsyncFunctionDef, ast.ClassDef)) and c is not node:
                out.add(c.name)
        tg = []
        if isinstance(n, ast.Assign):
            tg = n.targets
        elif isinstance(n, (ast.AugAssign, ast.AnnAssign)):
            tg = [n.target]
        elif isinstance(n, (ast.For, ast.AsyncFor)):
            tg = [n.target]
        elif isinstance(n, ast.comprehension):
            tg = []
        elif isinstance(n, (ast.With, ast.AsyncWith)):
            tg = [i.optional_vars for i in n.items if i.optional_vars is not None]
        for t in tg:
            for x in ast.walk(t):
                if isinstance(x, ast.Name) and isinstance(x.ctx, ast.Store):
                    out.add(x.id)
    return out


def _used_names(node):
    """every identifier the node mentions or binds in its own scope: names, and the names of nested function / class definitions"""
    out = {x.id for x in ast.walk(node) if isinstance(x, ast.Name)}
    out |= {x.name for x in ast.walk(node) if isinstance(x, (ast.FunctionDef, ast.AsyncFunctionDef, ast.ClassDef))}
    return out


def _has_return_in_loop(stmts):
    for st in stmts:
        for n in ast.walk(st):
            if isinstance(n, (ast.For, ast.While, ast.AsyncFor, ast.Try)):
                for m in ast.walk(n):
                    if isinstance(m, ast.Return) and m is not n:
                        # a return inside a nested function definition does not count
                        return True
    return False


def _ends_in_return(stmts):
    if not stmts:
        return False
    last = stmts[-1]
    if isinstance(last, (ast.Return, ast.Raise)):
        return True
    if isinstance(last, ast.If):
        return _ends_in_return(last.body) and _ends_in_return(last.orelse)
    if isinstance(last, (ast.With, ast.AsyncWith)):
        return _ends_in_return(last.body)
    return False


def _return_from_endless_loop(stmts):
    """while True: A; if c: return X; B      (the loop's only exit: one `return`, under plain ifs of the loop body; no break, no else)
    ->  while True: A; if c: break; B   followed by   return X      (X is evaluated right after the break, in the same state)"""
    out = []
    for i, st in enumerate(stmts):
        if isinstance(st, ast.While) and isinstance(st.test, ast.Constant) and st.test.value is True and not st.orelse:
            rets, other = [], []

            def scan(body, lst, idx_path):
                for j, x in enumerate(body):
                    if isinstance(x, ast.Return):
                        rets.append((body, j))
                    elif isinstance(x, ast.Break):
                        other.append(x)
                    elif isinstance(x, ast.If):
                        scan(x.body, lst, idx_path)
                        scan(x.orelse, lst, idx_path)
                    elif isinstance(x, (ast.For, ast.While, ast.Try, ast.With, ast.AsyncWith, ast.AsyncFor, ast.Match)):
                        if any(isinstance(y, (ast.Return, ast.Break)) for y in ast.walk(x)):
                            other.append(x)
            st2 = copy.deepcopy(st)
            scan(st2.body, None, None)
            if len(rets) == 1 and not other:
                body, j = rets[0]
                r = body[j]
                body[j] = ast.copy_location(ast.Break(), r)
                del body[j + 1:]
                out.append(st2)
                out.append(r)
                return out          # whatever followed an endless loop was unreachable
        out.append(st)
    return out


def _may_return(stmts):
    """a `return` of this function occurs somewhere in the statements (nested definitions excluded)"""
    for st in stmts:
        if isinstance(st, ast.Return):
            return True
        if isinstance(st, (ast.FunctionDef, ast.AsyncFunctionDef, ast.ClassDef, ast.Lambda)):
            continue
        for fld in ("body", "orelse", "finalbody", "handlers", "cases"):
            sub = getattr(st, fld, None)
            if isinstance(sub, list) and _may_return([x for x in sub if isinstance(x, ast.AST)]):
                return True
    return False


def eliminate_early_returns(stmts):
    """rewrite `if c: ...; return x` followed by more statements into if/else so that returns only occur at tails.  A branch that
    returns on some of its paths only (`if a: ...; if b: return x` followed by more statements) gets the following statements appended
    to each arm that can fall through, so that no `return` is left in front of code it must skip."""
    stmts = _return_from_endless_loop(stmts)
    out = []
    for i, st in enumerate(stmts):
        if isinstance(st, ast.If):
            b, o = st.body, st.orelse
            st = copy.copy(st)
            rest = stmts[i + 1:]
            eb, eo = eliminate_early_returns(b), eliminate_early_returns(o)
            if rest and (_may_return(b) or _may_return(o)):
                rb, ro = _ends_in_return(eb), bool(o) and _ends_in_return(eo)
                st.body = eb if rb else eliminate_early_returns(list(b) + [copy.deepcopy(x) for x in rest])
                st.orelse = eo if ro else eliminate_early_returns(list(o) + list(rest))
                out.append(st)
                return out
            st.body, st.orelse = eb, eo
        out.append(st)
    return out


def only_tail_returns(stmts, tail=True):
    """every `return` is the last statement of a block in tail position (through if / with): replacing it by an assignment or dropping
    it cannot let control fall into statements the return skipped"""
    for i, st in enumerate(stmts):
        last = tail and i == len(stmts) - 1
        if isinstance(st, ast.Return):
            if not last:
                return False
        elif isinstance(st, ast.If):
            if not only_tail_returns(st.body, last) or not only_tail_returns(st.orelse, last):
                return False
        elif isinstance(st, (ast.With, ast.AsyncWith)):
            if not only_tail_returns(st.body, last):
                return False
        elif isinstance(st, (ast.FunctionDef, ast.AsyncFunctionDef, ast.ClassDef)):
            continue
        elif _may_return([st]):
            return False
    return True


def _map_returns(stmts, fn):
    """apply fn(Return) -> list of statements to every tail return"""
    out = []
    for st in stmts:
        if isinstance(st, ast.Return):
            out += fn(st)
        elif isinstance(st, ast.If):
            st = copy.copy(st)
            st.body = _map_returns(st.body, fn)
            st.orelse = _map_returns(st.orelse, fn)
            out.append(st)
        elif isinstance(st, (ast.With, ast.AsyncWith)):
            st = copy.copy(st)
            st.body = _map_returns(st.body, fn)
            out.append(st)
        else:
            out.append(st)
    return out


class _Rename(ast.NodeTransformer):
    def __init__(self, names, subst):
        self.names = names      # local name -> new name
        self.subst = subst      # param name -> expression

    def visit_Name(self, n):
        if n.id in self.subst and isinstance(n.ctx, ast.Load):
            return copy.deepcopy(self.subst[n.id])
        if n.id in self.names:
            return ast.copy_location(ast.Name(id=self.names[n.id], ctx=n.ctx), n)
        return n

    def visit_FunctionDef(self, n):
        # a closure defined in the spliced body: its free variables are the helper's, so they are renamed / substituted too
        bound = {p.arg for p in n.args.posonlyargs + n.args.args + n.args.kwonlyargs} | _assigned_names(n)
        inner = _Rename({k: v for k, v in self.names.items() if k not in bound}, {k: v for k, v in self.subst.items() if k not in bound})
        n.body = [inner.visit(st) for st in n.body]
        if n.name in self.names:
            n.name = self.names[n.name]
        return n

    def visit_Lambda(self, n):
        bound = {p.arg for p in n.args.posonlyargs + n.args.args + n.args.kwonlyargs}
        inner = _Rename({k: v for k, v in self.names.items() if k not in bound}, {k: v for k, v in self.subst.items() if k not in bound})
        n.body = inner.visit(n.body)
        return n


def _only_called(fnode, p, lam):
    """every occurrence of name p in the function is the callee of a positional call matching the lambda's arity"""
    la = lam.args
    if la.vararg or la.kwarg or la.kwonlyargs or la.defaults or la.posonlyargs:
        return False
    n = len(la.args)
    called = set()
    for x in ast.walk(fnode):
        if isinstance(x, ast.Call) and isinstance(x.func, ast.Name) and x.func.id == p:
            if len(x.args) != n or x.keywords or any(isinstance(a, ast.Starred) for a in x.args):
                return False
            called.add(id(x.func))
    for x in ast.walk(fnode):
        if isinstance(x, ast.Name) and x.id == p and id(x) not in called:
            return False
    return bool(called)


class _Beta(ast.NodeTransformer):
    """p(a1, .., an) -> body of the lambda bound to p with its parameters replaced (arguments must be evaluated once:
    each lambda parameter may occur at most once in the body, or the argument is a pure path)"""
    def __init__(self, lambdas):
        self.lambdas = lambdas

    def visit_Call(self, n):
        self.generic_visit(n)
        if isinstance(n.func, ast.Name) and n.func.id in self.lambdas:
            lam = self.lambdas[n.func.id]
            names = [a.arg for a in lam.args.args]
            sub = dict(zip(names, n.args))
            for nm, a in sub.items():
                uses = sum(1 for x in ast.walk(lam.body) if isinstance(x, ast.Name) and x.id == nm)
                if uses > 1 and not _pure(a):
                    return n
            return _Rename({}, sub).visit(copy.deepcopy(lam.body))
        return n


def _pure(e):
    if isinstance(e, (ast.Name, ast.Constant)):
        return True
    if isinstance(e, ast.Attribute):
        return _pure(e.value)
    return False


def splicable(h):
    node = h.node
    if node.decorator_list and not all(U(d) in ("staticmethod", "classmethod") for d in node.decorator_list):
        return False
    a = node.args
    if a.vararg:
        return False
    if a.kwarg is not None and a.kwarg.arg in _assigned_names(node):
        return False
    for n in walk_own(node):
        if isinstance(n, (ast.Yield, ast.YieldFrom, ast.Await, ast.Global, ast.Nonlocal)):
            return False
    body = [st for st in node.body if not (isinstance(st, ast.Expr) and isinstance(st.value, ast.Constant))]
    body = _return_from_endless_loop(body)
    if _has_return_in_loop(body):
        return False
    return True


def import_helper_globals(repo, h, f, rep):
    """A helper of another module is spliced into f: the module-level names its body reads (classes, functions, constants, imports of
    the helper's module) must mean the same thing in f's module.  Names f's module does not know are recorded as imported from the
    helper's module; a name that means something else there refuses the splice (returns False)."""
    if h.mod == f.mod:
        return True
    fa = f.node.args
    local = _assigned_names(f.node) | {p_.arg for p_ in fa.posonlyargs + fa.args + fa.kwonlyargs} | {"self", "cls"}
    for st in rep:
        local |= _assigned_names(st)
    add = {}
    for st in rep:
        for x in ast.walk(st):
            if not (isinstance(x, ast.Name) and isinstance(x.ctx, ast.Load)) or x.id in local:
                continue
            th = repo.chase(h.mod, x.id)
            if th is None and x.id in repo.consts.get(h.mod, {}):
                th = f"{h.mod}.{x.id}"
            if th is None:
                continue                                  # a builtin, or a name the helper's module does not define either
            tf = repo.chase(f.mod, x.id)
            if tf is None and x.id in repo.consts.get(f.mod, {}):
                tf = f"{f.mod}.{x.id}"
            if tf is None:
                add[x.id] = th
            elif tf != th:
                return False
    for k, v in add.items():
        repo.imports[f.mod][k] = v
    return True


def specialise_varargs(repo, h, skip, call, bind_args, counter, caller=None):
    """helper(x, *names) called with constant extra arguments: (a copy of the helper without the star parameter, in which `names` is
    the tuple display of those constants and loops over it are unrolled; the binding of the remaining parameters) - or None"""
    a = h.node.args
    if not a.vararg or any(isinstance(x, ast.Starred) for x in call.args) or any(k.arg is None for k in call.keywords):
        return None
    b = bind_args(h, skip, call)
    if b is None:
        return None
    name = a.vararg.arg
    tup = b.get(name)
    if isinstance(tup, ast.Tuple) and caller is not None:
        # names of module-level string constants of the caller's module are read as the constants
        ca = caller.node.args
        caller_locals = _assigned_names(caller.node) | {p_.arg for p_ in ca.posonlyargs + ca.args + ca.kwonlyargs}
        els = []
        for e in tup.elts:
            if isinstance(e, ast.Name) and e.id not in caller_locals:
                cv = repo.const_value(caller.mod, e.id)
                if isinstance(cv, ast.Constant) and isinstance(cv.value, str):
                    e = copy.deepcopy(cv)
            els.append(e)
        tup = ast.Tuple(elts=els, ctx=ast.Load())
    if not isinstance(tup, ast.Tuple) or len(tup.elts) > 8 or not all(isinstance(e, ast.Constant) for e in tup.elts) or name in _assigned_names(h.node):
        return None
    node = copy.deepcopy(h.node)

    class S(ast.NodeTransformer):
        def visit_Name(self, n):
            if n.id == name and isinstance(n.ctx, ast.Load):
                return ast.copy_location(copy.deepcopy(tup), n)
            return n
    node.body = [S().visit(st) for st in node.body]
    node.args.vararg = None
    h2 = copy.copy(h)
    h2.node = node
    from .peval import unroll_loops
    counter[0] += 1
    unroll_loops(repo, h2, [counter[0] * 1000])
    ast.fix_missing_locations(h2.node)
    b = {k: v for k, v in b.items() if k != name}
    return h2, b


def splice(h, binding, context, target, caller_names, tag, nonnull=None):
    """statements replacing the call; None if impossible"""
    body = [copy.deepcopy(st) for st in h.node.body if not (isinstance(st, ast.Expr) and isinstance(st.value, ast.Constant) and isinstance(st.value.value, str))]
    body = eliminate_early_returns(body)
    if not only_tail_returns(body):
        return None
    pre = []
    subst = {}
    helper_assigned = _assigned_names(h.node)
    lambdas = {}
    for p, a in binding.items():
        if isinstance(a, ast.Lambda) and p not in helper_assigned and _only_called(h.node, p, a):
            lambdas[p] = a
    if lambdas:
        body = [_Beta(lambdas).visit(st) for st in body]
    def _const_display(e):
        return isinstance(e, (ast.List, ast.Tuple)) and all(isinstance(x, ast.Constant) or _const_display(x) for x in e.elts)

    def _read_once_outside_loops(p):
        uses = [x for st in body for x in ast.walk(st) if isinstance(x, ast.Name) and x.id == p]
        if len(uses) != 1 or not isinstance(uses[0].ctx, ast.Load):
            return False
        for st in body:
            for lp in ast.walk(st):
                if isinstance(lp, (ast.For, ast.While, ast.ListComp, ast.SetComp, ast.DictComp, ast.GeneratorExp, ast.Lambda, ast.FunctionDef)) and any(x is uses[0] for x in ast.walk(lp)):
                    return False
        return True
    for p, a in binding.items():
        if p in lambdas:
            continue
        if _pure(a) and p not in helper_assigned:
            subst[p] = a
        elif _const_display(a) and p not in helper_assigned and _read_once_outside_loops(p):
            subst[p] = a        # a literal display read exactly once: built where it is used instead of just before
        else:
            tmp = p if (p not in caller_names and p not in helper_assigned) else f"{p}__{tag}"
            pre.append(ast.Assign(targets=[ast.Name(id=tmp, ctx=ast.Store())], value=copy.deepcopy(a), lineno=0, col_offset=0))
            if tmp != p:
                subst[p] = ast.Name(id=tmp, ctx=ast.Load())
            if p in helper_assigned and tmp != p:
                # parameter re-assigned inside the helper: keep using the temp name
                pass
    renames = {}
    # helper locals that are returned straight into like-named targets of this very call need no renaming:
    # `mu_part, Q = self._terms(...)` with `return mu_part, Q` in the helper
    keep = set()
    if context == "assign" and target is not None and len(target) == 1:
        tels = target[0].elts if isinstance(target[0], ast.Tuple) else [target[0]]
        rets = [n for st in body for n in ast.walk(st) if isinstance(n, ast.Return) and n.value is not None]
        tail = [r for r in rets if not isinstance(r.value, ast.Tuple) or not all(isinstance(v, (ast.Constant, ast.List, ast.Call)) for v in r.value.elts)]
        # the (single) return of locals decides the naming; returns of literals (early exits) are left as they are
        if all(isinstance(t, ast.Name) for t in tels) and len(tail) == 1:
            r = tail[0]
            rels = r.value.elts if isinstance(r.value, ast.Tuple) else [r.value]
            tn = [t.id for t in tels]
            if len(rels) == len(tels) and all(isinstance(v, ast.Name) for v in rels) and len(set(tn)) == len(tn):
                rnm = [v.id for v in rels]
                body_names = set()
                for st in body:
                    body_names |= _used_names(st)
                arg_names = set()
                for a in binding.values():
                    arg_names |= _used_names(a)
                ok = len(set(rnm)) == len(rnm) and all(x in helper_assigned and x not in binding for x in rnm)
                # a target name must not already mean something else inside the helper body or its arguments
                ok = ok and all((t == x) or (t not in body_names and t not in arg_names) for t, x in zip(tn, rnm))
                if ok:
                    for t, x in zip(tn, rnm):
                        if t == x:
                            keep.add(x)
                        else:
                            renames[x] = t
    for nm in helper_assigned:
        if nm in keep or nm in renames:
            continue
        if nm in binding:
            if nm in subst and isinstance(subst[nm], ast.Name):
                renames[nm] = subst[nm].id
            continue
        if nm in caller_names:
            renames[nm] = f"{nm}__{tag}"
    rn = _Rename(renames, {k: v for k, v in subst.items()})
    body = [rn.visit(st) for st in body]
    if context == "expr":
        def fn(r):
            if r.value is None or isinstance(r.value, ast.Constant):
                return []
            return [ast.Expr(value=r.value)]
        body = _map_returns(body, fn)
    elif context == "assign":
        if not _ends_in_return(body):
            return None

        def fn(r):
            if r.value is None:
                return [ast.Assign(targets=copy.deepcopy(target), value=ast.Constant(value=None), lineno=0, col_offset=0)]
            # identity assignment `a, b = a, b` after keeping helper local names is dropped
            if len(target) == 1 and U(target[0]) == U(r.value):
                return []
            if len(target) == 1 and isinstance(target[0], ast.Tuple) and isinstance(r.value, ast.Tuple) and len(target[0].elts) == len(r.value.elts):
                out = []
                for t, v in zip(target[0].elts, r.value.elts):
                    if U(t) != U(v):
                        out.append(ast.Assign(targets=[copy.deepcopy(t)], value=v, lineno=0, col_offset=0))
                return out
            return [ast.Assign(targets=copy.deepcopy(target), value=r.value, lineno=0, col_offset=0)]
        body = _map_returns(body, fn)
    elif context == "return":
        if not _ends_in_return(body):
            body = body + [ast.Return(value=None)]
    out = simplify(pre + body, nonnull or set())
    for st in out:
        ast.fix_missing_locations(st)
    return out


def _static_test(t, nonnull):
    """True / False when the test is decided statically after parameter substitution, else None"""
    if isinstance(t, ast.Compare) and len(t.ops) == 1 and isinstance(t.ops[0], (ast.Is, ast.IsNot)):
        l, r = t.left, t.comparators[0]
        is_none = lambda x: isinstance(x, ast.Constant) and x.value is None
        if is_none(l) and is_none(r):
            return isinstance(t.ops[0], ast.Is)
        for a, b in ((l, r), (r, l)):
            if is_none(b) and ((isinstance(a, ast.Name) and a.id in nonnull) or (isinstance(a, ast.Constant) and a.value is not None)):
                return isinstance(t.ops[0], ast.IsNot)
    if isinstance(t, ast.UnaryOp) and isinstance(t.op, ast.Not):
        v = _static_test(t.operand, nonnull)
        return None if v is None else (not v)
    if isinstance(t, ast.Constant) and isinstance(t.value, bool):
        return t.value
    return None


def simplify(stmts, nonnull):
    """dead-arm elimination for tests decided by the substituted arguments (`if None is not None:`), and merging of
    `v = a; v = g(v)` re-definitions in one statement list into a single definition"""
    out = []
    for st in stmts:
        if isinstance(st, ast.If):
            v = _static_test(st.test, nonnull)
            if v is True:
                out += simplify(st.body, nonnull)
                continue
            if v is False:
                out += simplify(st.orelse, nonnull)
                continue
            st.body = simplify(st.body, nonnull)
            st.orelse = simplify(st.orelse, nonnull)
        elif isinstance(st, (ast.For, ast.While, ast.With, ast.AsyncWith, ast.AsyncFor)):
            st.body = simplify(st.body, nonnull)
        elif isinstance(st, ast.Assign) and len(st.targets) == 1 and isinstance(st.targets[0], ast.Name) and isinstance(st.value, ast.Name) and st.value.id == st.targets[0].id:
            continue            # x = x  (left behind when a spliced helper's parameter and the caller's local share a name)
        out.append(st)
        if isinstance(st, (ast.Continue, ast.Break, ast.Return, ast.Raise)):
            break               # statements after an unconditional exit never run (left behind when a tail was copied into an exiting arm)
    # x = p; if x is None: x = D   ->   x = D if p is None else p      (p a plain name, D a display / constant: the default-argument idiom
    # of a spliced helper whose parameter got a name of its own)
    merged = []
    k = 0
    while k < len(out):
        st = out[k]
        nxt = out[k + 1] if k + 1 < len(out) else None
        if isinstance(st, ast.Assign) and len(st.targets) == 1 and isinstance(st.targets[0], ast.Name) and isinstance(st.value, ast.Name) \
                and isinstance(nxt, ast.If) and not nxt.orelse and len(nxt.body) == 1 and isinstance(nxt.body[0], ast.Assign) and len(nxt.body[0].targets) == 1 \
                and isinstance(nxt.body[0].targets[0], ast.Name) and nxt.body[0].targets[0].id == st.targets[0].id \
                and isinstance(nxt.test, ast.Compare) and len(nxt.test.ops) == 1 and isinstance(nxt.test.ops[0], ast.Is) and isinstance(nxt.test.left, ast.Name) \
                and nxt.test.left.id == st.targets[0].id and U(nxt.test.comparators[0]) == "None" \
                and isinstance(nxt.body[0].value, (ast.List, ast.Tuple, ast.Dict, ast.Constant)) and not _used_names(nxt.body[0].value):
            pname = st.value.id
            test = ast.Compare(left=ast.Name(id=pname, ctx=ast.Load()), ops=[ast.Is()], comparators=[ast.Constant(value=None)])
            merged.append(ast.Assign(targets=[ast.Name(id=st.targets[0].id, ctx=ast.Store())],
                                     value=ast.IfExp(test=test, body=nxt.body[0].value, orelse=ast.Name(id=pname, ctx=ast.Load())), lineno=getattr(st, "lineno", 0), col_offset=0))
            k += 2
            continue
        merged.append(st)
        k += 1
    out = merged
    # a, b = x, y  ->  a = x; b = y   (no target is read by any of the values)
    split = []
    for st in out:
        if isinstance(st, ast.Assign) and len(st.targets) == 1 and isinstance(st.targets[0], ast.Tuple) and isinstance(st.value, ast.Tuple) \
                and len(st.targets[0].elts) == len(st.value.elts) and all(isinstance(t, ast.Name) for t in st.targets[0].elts):
            tn = {t.id for t in st.targets[0].elts}
            if not (tn & _used_names(st.value)) and len(tn) == len(st.targets[0].elts):
                for t, v in zip(st.targets[0].elts, st.value.elts):
                    if t.id == "_":
                        continue
                    split.append(ast.Assign(targets=[ast.Name(id=t.id, ctx=ast.Store())], value=v, lineno=getattr(st, "lineno", 0), col_offset=0))
                continue
        split.append(st)
    out = split
    # merge re-definitions
    res = []
    for st in out:
        if isinstance(st, ast.Assign) and len(st.targets) == 1 and isinstance(st.targets[0], ast.Name):
            nm = st.targets[0].id
            reads = [x for x in ast.walk(st.value) if isinstance(x, ast.Name) and x.id == nm]
            if not reads:
                # dead store: an earlier plain `nm = <constant>` in this list that nothing reads before this re-definition
                j = len(res) - 1
                while j >= 0:
                    pj = res[j]
                    if isinstance(pj, ast.Assign) and len(pj.targets) == 1 and isinstance(pj.targets[0], ast.Name) and pj.targets[0].id == nm and isinstance(pj.value, ast.Constant):
                        del res[j]
                        break
                    if nm in _used_names(pj) or not isinstance(pj, (ast.Assign, ast.Expr)):
                        break
                    j -= 1
            if reads:
                # previous definition of nm in this list, with nothing in between touching nm
                j = len(res) - 1
                prev = None
                while j >= 0:
                    pj = res[j]
                    if isinstance(pj, ast.Assign) and len(pj.targets) == 1 and isinstance(pj.targets[0], ast.Name) and pj.targets[0].id == nm:
                        prev = j
                        break
                    if nm in _used_names(pj) or not isinstance(pj, (ast.Assign, ast.Expr)):
                        break
                    j -= 1
                if prev is not None and nm not in _used_names(res[prev].value):
                    val = _Rename({}, {nm: res[prev].value}).visit(copy.deepcopy(st.value))
                    new = ast.Assign(targets=[ast.Name(id=nm, ctx=ast.Store())], value=val, lineno=getattr(st, "lineno", 0), col_offset=0)
                    del res[prev]
                    res.append(new)
                    continue
        res.append(st)
    return _loops_to_comprehensions(res)


def _loops_to_comprehensions(stmts):
    """xs = []; for T in IT: [locals;] [if C:] xs.append(E)   ->   xs = [E for T in IT if C]   (one collection per loop, the
    loop directly follows the empty initialisation, E / IT / C do not mention xs)"""
    from . import builders as B
    out = []
    i = 0
    while i < len(stmts):
        st = stmts[i]
        nxt = stmts[i + 1] if i + 1 < len(stmts) else None
        if isinstance(st, ast.Assign) and len(st.targets) == 1 and isinstance(st.targets[0], ast.Name) and isinstance(nxt, ast.For):
            xs = st.targets[0].id
            kind = B._empty_kind(st.value)
            # a rewrite, not a comparison form: the loop body must have no effect besides the collection (a refusal `if ..: raise`
            # carries no path condition for the builders, but dropping it here would drop the refusal from the program)
            effectful = any(isinstance(x, (ast.Raise, ast.Assert, ast.Return, ast.Break, ast.Yield, ast.YieldFrom, ast.Await, ast.Delete, ast.Global, ast.Nonlocal)) for x in ast.walk(nxt))
            ms = B._loop_mutations(nxt) if kind in ("list", "set", "dict", "counter") and not effectful else None
            if ms is not None and len(ms) == 1 and ms[0][0] == kind and ms[0][1] == xs:
                k_, nm_, payload, cs = ms[0]
                comp = B._comp(kind, payload, nxt.target, nxt.iter, cs)
                if xs not in _used_names(comp):
                    out.append(ast.Assign(targets=[ast.Name(id=xs, ctx=ast.Store())], value=comp, lineno=getattr(st, "lineno", 0), col_offset=0))
                    i += 2
                    continue
        out.append(st)
        i += 1
    return out


_NONNULL_CALLS = ("np.array", "np.asarray", "np.zeros", "np.ones", "np.empty", "np.full", "np.arange", "np.concatenate", "np.unique", "np.where")


_NP_RETURNING_NONE = ("np.random.seed", "np.copyto", "np.put", "np.place", "np.putmask", "np.save", "np.savez", "np.savetxt", "np.fill_diagonal", "np.random.shuffle",
                      "np.seterr", "np.testing.assert_allclose", "np.testing.assert_array_equal")


NONNULL_REPO_FUNCTIONS = set()       # simple names of module-level repository functions that never return None (set per Repo build)
NONNULL_ATTRIBUTES = set()           # attribute names that every class of the repository only ever binds to a value it has dereferenced


def nonnull_attributes(repo):
    """attribute names A such that every store `<obj>.A = V` in the repository has V a non-None expression or a constructor parameter that
    the same function dereferences unconditionally (`V.dtype`, `V[..]`, `len(V)`, an operator on V): reading `.A` later cannot give None"""
    ok, bad = set(), set()
    for q, f in repo.funcs.items():
        deref = set()
        for st in f.node.body:                                  # unconditional top-level statements, any position
            if isinstance(st, (ast.If, ast.For, ast.While, ast.Try, ast.With)):
                tests = [st.test] if isinstance(st, (ast.If, ast.While)) else []
                scan = tests
            else:
                scan = [st]
            for part in scan:
                for x in ast.walk(part):
                    if isinstance(x, (ast.Attribute, ast.Subscript)) and isinstance(x.value, ast.Name) and isinstance(x.ctx, ast.Load):
                        deref.add(x.value.id)
                    if isinstance(x, ast.Call) and isinstance(x.func, ast.Name) and x.func.id == "len" and x.args and isinstance(x.args[0], ast.Name):
                        deref.add(x.args[0].id)
        for n in walk_own(f.node):
            if isinstance(n, ast.Assign):
                for t in n.targets:
                    if isinstance(t, ast.Attribute):
                        v = n.value
                        good = _nonnull_expr(v) or (isinstance(v, ast.Name) and v.id in deref and v.id in f.params)
                        (ok if good else bad).add(t.attr)
            elif isinstance(n, (ast.AugAssign, ast.AnnAssign)) and isinstance(n.target, ast.Attribute):
                if isinstance(n, ast.AnnAssign) and n.value is None:
                    continue
                (ok if isinstance(n, ast.AugAssign) or _nonnull_expr(n.value) else bad).add(n.target.attr)
    # class-level annotated fields / defaults (dataclasses) may start as None
    for cq, cn in repo.classes.items():
        for st in cn.body:
            if isinstance(st, ast.AnnAssign) and isinstance(st.target, ast.Name):
                bad.add(st.target.id)
            elif isinstance(st, ast.Assign):
                for t in st.targets:
                    if isinstance(t, ast.Name) and not _nonnull_expr(st.value):
                        bad.add(t.id)
    return ok - bad


def never_returns_none(fnode):
    """every exit of the function is a `return <value that cannot be None>` or a raise: the value is an operator result, a display,
    a numpy call, or a local that the straight-line body has bound to such a value or *stored through* (`r[mask] = 0` raises on None)"""
    body = [st for st in fnode.body if not (isinstance(st, ast.Expr) and isinstance(st.value, ast.Constant))]
    if not body or any(isinstance(n, (ast.Yield, ast.YieldFrom)) for n in walk_own(fnode)):
        return False
    if not _ends_in_return(body) and not isinstance(body[-1], ast.Raise):
        return False
    proven = set()
    for st in body:                       # unconditional top-level statements only
        if isinstance(st, ast.Assign) and len(st.targets) == 1:
            t = st.targets[0]
            if isinstance(t, ast.Name):
                (proven.add if _nonnull_expr(st.value) else proven.discard)(t.id)
            elif isinstance(t, ast.Subscript) and isinstance(t.value, ast.Name):
                proven.add(t.value.id)
        elif isinstance(st, ast.AugAssign) and isinstance(st.target, ast.Name):
            proven.add(st.target.id)
        elif isinstance(st, (ast.If, ast.For, ast.While, ast.With, ast.Try)):
            for x in ast.walk(st):
                if isinstance(x, ast.Name) and isinstance(x.ctx, (ast.Store, ast.Del)):
                    proven.discard(x.id)
    for r in walk_own(fnode):
        if isinstance(r, ast.Return):
            if r.value is None:
                return False
            if not (_nonnull_expr(r.value) or (isinstance(r.value, ast.Name) and r.value.id in proven and r in body)):
                return False
    return True


def _nonnull_expr(e):
    if isinstance(e, ast.Call):
        f_ = U(e.func)
        if f_ in _NONNULL_CALLS or f_ in NONNULL_REPO_FUNCTIONS:
            return True
        # numpy functions return arrays / scalars (the few procedures that return None are listed); Generator draws likewise
        if f_.startswith("np.") and f_ not in _NP_RETURNING_NONE and not f_.startswith("np.testing."):
            return True
        if isinstance(e.func, ast.Attribute) and e.func.attr in ("choice", "permutation", "integers", "normal", "random", "uniform", "gamma", "standard_normal") \
                and isinstance(e.func.value, ast.Name) and e.func.value.id in ("rng", "generator", "random_state"):
            return True
        return False
    # the result of an arithmetic / bitwise / comparison operator on arrays or numbers is never None (None operands raise)
    if isinstance(e, ast.UnaryOp) and isinstance(e.op, (ast.Invert, ast.USub, ast.UAdd)):
        return True
    if isinstance(e, ast.UnaryOp) and isinstance(e.op, ast.Not):
        return True
    if isinstance(e, (ast.BinOp, ast.Compare)):
        return True
    if isinstance(e, (ast.List, ast.Tuple, ast.Dict, ast.Set, ast.ListComp, ast.DictComp, ast.SetComp, ast.JoinedStr)):
        return True
    if isinstance(e, ast.Attribute) and e.attr in NONNULL_ATTRIBUTES and isinstance(e.value, (ast.Name, ast.Attribute)):
        return True
    return isinstance(e, ast.Constant) and e.value is not None


def nonnull_names(repo, f):
    """locals of f with one definition that is provably not None: an array constructor, a display, or the i-th element of
    the tuple returned by a repository function whose only return is a tuple of such values"""
    if getattr(f, "_nonnull", None) is not None:
        return f._nonnull
    from .astutil import single_defs, resolve_helper as _rh
    out = set()
    sd = single_defs(f.node)
    for k, v in sd.items():
        if _nonnull_expr(v):
            out.add(k)
    counts = {}
    for n in walk_own(f.node):
        if isinstance(n, (ast.Assign, ast.AugAssign, ast.AnnAssign, ast.For)):
            tg = n.targets if isinstance(n, ast.Assign) else [n.target]
            for t in tg:
                for x in ast.walk(t):
                    if isinstance(x, ast.Name):
                        counts[x.id] = counts.get(x.id, 0) + 1
    for n in walk_own(f.node):
        if isinstance(n, ast.Assign) and len(n.targets) == 1 and isinstance(n.targets[0], ast.Tuple) and isinstance(n.value, ast.Call) \
                and all(isinstance(x, ast.Name) for x in n.targets[0].elts):
            h, skip = _rh(repo, f, n.value)
            if h is None:
                continue
            rets = [r for r in walk_own(h.node) if isinstance(r, ast.Return)]
            if len(rets) != 1 or not isinstance(rets[0].value, ast.Tuple) or len(rets[0].value.elts) != len(n.targets[0].elts):
                continue
            hsd = single_defs(h.node)
            for t, v in zip(n.targets[0].elts, rets[0].value.elts):
                vv = hsd.get(v.id) if isinstance(v, ast.Name) else v
                if vv is not None and _nonnull_expr(vv) and counts.get(t.id, 0) == 1:
                    out.add(t.id)
    try:
        f._nonnull = out
    except Exception:
        pass
    return out


def _bind_receiver(h, skip, call, b, caller):
    """the implicit first parameter of a method spliced into a caller with a different receiver: `cls` of a class method
    called on a class / through an instance, `self` of a method called on another object"""
    if b is None or not skip:
        return b
    a = h.node.args
    ps = [p.arg for p in a.posonlyargs + a.args]
    if not ps:
        return b
    first = ps[0]
    recv = call.func.value if isinstance(call.func, ast.Attribute) else None
    if recv is None:
        return b
    if h.is_classmethod:
        if isinstance(recv, ast.Name) and recv.id == "cls" and caller.is_classmethod:
            return b                                   # same cls
        if isinstance(recv, ast.Name) and recv.id == "self":
            val = ast.Call(func=ast.Name(id="type", ctx=ast.Load()), args=[ast.Name(id="self", ctx=ast.Load())], keywords=[])
        else:
            val = recv                                 # ClassName._helper(...)
        b = dict(b)
        b[first] = val
        return b
    # instance method: self.m(...) inside a method of the same object keeps `self`
    if isinstance(recv, ast.Name) and recv.id == "self":
        return b
    b = dict(b)
    b[first] = recv
    return b


def _hoistable_calls(e, allow_top=False):
    """calls nested in expression e that are evaluated unconditionally exactly once (not under lambda, comprehension,
    conditional expression or a short-circuit operator's later operands)"""
    out = []

    def go(n, top):
        if isinstance(n, (ast.Lambda, ast.ListComp, ast.SetComp, ast.DictComp, ast.GeneratorExp, ast.IfExp)):
            if isinstance(n, ast.IfExp):
                go(n.test, False)
            return
        if isinstance(n, ast.BoolOp):
            go(n.values[0], False)
            return
        if isinstance(n, ast.Call) and (not top or allow_top):
            out.append(n)
        for c in ast.iter_child_nodes(n):
            go(c, False)
    go(e, True)
    return out


def _hoist(st, repo, f, new_funcs, resolve_helper, bind_args, caller_names, counter, report, q, allow_top=False):
    """`x = g(h(a))` with h a new helper -> `t = h(a)` spliced, then `x = g(t)`"""
    for call in _hoistable_calls(st.value, allow_top):
        h, skip = resolve_helper(repo, f, call)
        if h is None or h.qname not in new_funcs or h.node is f.node or not splicable(h):
            continue
        b = _bind_receiver(h, skip, call, bind_args(h, skip, call), f)
        if b is None:
            continue
        counter[0] += 1
        tag = f"h{counter[0]}"
        tmp = f"{h.node.name.lstrip('_')}__{tag}"
        tgt = [ast.Name(id=tmp, ctx=ast.Store())]
        rep = splice(h, b, "assign", tgt, caller_names, tag, nonnull=nonnull_names(repo, f))
        if rep is None or not import_helper_globals(repo, h, f, rep):
            continue

        class Sub(ast.NodeTransformer):
            def visit_Call(self, n):
                if n is call:
                    return ast.Name(id=tmp, ctx=ast.Load())
                self.generic_visit(n)
                return n
        st2 = Sub().visit(st)
        ast.fix_missing_locations(st2)
        # a helper whose result is one expression: put the expression back in place (keeps the caller's statement shape)
        if len(rep) == 1 and isinstance(rep[0], ast.Assign) and U(rep[0].targets[0]) == tmp:
            val = rep[0].value

            class Back(ast.NodeTransformer):
                def visit_Name(self, n):
                    return val if n.id == tmp and isinstance(n.ctx, ast.Load) else n
            st2 = Back().visit(st2)
            ast.fix_missing_locations(st2)
            rep = []
        for x in rep:
            caller_names.update(_used_names(x))
        caller_names.add(tmp)
        report.setdefault(q, []).append(h.qname)
        return rep + [st2]
    return None


# --------------------------------------------------------------------------- generators
def _is_generator(fnode):
    return any(isinstance(n, (ast.Yield, ast.YieldFrom)) for n in walk_own(fnode))


def _desugar_yield_from(stmts, counter):
    """`yield from X`  ->  `for _yf in X: yield _yf`"""
    class T(ast.NodeTransformer):
        def visit_FunctionDef(self, n):
            return n

        def visit_Expr(self, n):
            if isinstance(n.value, ast.YieldFrom):
                counter[0] += 1
                v = f"_yf{counter[0]}"
                return ast.For(target=ast.Name(id=v, ctx=ast.Store()), iter=n.value.value, orelse=[], lineno=n.lineno, col_offset=0,
                               body=[ast.Expr(value=ast.Yield(value=ast.Name(id=v, ctx=ast.Load())))])
            return n
    out = []
    for st in stmts:
        r = T().visit(st)
        out.append(r)
    return out


def _yield_sites(stmts, depth=0, last_in_loop=True, out=None):
    """[(statement list, index, loop depth, yield is the last statement of its innermost loop body)]"""
    out = [] if out is None else out
    for i, st in enumerate(stmts):
        if isinstance(st, ast.Expr) and isinstance(st.value, ast.Yield):
            out.append((stmts, i, depth, last_in_loop and i == len(stmts) - 1))
        elif isinstance(st, (ast.For, ast.While)):
            _yield_sites(st.body, depth + 1, True, out)
            _yield_sites(st.orelse, depth, last_in_loop and i == len(stmts) - 1, out)
        elif isinstance(st, ast.If):
            _yield_sites(st.body, depth, last_in_loop and i == len(stmts) - 1, out)
            _yield_sites(st.orelse, depth, last_in_loop and i == len(stmts) - 1, out)
        elif isinstance(st, (ast.With, ast.Try)):
            _yield_sites(st.body, depth, last_in_loop and i == len(stmts) - 1, out)
        elif any(isinstance(x, (ast.Yield, ast.YieldFrom)) for x in ast.walk(st)):
            out.append((stmts, i, -1, False))       # a yield in expression position: unsupported
    return out


def splice_generator_loop(h, binding, loop, caller_names, tag, nonnull=None, max_sites=24, names_outside_loop=None):
    """`for T in h(args): BODY`  ->  h's body with every `yield e` replaced by `T = e; BODY`; None if outside the fragment:
    h's yields are statements; BODY has no `break`; a top-level `continue` in BODY needs every yield to end its loop body"""
    if loop.orelse:
        return None
    counter = [0]
    body = [copy.deepcopy(st) for st in h.node.body if not (isinstance(st, ast.Expr) and isinstance(st.value, ast.Constant) and isinstance(st.value.value, str))]
    body = _desugar_yield_from(body, counter)
    if any(isinstance(n, ast.Return) and n.value is not None for n in walk_own(ast.Module(body=body, type_ignores=[]))):
        return None

    def own_flow(stmts, kinds):
        """break/continue statements of BODY that would bind to an enclosing loop of the caller"""
        found = []
        for st in stmts:
            if isinstance(st, kinds):
                found.append(st)
            elif isinstance(st, (ast.For, ast.While)):
                found += own_flow(st.orelse, kinds)
            elif isinstance(st, (ast.If, ast.With, ast.Try)):
                for fld in ("body", "orelse", "finalbody"):
                    found += own_flow(getattr(st, fld, []) or [], kinds)
                for hd in getattr(st, "handlers", []):
                    found += own_flow(hd.body, kinds)
        return found
    if own_flow(loop.body, (ast.Break,)):
        return None
    has_continue = bool(own_flow(loop.body, (ast.Continue,)))
    # bind parameters / rename locals exactly as for ordinary helpers
    pre = []
    subst = {}
    helper_assigned = _assigned_names(h.node)
    for p, a in binding.items():
        if _pure(a) and p not in helper_assigned:
            subst[p] = a
        else:
            tmp = p if (p not in caller_names and p not in helper_assigned) else f"{p}__{tag}"
            pre.append(ast.Assign(targets=[ast.Name(id=tmp, ctx=ast.Store())], value=copy.deepcopy(a), lineno=0, col_offset=0))
            if tmp != p:
                subst[p] = ast.Name(id=tmp, ctx=ast.Load())
    renames = {}
    for nm in helper_assigned:
        if nm in binding:
            if nm in subst and isinstance(subst[nm], ast.Name):
                renames[nm] = subst[nm].id
            continue
        if nm in caller_names:
            renames[nm] = f"{nm}__{tag}"
    rn = _Rename(renames, dict(subst))
    body = [rn.visit(st) for st in body]
    sites = _yield_sites(body)
    if not sites or len(sites) > max_sites or any(d < 0 for _, _, d, _ in sites):
        return None
    if has_continue and not all(last and d >= 1 for _, _, d, last in sites):
        return None
    # a bare `return` in the generator ends the iteration: only supported at the very end
    body_stored = set()
    for b_ in loop.body:
        body_stored |= _assigned_names(ast.Module(body=[b_], type_ignores=[]))
    for lst, i, d, last in sorted(sites, key=lambda x: -x[1]):
        y = lst[i].value.value
        y = y if y is not None else ast.Constant(value=None)
        # bind the loop target(s) to the yielded value(s): by substitution when the value is cheap to repeat (or read once)
        # and the body does not re-assign the target, otherwise by an assignment
        pairs = None
        if isinstance(loop.target, ast.Name):
            pairs = [(loop.target.id, y)]
        elif isinstance(loop.target, ast.Tuple) and isinstance(y, ast.Tuple) and len(loop.target.elts) == len(y.elts) and all(isinstance(t, ast.Name) for t in loop.target.elts):
            pairs = [(t.id, v) for t, v in zip(loop.target.elts, y.elts)]
        new_body = [copy.deepcopy(b) for b in loop.body]
        pre_assign = []
        # loop variables that the body re-binds get their own name per spliced copy (unless they are read after the loop)
        if pairs is not None:
            rebound = [nm for nm, _ in pairs if nm in body_stored and nm not in (names_outside_loop or set())]
            if rebound:
                site_no = len([1 for s_ in sites if s_[1] <= i and s_[0] is lst]) + id(lst) % 97
                ren = {nm: f"{nm}__{tag}y{sites.index((lst, i, d, last))}" for nm in rebound}
                new_body = [_Rename(ren, {}).visit(b_) for b_ in new_body]
                pairs = [(ren.get(nm, nm), v) for nm, v in pairs]
                body_stored_here = (body_stored - set(rebound)) | set(ren.values())
            else:
                body_stored_here = body_stored
        if pairs is None:
            pre_assign = [ast.Assign(targets=[copy.deepcopy(loop.target)], value=y, lineno=getattr(loop, "lineno", 0), col_offset=0)]
        else:
            sub = {}
            for nm, v in pairs:
                uses = sum(1 for b_ in new_body for x in ast.walk(b_) if isinstance(x, ast.Name) and x.id == nm and isinstance(x.ctx, ast.Load))
                if nm not in body_stored_here and nm not in (names_outside_loop or set()) and (_pure(v) or isinstance(v, ast.Constant) or uses <= 1):
                    sub[nm] = v
                else:
                    pre_assign.append(ast.Assign(targets=[ast.Name(id=nm, ctx=ast.Store())], value=v, lineno=getattr(loop, "lineno", 0), col_offset=0))
            if sub:
                new_body = [_Rename({}, sub).visit(b_) for b_ in new_body]
        lst[i:i + 1] = pre_assign + new_body
    out = simplify(pre + body, nonnull or set())
    for st in out:
        ast.fix_missing_locations(st)
    return out


def _arms(st):
    if isinstance(st, ast.Match):
        return [c.body for c in st.cases]
    if isinstance(st, ast.If):
        arms = [st.body]
        cur = st
        while len(cur.orelse) == 1 and isinstance(cur.orelse[0], ast.If):
            cur = cur.orelse[0]
            arms.append(cur.body)
        if cur.orelse:
            arms.append(cur.orelse)
        return arms
    return None


def _duplicate_tail_into_arms(stmts, repo, f, new_funcs, resolve_helper):
    """match/if whose arms bind `v = gen(...)` (gen a new generator helper) followed by a shared `for x in v:` tail:
    the tail is moved into every arm (arms that end in raise / return do not reach it), and `for x in v` reads the call
    directly, so that the generator can be spliced where its items are consumed.  Semantics-preserving code motion."""
    for i, st in enumerate(stmts):
        arms = _arms(st)
        if arms is None or i + 1 >= len(stmts):
            continue
        tail = stmts[i + 1:]
        if not (isinstance(tail[0], ast.For) and isinstance(tail[0].iter, ast.Name)):
            continue
        v = tail[0].iter.id
        hit = False
        for body in arms:
            for x in body:
                if isinstance(x, ast.Assign) and len(x.targets) == 1 and isinstance(x.targets[0], ast.Name) and x.targets[0].id == v and isinstance(x.value, ast.Call):
                    h, _ = resolve_helper(repo, f, x.value)
                    if h is not None and h.qname in new_funcs and _is_generator(h.node):
                        hit = True
        if not hit:
            continue
        other_uses = sum(1 for t in tail for x in ast.walk(t) if isinstance(x, ast.Name) and x.id == v) - 1
        if other_uses:
            continue
        if isinstance(st, ast.If) and not _if_has_else(st):
            continue        # the fall-through path would lose the tail
        for body in arms:
            if body and isinstance(body[-1], (ast.Raise, ast.Return)):
                continue
            new_tail = [copy.deepcopy(t) for t in tail]
            binds = [x for x in body if isinstance(x, ast.Assign) and len(x.targets) == 1 and isinstance(x.targets[0], ast.Name) and x.targets[0].id == v]
            uses_in_arm = sum(1 for b_ in body for x in ast.walk(b_) if isinstance(x, ast.Name) and x.id == v and isinstance(x.ctx, ast.Load))
            if len(binds) == 1 and uses_in_arm == 0 and body[-1] is binds[0]:
                new_tail[0].iter = binds[0].value
                body.pop()
            body.extend(new_tail)
        return stmts[:i + 1]
    return stmts


def _if_has_else(st):
    cur = st
    while len(cur.orelse) == 1 and isinstance(cur.orelse[0], ast.If):
        cur = cur.orelse[0]
    return bool(cur.orelse)


def _yields_never_none(hnode):
    """every `yield e` of the generator gives a value that cannot be None: a non-None constant, a tuple display, or a loop
    variable ranging over np.unique(..) / range(..) / np.arange(..) / enumerate(..) (assumption A-nonnull-unique, DESIGN.md 13.4:
    the elements of those are numbers or numpy scalars; np.unique cannot sort an object array holding None next to anything else)"""
    targets = {}
    for n in walk_own(hnode):
        if isinstance(n, ast.For) and isinstance(n.target, ast.Name) and isinstance(n.iter, ast.Call) and U(n.iter.func) in ("np.unique", "range", "np.arange", "numpy.unique"):
            targets[n.target.id] = targets.get(n.target.id, 0) + 1
    stores = {}
    for n in walk_own(hnode):
        if isinstance(n, ast.Name) and isinstance(n.ctx, ast.Store):
            stores[n.id] = stores.get(n.id, 0) + 1
    ys = [n for n in walk_own(hnode) if isinstance(n, (ast.Yield, ast.YieldFrom))]
    if not ys:
        return False
    for y in ys:
        if isinstance(y, ast.YieldFrom) or y.value is None:
            return False
        v = y.value
        if isinstance(v, ast.Constant) and v.value is not None:
            continue
        if isinstance(v, ast.Tuple):
            continue
        if isinstance(v, ast.Name) and targets.get(v.id) == 1 and stores.get(v.id) == 1:
            continue
        return False
    return True


def _first_of_generator(stmts, repo, f, new_funcs, resolve_helper):
    """T = next(G(..), None); if T is not None: BODY    (BODY always raises / returns; T is not mentioned anywhere else; G a new
    generator helper whose yields are never None)   ->   for T in G(..): BODY      - only the first item can matter either way"""
    out = []
    i = 0
    while i < len(stmts):
        st = stmts[i]
        nxt = stmts[i + 1] if i + 1 < len(stmts) else None
        done = False
        if isinstance(st, ast.Assign) and len(st.targets) == 1 and isinstance(st.targets[0], ast.Name) and isinstance(st.value, ast.Call) \
                and isinstance(st.value.func, ast.Name) and st.value.func.id == "next" and len(st.value.args) == 2 and not st.value.keywords \
                and isinstance(st.value.args[1], ast.Constant) and st.value.args[1].value is None and isinstance(st.value.args[0], ast.Call) \
                and isinstance(nxt, ast.If) and not nxt.orelse and _ends_in_return(nxt.body):
            T = st.targets[0].id
            t = nxt.test
            is_not_none = isinstance(t, ast.Compare) and len(t.ops) == 1 and isinstance(t.ops[0], ast.IsNot) and isinstance(t.left, ast.Name) and t.left.id == T \
                and isinstance(t.comparators[0], ast.Constant) and t.comparators[0].value is None
            h, skip = resolve_helper(repo, f, st.value.args[0])
            inside = {id(x) for x in ast.walk(st)} | {id(x) for x in ast.walk(nxt)}
            elsewhere = any(isinstance(x, ast.Name) and x.id == T and id(x) not in inside for x in ast.walk(f.node))
            if is_not_none and h is not None and h.qname in new_funcs and h.node is not f.node and _is_generator(h.node) and not elsewhere and _yields_never_none(h.node):
                loop = ast.For(target=ast.Name(id=T, ctx=ast.Store()), iter=st.value.args[0], body=nxt.body, orelse=[], lineno=getattr(st, "lineno", 0), col_offset=0)
                ast.fix_missing_locations(loop)
                out.append(loop)
                i += 2
                done = True
        if not done:
            out.append(st)
            i += 1
    return out


def _is_local_procedure(fnode, hnode, allow_nested=False):
    """hnode is a `def` sitting directly in fnode's body, bound once (the name is not assigned anywhere else), with constant defaults
    and no decorators: calling it runs its body in fnode's own scope of free variables, so a call can be spliced like a helper's"""
    if not any(hnode is st for st in fnode.body) or hnode.decorator_list:
        return False
    a = hnode.args
    if any(not isinstance(d, ast.Constant) for d in list(a.defaults) + [d for d in a.kw_defaults if d is not None]):
        return False
    binds = 0
    for x in ast.walk(fnode):
        if isinstance(x, (ast.FunctionDef, ast.AsyncFunctionDef, ast.ClassDef)) and x.name == hnode.name:
            binds += 1
        elif isinstance(x, ast.Name) and x.id == hnode.name and isinstance(x.ctx, (ast.Store, ast.Del)):
            binds += 1
    if binds != 1:
        return False
    if any(isinstance(x, (ast.Global, ast.Nonlocal)) for x in ast.walk(hnode)):
        return False
    # names assigned in the closure are its own locals (no nonlocal: checked by splicable); nested closures inside it are left alone
    return allow_nested or not any(isinstance(x, (ast.FunctionDef, ast.Lambda, ast.ClassDef)) for st in hnode.body for x in ast.walk(st))


def _while_tests_to_breaks(stmts, repo, f, new_funcs, resolve_helper, counter):
    """while A and h(x): BODY     (h a new helper called in the loop test)
    ->  while True: if not A: break; t = h(x); if not t: break; BODY       - the conjuncts are tested in order at the top of every iteration,
    exactly as the short-circuit test did, and the helper call stands in statement position where it can be spliced"""
    out = []
    for st in stmts:
        if isinstance(st, ast.While) and not st.orelse and not (isinstance(st.test, ast.Constant) and st.test.value is True):
            def has_new(e):
                for c in ast.walk(e):
                    if isinstance(c, ast.Call):
                        h, _ = resolve_helper(repo, f, c)
                        if h is not None and h.qname in new_funcs and h.node is not f.node:
                            return True
                return False
            if has_new(st.test):
                conj = st.test.values if isinstance(st.test, ast.BoolOp) and isinstance(st.test.op, ast.And) else [st.test]
                head = []
                for c in conj:
                    if has_new(c):
                        counter[0] += 1
                        t = f"test__w{counter[0]}"
                        head.append(ast.Assign(targets=[ast.Name(id=t, ctx=ast.Store())], value=c, lineno=st.lineno, col_offset=0))
                        c = ast.Name(id=t, ctx=ast.Load())
                    head.append(ast.If(test=ast.UnaryOp(op=ast.Not(), operand=c), body=[ast.Break()], orelse=[], lineno=st.lineno, col_offset=0))
                new = ast.While(test=ast.Constant(value=True), body=head + list(st.body), orelse=[], lineno=st.lineno, col_offset=0)
                ast.fix_missing_locations(new)
                out.append(new)
                continue
        out.append(st)
    return out


def _generator_locals_to_loops(stmts, repo, f, new_funcs, resolve_helper):
    """g = gen(args); for x in g: BODY     (g bound once, mentioned nowhere else; gen a new generator helper; the loop is the very next
    statement, so the arguments are evaluated at the same point)   ->   for x in gen(args): BODY"""
    out = []
    i = 0
    mention_count = None
    while i < len(stmts):
        st = stmts[i]
        nxt = stmts[i + 1] if i + 1 < len(stmts) else None
        if isinstance(st, ast.Assign) and len(st.targets) == 1 and isinstance(st.targets[0], ast.Name) and isinstance(st.value, ast.Call) \
                and isinstance(nxt, ast.For) and isinstance(nxt.iter, ast.Name) and nxt.iter.id == st.targets[0].id:
            g = st.targets[0].id
            h, _ = resolve_helper(repo, f, st.value)
            mentions = [x for x in ast.walk(f.node) if isinstance(x, ast.Name) and x.id == g]
            if h is not None and (h.qname in new_funcs or _is_local_procedure(f.node, h.node, allow_nested=True)) and h.node is not f.node and _is_generator(h.node) and len(mentions) == 2:
                nxt.iter = st.value
                out.append(nxt)
                i += 2
                continue
        # the same with statements in between (the generator is created before a `with` opens and consumed inside it): a generator's
        # body does not start before the first item is requested, so only the evaluation of the call's arguments happens early -
        # plain names / paths / constants that nothing in the function re-binds
        if isinstance(st, ast.Assign) and len(st.targets) == 1 and isinstance(st.targets[0], ast.Name) and isinstance(st.value, ast.Call) \
                and any(isinstance(s2, (ast.For, ast.With, ast.AsyncWith, ast.If)) for s2 in stmts[i + 1:]):
            g = st.targets[0].id
            if mention_count is None:
                mention_count = {}
                for x in ast.walk(f.node):
                    if isinstance(x, ast.Name):
                        mention_count[x.id] = mention_count.get(x.id, 0) + 1
            if mention_count.get(g) == 2:
                def find_loop(lst):
                    for s2 in lst:
                        if isinstance(s2, ast.For) and isinstance(s2.iter, ast.Name) and s2.iter.id == g:
                            return s2
                        if isinstance(s2, (ast.With, ast.AsyncWith)):
                            r = find_loop(s2.body)
                            if r is not None:
                                return r
                        elif isinstance(s2, ast.If):
                            r = find_loop(s2.body) or find_loop(s2.orelse)
                            if r is not None:
                                return r
                    return None
                loop = find_loop(stmts[i + 1:])
                if loop is not None:
                    h, _ = resolve_helper(repo, f, st.value)
                    stored = {x.id for x in ast.walk(f.node) if isinstance(x, ast.Name) and isinstance(x.ctx, (ast.Store, ast.Del))}

                    def plain(e):
                        if isinstance(e, ast.Constant):
                            return True
                        if isinstance(e, ast.Attribute):
                            return plain(e.value)
                        return isinstance(e, ast.Name) and e.id not in stored
                    args_ok = all(plain(a) for a in st.value.args) and all(k.arg is not None and plain(k.value) for k in st.value.keywords) \
                        and (not isinstance(st.value.func, ast.Attribute) or plain(st.value.func.value))
                    if h is not None and (h.qname in new_funcs or _is_local_procedure(f.node, h.node, allow_nested=True)) and h.node is not f.node and _is_generator(h.node) and args_ok:
                        loop.iter = st.value
                        i += 1
                        continue
        out.append(st)
        i += 1
    return out


def _conditional_values_to_statements(stmts, repo, f, new_funcs, resolve_helper):
    """x = A(..) if c else B(..)   /   return A(..) if c else B(..)      with a new helper called in an arm
    ->  if c: x = A(..) else: x = B(..)      so that the arm's call stands in statement position and can be spliced"""
    out = []
    for st in stmts:
        v = getattr(st, "value", None)
        if isinstance(st, (ast.Assign, ast.Return)) and isinstance(v, ast.IfExp):
            def has_new(e):
                for c in ast.walk(e):
                    if isinstance(c, ast.Call):
                        h, _ = resolve_helper(repo, f, c)
                        if h is not None and h.qname in new_funcs and h.node is not f.node:
                            return True
                return False
            if has_new(v.body) or has_new(v.orelse):
                def mk(val):
                    if isinstance(st, ast.Return):
                        return ast.Return(value=val, lineno=st.lineno, col_offset=0)
                    return ast.Assign(targets=copy.deepcopy(st.targets), value=val, lineno=st.lineno, col_offset=0)
                n = ast.If(test=v.test, body=[mk(v.body)], orelse=[mk(v.orelse)], lineno=st.lineno, col_offset=0)
                ast.fix_missing_locations(n)
                out.append(n)
                continue
        out.append(st)
    return out


def inline_new_helpers(repo, new_funcs, resolve_helper, bind_args, max_rounds=2):
    """transform repo.funcs' ASTs in place; returns {caller qname: [helper qnames spliced]}"""
    report = {}
    counter = [0]
    for _ in range(max_rounds):
        changed = False
        for q, f in list(repo.funcs.items()):
            caller_names = _used_names(f.node) | _assigned_names(f.node)

            def rewrite(stmts):
                nonlocal changed
                stmts = _duplicate_tail_into_arms(stmts, repo, f, new_funcs, resolve_helper)
                stmts = _first_of_generator(stmts, repo, f, new_funcs, resolve_helper)
                stmts = _conditional_values_to_statements(stmts, repo, f, new_funcs, resolve_helper)
                stmts = _generator_locals_to_loops(stmts, repo, f, new_funcs, resolve_helper)
                stmts = _while_tests_to_breaks(stmts, repo, f, new_funcs, resolve_helper, counter)
                out = []
                for st in stmts:
                    # recurse into compound statements first
                    for fld in ("body", "orelse", "finalbody"):
                        sub = getattr(st, fld, None)
                        if isinstance(sub, list) and sub and isinstance(sub[0], ast.stmt) and not isinstance(st, (ast.FunctionDef, ast.AsyncFunctionDef, ast.ClassDef)):
                            setattr(st, fld, rewrite(sub))
                    if isinstance(st, ast.Try):
                        for hd in st.handlers:
                            hd.body = rewrite(hd.body)
                    if isinstance(st, ast.Match):
                        for cs_ in st.cases:
                            cs_.body = rewrite(cs_.body)
                    if isinstance(st, ast.For) and isinstance(st.iter, ast.Call):
                        h, skip = resolve_helper(repo, f, st.iter)
                        if h is not None and (h.qname in new_funcs or _is_local_procedure(f.node, h.node, allow_nested=True)) and h.node is not f.node and _is_generator(h.node) \
                                and not h.node.decorator_list:
                            b = _bind_receiver(h, skip, st.iter, bind_args(h, skip, st.iter), f)      # `other.gen()`: the generator's self is `other`
                            if b is not None:
                                counter[0] += 1
                                outside = set()
                                for x in ast.walk(f.node):
                                    if isinstance(x, ast.Name):
                                        outside.add((x.id, id(x)))
                                inside = {id(x) for x in ast.walk(st)}
                                outside = {nm for nm, i_ in outside if i_ not in inside}
                                rep = splice_generator_loop(h, b, st, caller_names, f"g{counter[0]}", nonnull=nonnull_names(repo, f), names_outside_loop=outside)
                                if rep is not None and not import_helper_globals(repo, h, f, rep):
                                    rep = None
                                if rep is not None:
                                    for x in rep:
                                        caller_names.update(_used_names(x))
                                    out += rep
                                    report.setdefault(q, []).append(h.qname)
                                    changed = True
                                    continue
                    # list(gen(...)) / tuple(gen(...)) with gen a new generator helper: collect through an explicit loop
                    if isinstance(st, (ast.Expr, ast.Assign, ast.Return)) and getattr(st, "value", None) is not None:
                        done = False
                        for c_ in _hoistable_calls(st.value, allow_top=True):
                            if isinstance(c_.func, ast.Name) and c_.func.id in ("list", "tuple") and len(c_.args) == 1 and not c_.keywords and isinstance(c_.args[0], ast.Call):
                                hg, _sk = resolve_helper(repo, f, c_.args[0])
                                if hg is not None and (hg.qname in new_funcs or _is_local_procedure(f.node, hg.node, allow_nested=True)) and hg.node is not f.node and _is_generator(hg.node):
                                    counter[0] += 1
                                    tmp = f"collected__g{counter[0]}"
                                    el = f"item__g{counter[0]}"
                                    loop = ast.For(target=ast.Name(id=el, ctx=ast.Store()), iter=c_.args[0], orelse=[], lineno=getattr(st, "lineno", 0), col_offset=0,
                                                   body=[ast.Expr(value=ast.Call(func=ast.Attribute(value=ast.Name(id=tmp, ctx=ast.Load()), attr="append", ctx=ast.Load()),
                                                                                 args=[ast.Name(id=el, ctx=ast.Load())], keywords=[]))])
                                    init = ast.Assign(targets=[ast.Name(id=tmp, ctx=ast.Store())], value=ast.List(elts=[], ctx=ast.Load()), lineno=getattr(st, "lineno", 0), col_offset=0)
                                    repl = ast.Name(id=tmp, ctx=ast.Load()) if c_.func.id == "list" else ast.Call(func=ast.Name(id="tuple", ctx=ast.Load()), args=[ast.Name(id=tmp, ctx=ast.Load())], keywords=[])

                                    class SubL(ast.NodeTransformer):
                                        def visit_Call(self, n):
                                            if n is c_:
                                                return repl
                                            self.generic_visit(n)
                                            return n
                                    st2 = SubL().visit(st)
                                    for x in (init, loop, st2):
                                        ast.fix_missing_locations(x)
                                    caller_names.update({tmp, el})
                                    out += rewrite([init, loop]) + [st2]
                                    changed = True
                                    done = True
                                    break
                        if done:
                            continue
                    # calls of new helpers in the iterable of a `for` / the test of an `if` are evaluated once, before the
                    # statement: hoist them like calls nested in an assignment
                    if isinstance(st, (ast.For, ast.If)):
                        fld = "iter" if isinstance(st, ast.For) else "test"
                        holder = ast.Expr(value=getattr(st, fld))
                        hoisted = _hoist(holder, repo, f, new_funcs, resolve_helper, bind_args, caller_names, counter, report, q, allow_top=True)
                        if hoisted is not None:
                            setattr(st, fld, hoisted[-1].value)
                            out += hoisted[:-1]
                            out.append(st)
                            changed = True
                            continue
                    call, context, target = None, None, None
                    if isinstance(st, ast.Expr) and isinstance(st.value, ast.Call):
                        call, context = st.value, "expr"
                    elif isinstance(st, ast.Assign) and isinstance(st.value, ast.Call):
                        call, context, target = st.value, "assign", st.targets
                    elif isinstance(st, ast.Return) and isinstance(st.value, ast.Call):
                        call, context = st.value, "return"
                    if call is None and isinstance(st, (ast.Expr, ast.Assign, ast.Return, ast.AugAssign)) and getattr(st, "value", None) is not None:
                        hoisted = _hoist(st, repo, f, new_funcs, resolve_helper, bind_args, caller_names, counter, report, q)
                        if hoisted is not None:
                            out += hoisted
                            changed = True
                            continue
                    elif call is not None:
                        h0, _ = resolve_helper(repo, f, call)
                        if (h0 is None or h0.qname not in new_funcs) and getattr(st, "value", None) is not None:
                            hoisted = _hoist(st, repo, f, new_funcs, resolve_helper, bind_args, caller_names, counter, report, q)
                            if hoisted is not None:
                                out += hoisted
                                changed = True
                                continue
                    if call is not None:
                        h, skip = resolve_helper(repo, f, call)
                        local = h is not None and _is_local_procedure(f.node, h.node)
                        b_special = None
                        if h is not None and (h.qname in new_funcs or local) and h.node is not f.node and h.node.args.vararg is not None:
                            sp = specialise_varargs(repo, h, skip, call, bind_args, counter, caller=f)
                            if sp is not None:
                                h, b_special = sp
                        if h is not None and (h.qname in new_funcs or local) and h.node is not f.node and splicable(h):
                            b = b_special if b_special is not None else bind_args(h, skip, call)
                            b = _bind_receiver(h, skip, call, b, f)
                            if b is not None:
                                counter[0] += 1
                                rep = splice(h, b, context, target, caller_names, f"h{counter[0]}", nonnull=nonnull_names(repo, f))
                                if rep is not None and not import_helper_globals(repo, h, f, rep):
                                    rep = None
                                if rep is not None:
                                    for x in rep:
                                        caller_names.update(_used_names(x))
                                    out += rep
                                    report.setdefault(q, []).append(h.qname)
                                    changed = True
                                    continue
                        # the call itself could not be spliced (star-args, unsupported body): still hoist helper calls nested in it
                        if getattr(st, "value", None) is not None and isinstance(st, (ast.Expr, ast.Assign, ast.Return)):
                            hoisted = _hoist(st, repo, f, new_funcs, resolve_helper, bind_args, caller_names, counter, report, q)
                            if hoisted is not None:
                                out += hoisted
                                changed = True
                                continue
                    out.append(st)
                return out
            f.node.body = rewrite(f.node.body)
        if not changed:
            break
    return report


# --------------------------------------------------------------------------- tuple records -> scalar locals
def record_locals_as_tuples(repo, mod, fnode):
    """a local T that only ever holds None or a construction K(..) of one plain NamedTuple record class, read as T.field / T[i] / `T is None`
    / full unpacking, is rewritten (in a deep copy) to hold the tuple of the arguments, with T.field read as T[index of field]"""
    from .normalize import record_fields
    fnode = copy.deepcopy(fnode)
    assigns = {}
    for n in walk_own(fnode):
        if isinstance(n, ast.Assign) and len(n.targets) == 1 and isinstance(n.targets[0], ast.Name):
            assigns.setdefault(n.targets[0].id, []).append(n)
    changed = False
    for T, defs in assigns.items():
        ctors = [d for d in defs if isinstance(d.value, ast.Call) and isinstance(d.value.func, ast.Name)]
        if not ctors or not all(d in ctors or (isinstance(d.value, ast.Constant) and d.value.value is None) for d in defs):
            continue
        names = {d.value.func.id for d in ctors}
        if len(names) != 1:
            continue
        K = names.pop()
        fields = record_fields(repo, mod, K, allow_methods=True)
        cq = repo.chase(mod, K)
        cn = repo.classes.get(cq) if cq else None
        if fields is None or (cn is not None and not any(U(b) in ("NamedTuple", "typing.NamedTuple") for b in cn.bases)):
            continue
        ok = True
        for d in ctors:
            c = d.value
            if any(isinstance(a, ast.Starred) for a in c.args) or any(k.arg is None for k in c.keywords) or len(c.args) + len(c.keywords) != len(fields):
                ok = False
        if any(isinstance(x, ast.Name) and x.id == T and isinstance(x.ctx, ast.Store) for n in ast.walk(fnode) for x in ([n.target] if isinstance(n, (ast.For, ast.AugAssign)) else [])):
            ok = False
        if not ok:
            continue
        for d in ctors:
            c = d.value
            vals = dict(zip(fields, c.args))
            vals.update({k.arg: k.value for k in c.keywords})
            if set(vals) != set(fields):
                ok = False
                break
            d.value = ast.Tuple(elts=[vals[fl] for fl in fields], ctx=ast.Load())
        if not ok:
            continue

        class RW(ast.NodeTransformer):
            def visit_Attribute(self, n):
                self.generic_visit(n)
                if isinstance(n.value, ast.Name) and n.value.id == T and isinstance(n.ctx, ast.Load) and n.attr in fields:
                    return ast.copy_location(ast.Subscript(value=n.value, slice=ast.Constant(value=fields.index(n.attr)), ctx=ast.Load()), n)
                return n
        fnode = RW().visit(fnode)
        changed = True
    if changed:
        ast.fix_missing_locations(fnode)
    return fnode, changed


def scalarise_tuple_records(fnode):
    """a local T that only ever holds None or an n-tuple display and is only read by full unpacking, constant indexing or a
    None test is replaced by n locals T__0 .. T__{n-1} (returns a transformed deep copy and the list of records rewritten)"""
    fnode = copy.deepcopy(fnode)
    assigns = {}
    for n in walk_own(fnode):
        if isinstance(n, ast.Assign) and len(n.targets) == 1 and isinstance(n.targets[0], ast.Name):
            assigns.setdefault(n.targets[0].id, []).append(n)
    par = {}
    for n in ast.walk(fnode):
        for c in ast.iter_child_nodes(n):
            par[c] = n
    done = []
    for T, defs in assigns.items():
        arities = {len(d.value.elts) for d in defs if isinstance(d.value, ast.Tuple)}
        if len(arities) != 1 or not all(isinstance(d.value, ast.Tuple) or (isinstance(d.value, ast.Constant) and d.value.value is None) for d in defs):
            continue
        n_el = arities.pop()
        loads = [x for x in walk_own(fnode) if isinstance(x, ast.Name) and x.id == T and isinstance(x.ctx, ast.Load)]
        ok = bool(loads)
        for x in loads:
            p_ = par.get(x)
            if isinstance(p_, ast.Compare) and p_.left is x and len(p_.ops) == 1 and isinstance(p_.ops[0], (ast.Is, ast.IsNot)) and U(p_.comparators[0]) == "None":
                continue
            if isinstance(p_, ast.Assign) and p_.value is x and len(p_.targets) == 1 and isinstance(p_.targets[0], ast.Tuple) and len(p_.targets[0].elts) == n_el \
                    and all(isinstance(e, ast.Name) for e in p_.targets[0].elts):
                continue
            if isinstance(p_, ast.Subscript) and p_.value is x and isinstance(p_.slice, ast.Constant) and isinstance(p_.slice.value, int) and 0 <= p_.slice.value < n_el:
                continue
            ok = False
        if not ok:
            continue
        # element used for the None test: one whose in-loop value is refused when None, else the last
        k_none = n_el - 1
        guarded = set()
        for x in walk_own(fnode):
            if isinstance(x, ast.If) and x.body and isinstance(x.body[-1], ast.Raise) and isinstance(x.test, ast.Compare) and len(x.test.ops) == 1 \
                    and isinstance(x.test.ops[0], ast.Is) and U(x.test.comparators[0]) == "None" and isinstance(x.test.left, ast.Name):
                guarded.add(x.test.left.id)
        for d in defs:
            if isinstance(d.value, ast.Tuple):
                for i, e in enumerate(d.value.elts):
                    if isinstance(e, ast.Name) and e.id in guarded:
                        k_none = i

        def nm(i):
            return f"{T}__{i}"

        class RW(ast.NodeTransformer):
            def visit_FunctionDef(self, n):
                if n is fnode:
                    self.generic_visit(n)
                return n

            def _stmts(self, lst):
                out = []
                for st in lst:
                    r = self.visit(st)
                    if isinstance(r, list):
                        out += r
                    elif r is not None:
                        out.append(r)
                return out

            def generic_visit(self, node):
                for fld in ("body", "orelse", "finalbody"):
                    sub = getattr(node, fld, None)
                    if isinstance(sub, list) and sub and isinstance(sub[0], ast.stmt):
                        setattr(node, fld, self._stmts(sub))
                if isinstance(node, ast.Try):
                    for h in node.handlers:
                        h.body = self._stmts(h.body)
                for fld, val in ast.iter_fields(node):
                    if fld in ("body", "orelse", "finalbody", "handlers") and isinstance(val, list) and val and isinstance(val[0], (ast.stmt, ast.ExceptHandler)):
                        continue
                    if isinstance(val, ast.AST):
                        setattr(node, fld, self.visit(val))
                    elif isinstance(val, list):
                        setattr(node, fld, [self.visit(v) if isinstance(v, ast.AST) else v for v in val])
                return node

            def visit_Assign(self, n):
                if len(n.targets) == 1 and isinstance(n.targets[0], ast.Name) and n.targets[0].id == T:
                    if isinstance(n.value, ast.Tuple):
                        return [ast.copy_location(ast.Assign(targets=[ast.Name(id=nm(i), ctx=ast.Store())], value=e, lineno=n.lineno), n) for i, e in enumerate(n.value.elts)]
                    return [ast.copy_location(ast.Assign(targets=[ast.Name(id=nm(i), ctx=ast.Store())], value=ast.Constant(value=None), lineno=n.lineno), n) for i in range(n_el)]
                if isinstance(n.value, ast.Name) and n.value.id == T and isinstance(n.targets[0], ast.Tuple):
                    return [ast.copy_location(ast.Assign(targets=[ast.Name(id=t.id, ctx=ast.Store())], value=ast.Name(id=nm(i), ctx=ast.Load()), lineno=n.lineno), n)
                            for i, t in enumerate(n.targets[0].elts)]
                self.generic_visit(n)
                return n

            def visit_Subscript(self, n):
                if isinstance(n.value, ast.Name) and n.value.id == T and isinstance(n.slice, ast.Constant):
                    return ast.copy_location(ast.Name(id=nm(n.slice.value), ctx=ast.Load()), n)
                self.generic_visit(n)
                return n

            def visit_Name(self, n):
                if n.id == T and isinstance(n.ctx, ast.Load):
                    return ast.copy_location(ast.Name(id=nm(k_none), ctx=ast.Load()), n)
                return n
        RW().visit(fnode)
        ast.fix_missing_locations(fnode)
        done.append(T)
        # parents changed: recompute for the next record
        par = {}
        for n in ast.walk(fnode):
            for c in ast.iter_child_nodes(n):
                par[c] = n
    return fnode, done


def propagate_tail_copies(fnode):
    """`a = x` (x a local name, a defined once, x not assigned afterwards) outside loops: later reads of `a` become reads of x"""
    top = fnode.body
    copies = {}
    counts = {}
    last_assign = {}
    for n in walk_own(fnode):
        tg = []
        if isinstance(n, ast.Assign):
            tg = n.targets
        elif isinstance(n, (ast.AugAssign, ast.AnnAssign, ast.For)):
            tg = [n.target]
        for t in tg:
            for x in ast.walk(t):
                if isinstance(x, ast.Name) and isinstance(x.ctx, ast.Store):
                    counts[x.id] = counts.get(x.id, 0) + 1
                    last_assign[x.id] = max(last_assign.get(x.id, 0), getattr(n, "lineno", 0))
    for i, st in enumerate(top):
        if isinstance(st, ast.Assign) and len(st.targets) == 1 and isinstance(st.targets[0], ast.Name) and isinstance(st.value, ast.Name):
            a, x = st.targets[0].id, st.value.id
            if counts.get(a) == 1 and a != x and last_assign.get(x, 0) <= st.lineno:
                copies[a] = (x, st)
    if not copies:
        return fnode
    keep = []
    for st in top:
        if any(st is c[1] for c in copies.values()):
            continue
        keep.append(_Rename({}, {a: ast.Name(id=x, ctx=ast.Load()) for a, (x, _) in copies.items()}).visit(st))
    fnode.body = keep
    ast.fix_missing_locations(fnode)
    return fnode
