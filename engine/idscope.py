"""E7 - identifier-scope typestate (intra-procedural, flow-sensitive through
reaching definitions).

Integer ids (sample / treatment / plate ids) are meaningful only relative to
the screen object they were read from.  Every (re)binding of a screen-typed
local creates a new *version*; an id value carries the version(s) of the
screen it was derived from.  Comparing or indexing ids of one version against
the id arrays of a different version of the same variable - on some CFG path -
is reported: the screen was re-encoded in between (``to_screen()``,
``combine``, ``Screen(...)`` without mappings), so equal integers no longer
mean equal samples.
"""
import ast
import collections

from .cfg import CFG, defs_of, own_exprs

ID_ATTRS = {"sample_ids", "unique_sample_ids", "treatment_ids", "unique_treatments", "plate_ids",
            "unique_plate_ids", "plate_id"}
VIEW_ATTRS = {"plates"}
VIEW_CALLS = {"get_plate", "subset", "subset_observed", "subset_unobserved"}
REENCODE_CALLS = {"to_screen", "combine", "smooth_plates", "generate_plates", "_smooth_plates", "_generate_plates",
                  "generate_and_unmask_initial_plate", "Screen", "concat", "load_h5", "reveal_plates",
                  "mask_screen", "unmask_screen"}
ID_HELPERS = {"_get_plate_sample_id"}


def _is_reencode(e):
    if not isinstance(e, ast.Call):
        return False
    f = e.func
    return (isinstance(f, ast.Attribute) and f.attr in REENCODE_CALLS) or (isinstance(f, ast.Name) and f.id in REENCODE_CALLS)


def analyse_function(fn):
    """returns (compare/index sites with id provenance, findings).
    finding = (construct text, explanation)"""
    g = CFG(fn)
    IN, OUT = g.reaching_defs()
    screen_vars = set()
    a = fn.args
    for p in a.posonlyargs + a.args + a.kwonlyargs:
        ann = ast.unparse(p.annotation) if p.annotation else ""
        if "Screen" in ann:
            screen_vars.add(p.arg)
    for n in g.nodes:
        if n.kind == "stmt" and isinstance(n.stmt, ast.Assign) and _is_reencode(n.stmt.value):
            for v in defs_of(n.stmt):
                screen_vars.add(v)
    changed = True
    while changed:
        changed = False
        for n in g.nodes:
            if (n.kind == "stmt" and isinstance(n.stmt, ast.Assign) and isinstance(n.stmt.value, ast.Name)
                    and n.stmt.value.id in screen_vars):
                for v in defs_of(n.stmt):
                    if v not in screen_vars:
                        screen_vars.add(v)
                        changed = True
    if not screen_vars:
        return 0, []

    def version(node, var):
        return frozenset(d.id for v, d in IN[node] if v == var)

    taint = collections.defaultdict(set)

    def expr_taint(e, node):
        out = set()
        for sub in ast.walk(e):
            if isinstance(sub, ast.Attribute) and isinstance(sub.value, ast.Name):
                base = sub.value.id
                if base in screen_vars and sub.attr in ID_ATTRS:
                    out.add((base, version(node, base), "id"))
                elif base in screen_vars and sub.attr in VIEW_ATTRS:
                    out.add((base, version(node, base), "view"))
                elif sub.attr in ID_ATTRS:
                    for (sv, ver, k) in taint.get(base, ()):
                        if k == "view":
                            out.add((sv, ver, "id"))
            if isinstance(sub, ast.Call) and isinstance(sub.func, ast.Attribute) and sub.func.attr in ID_HELPERS:
                for arg in sub.args:
                    if isinstance(arg, ast.Name):
                        for (sv, ver, k) in taint.get(arg.id, ()):
                            if k == "view":
                                out.add((sv, ver, "id"))
            if (isinstance(sub, ast.Call) and isinstance(sub.func, ast.Attribute) and sub.func.attr in VIEW_CALLS
                    and isinstance(sub.func.value, ast.Name) and sub.func.value.id in screen_vars):
                b = sub.func.value.id
                out.add((b, version(node, b), "view"))
            if isinstance(sub, ast.Name) and sub.id in taint:
                out |= taint[sub.id]
        return out

    for _ in range(4):
        for n in g.nodes:
            st = n.stmt
            if n.kind == "stmt" and isinstance(st, ast.Assign):
                t = expr_taint(st.value, n)
                for tg in st.targets:
                    if isinstance(tg, ast.Name) and tg.id not in screen_vars:
                        taint[tg.id] |= t
                    if isinstance(tg, ast.Subscript) and isinstance(tg.value, ast.Name):
                        taint[tg.value.id] |= expr_taint(tg.slice, n) | t
            elif (n.kind == "stmt" and isinstance(st, ast.AugAssign) and isinstance(st.target, ast.Subscript)
                  and isinstance(st.target.value, ast.Name)):
                taint[st.target.value.id] |= expr_taint(st.target.slice, n)
            elif n.kind == "loop" and isinstance(st, ast.For):
                t = expr_taint(st.iter, n)
                for v in defs_of(st):
                    if v not in screen_vars:
                        taint[v] |= t
            if st is not None and n.kind in ("stmt", "loop", "test"):
                for root in own_exprs(n):
                    for sub in ast.walk(root):
                        if isinstance(sub, (ast.ListComp, ast.GeneratorExp, ast.SetComp, ast.DictComp)):
                            for gen in sub.generators:
                                t = expr_taint(gen.iter, n)
                                for nm in ast.walk(gen.target):
                                    if isinstance(nm, ast.Name):
                                        taint[nm.id] |= t
    sites = 0
    findings = []
    for n in g.nodes:
        if n.stmt is None or n.kind not in ("stmt", "test", "loop"):
            continue
        for root in own_exprs(n):
            for sub in ast.walk(root):
                if not isinstance(sub, ast.Compare):
                    continue
                sides = [sub.left] + sub.comparators
                for i, x in enumerate(sides):
                    if not (isinstance(x, ast.Attribute) and isinstance(x.value, ast.Name)
                            and x.value.id in screen_vars and x.attr in ID_ATTRS):
                        continue
                    cur = (x.value.id, version(n, x.value.id))
                    for j, y in enumerate(sides):
                        if i == j:
                            continue
                        for (sv, ver, k) in expr_taint(y, n):
                            if k != "id":
                                continue
                            sites += 1
                            if sv == cur[0] and ver != cur[1]:
                                findings.append((" ".join(ast.unparse(sub).split()),
                                                 f"ids read from `{sv}` before it was rebound are compared with "
                                                 f"`{cur[0]}.{x.attr}` of the re-encoded screen "
                                                 f"({len(ver)} vs {len(cur[1])} reaching definition(s) of `{sv}`)"))
    return sites, findings
