"""E6 - freshness / borrowed-mutation analysis.

Abstract value of a local array in one function:
  FRESH     allocated in this frame (np.zeros/ones/array/..., arithmetic / bitwise /
            comparison results, .copy(), .astype(), an *advanced* index gather)
  BORROWED  a parameter, an attribute of some object, or a basic slice / whole alias of one
  UNKNOWN   anything else
A mutation (subscript store, augmented assignment, in-place method, out=) of a
BORROWED value is reported; the join over several definitions is the worst case.
"""
import ast

from .astutil import U, walk_own, call_name

FRESH, BORROWED, UNKNOWN = "FRESH", "BORROWED", "UNKNOWN"

ALIASING_NP = {"np.asarray", "np.ravel", "np.reshape", "np.squeeze", "np.transpose", "np.atleast_1d", "np.atleast_2d",
               "np.broadcast_to", "np.swapaxes", "np.moveaxis", "np.diagonal", "np.asanyarray", "np.expand_dims"}
ALIASING_METHODS = {"ravel", "reshape", "squeeze", "transpose", "view", "swapaxes", "T"}
FRESH_METHODS = {"copy", "astype", "tolist", "flatten", "sum", "mean", "any", "all", "item", "nonzero", "argsort",
                 "cumsum", "cumprod", "max", "min", "round", "clip", "repeat", "take", "compress", "std", "var",
                 "to_numpy", "argmin", "argmax", "dot", "conj", "tobytes", "get", "keys", "values", "items"}
INPLACE_METHODS = {"fill", "sort", "put", "itemset", "resize", "partition", "setfield", "byteswap", "setflags",
                   "append", "extend", "update", "clear", "pop", "remove", "insert", "add", "discard"}
ARRAYISH_DEFS = (ast.Compare,)
# module-level numpy functions that write into their first argument
NP_INPLACE_FUNCS = {"np.put", "np.place", "np.putmask", "np.copyto", "np.fill_diagonal", "np.put_along_axis", "np.random.shuffle"}


MODULE_ALIASES = {"np", "numpy", "pandas", "pd", "scipy", "sp", "math", "itertools", "os", "heapq", "bisect", "copy"}


class Freshness:
    def __init__(self, fn, array_params=None):
        self.fn = fn
        a = fn.args
        self.params = [p.arg for p in a.posonlyargs + a.args + a.kwonlyargs]
        self.defs = {}
        for n in walk_own(fn):
            if isinstance(n, ast.Assign):
                for t in n.targets:
                    self._bind(t, n.value)
            elif isinstance(n, ast.AnnAssign) and n.value is not None:
                self._bind(n.target, n.value)
            elif isinstance(n, (ast.For, ast.AsyncFor)):
                self._bind(n.target, ast.Subscript(value=n.iter, slice=ast.Constant(value=0), ctx=ast.Load()), loopvar=True)
        self._memo = {}

    def _bind(self, t, v, loopvar=False):
        if isinstance(t, ast.Name):
            self.defs.setdefault(t.id, []).append(("loop" if loopvar else "def", v))
        elif isinstance(t, (ast.Tuple, ast.List)):
            for e in t.elts:
                self._bind(e, ast.Call(func=ast.Name(id="<unpack>", ctx=ast.Load()), args=[v], keywords=[]))

    # ------------------------------------------------------------------
    def index_is_advanced(self, sl):
        """True: advanced (gather => copy), False: basic (view), None: unknown"""
        if isinstance(sl, ast.Tuple):
            kinds = [self.index_is_advanced(x) for x in sl.elts]
            if any(k is True for k in kinds):
                return True
            if all(k is False for k in kinds):
                return False
            return None
        if isinstance(sl, ast.Slice):
            return False
        if isinstance(sl, ast.Constant):
            return False      # int / None / Ellipsis: basic
        if isinstance(sl, ast.UnaryOp) and isinstance(sl.op, ast.USub) and isinstance(sl.operand, ast.Constant):
            return False
        if isinstance(sl, (ast.Compare, ast.List, ast.ListComp)):
            return True
        if isinstance(sl, ast.UnaryOp) and isinstance(sl.op, ast.Invert):
            return True
        if isinstance(sl, ast.BinOp) and isinstance(sl.op, (ast.BitAnd, ast.BitOr)):
            return True
        if isinstance(sl, ast.Call):
            nm = call_name(sl)
            if nm in ("np.where", "np.isin", "np.arange", "np.array", "np.nonzero", "np.argsort", "np.diag_indices",
                      "np.unique", "np.flatnonzero", "np.in1d", "np.logical_not", "np.logical_and", "np.logical_or"):
                return True
            return None
        if isinstance(sl, ast.Attribute):
            if sl.attr in ("selection_vector", "observation_mask", "sample_ids", "plate_ids", "treatment_ids"):
                return True
            return None
        if isinstance(sl, ast.Subscript):
            # e.g. np.where(x)[0], data.treatment_ids[:, 0]
            return self.index_is_advanced_value(sl)
        if isinstance(sl, ast.Name):
            if sl.id in self.params:
                ann = None
                a = self.fn.args
                for p in a.posonlyargs + a.args + a.kwonlyargs:
                    if p.arg == sl.id and p.annotation is not None:
                        ann = U(p.annotation)
                if ann and ("ArrayType" in ann or "ndarray" in ann):
                    return True
                if ann in ("int",):
                    return False
                if sl.id in ("selection_vector", "mask", "selection_mask", "treatment_array", "indices", "idx", "ix"):
                    return True
                return None
            ds = self.defs.get(sl.id)
            if not ds:
                return None
            kinds = []
            for kind, v in ds:
                if kind == "loop":
                    kinds.append(self.loop_elem_is_array(v))
                else:
                    kinds.append(self.index_is_advanced_value(v))
            if all(k is True for k in kinds):
                return True
            if all(k is False for k in kinds):
                return False
            return None
        return None

    def loop_elem_is_array(self, v):
        # v is Subscript(iter, 0): element of the iterable; range() / enumerate index -> int -> basic
        it = v.value
        if isinstance(it, ast.Call) and call_name(it) in ("range",):
            return False
        if isinstance(it, ast.Call) and call_name(it) in ("np.array_split",):
            return True
        return None

    def index_is_advanced_value(self, v):
        """is the VALUE v an array (so that using it as an index is advanced indexing)?"""
        if isinstance(v, ast.Constant):
            return False if isinstance(v.value, (int, type(None))) or v.value is Ellipsis else None
        if isinstance(v, (ast.Compare,)):
            return True
        if isinstance(v, ast.UnaryOp) and isinstance(v.op, ast.Invert):
            return True
        if isinstance(v, ast.BinOp) and isinstance(v.op, (ast.BitAnd, ast.BitOr)):
            return True
        if isinstance(v, ast.Call):
            nm = call_name(v)
            if nm and nm.startswith("np.") and nm not in ("np.int64", "np.int32", "np.argmax", "np.argmin", "np.sum", "np.count_nonzero"):
                return True
            if nm and (nm.endswith(".choice") or nm.endswith(".permutation")):
                return True
            if nm in ("len", "int", "range"):
                return False
            if isinstance(v.func, ast.Attribute) and v.func.attr in ("copy", "astype", "flatten", "nonzero", "argsort"):
                return True
            return None
        if isinstance(v, ast.Subscript):
            # np.where(mask)[0] is an array; arr[:, 0] is an array
            if isinstance(v.value, ast.Call) and call_name(v.value) in ("np.where", "np.nonzero"):
                return True
            if isinstance(v.slice, ast.Tuple) or isinstance(v.slice, ast.Slice):
                return True
            return None
        if isinstance(v, ast.Attribute):
            return self.index_is_advanced(v)
        if isinstance(v, ast.Name):
            return self.index_is_advanced(v)
        return None

    def value(self, e, depth=0):
        """abstract value of expression e -> (FRESH|BORROWED|UNKNOWN, root text or None)"""
        if depth > 10:
            return (UNKNOWN, None)
        if isinstance(e, ast.Constant):
            return (FRESH, None)
        if isinstance(e, (ast.BinOp, ast.UnaryOp, ast.Compare, ast.BoolOp, ast.List, ast.Tuple, ast.Dict, ast.Set,
                          ast.ListComp, ast.DictComp, ast.SetComp, ast.GeneratorExp, ast.JoinedStr)):
            return (FRESH, None)
        if isinstance(e, ast.Name):
            if e.id in self.params and e.id not in self.defs:
                return (BORROWED, e.id)
            ds = self.defs.get(e.id)
            if not ds:
                return (UNKNOWN, None)
            if e.id in self._memo:
                return self._memo[e.id]
            self._memo[e.id] = (UNKNOWN, None)
            vals = [self.value(v, depth + 1) for kind, v in ds]
            if e.id in self.params:
                vals.append((BORROWED, e.id))
            out = (FRESH, None)
            for v in vals:
                if v[0] == BORROWED:
                    out = v
                    break
                if v[0] == UNKNOWN:
                    out = v
            self._memo[e.id] = out
            return out
        if isinstance(e, ast.Attribute):
            if e.attr in ALIASING_METHODS:
                return self.value(e.value, depth + 1)
            return (BORROWED, U(e))
        if isinstance(e, ast.Subscript):
            base = self.value(e.value, depth + 1)
            if base[0] == FRESH:
                return base
            adv = self.index_is_advanced(e.slice)
            if adv is True:
                return (FRESH, None)
            if adv is False:
                return base
            return (UNKNOWN, None) if base[0] == UNKNOWN else (UNKNOWN, base[1])
        if isinstance(e, ast.IfExp):
            a, b = self.value(e.body, depth + 1), self.value(e.orelse, depth + 1)
            for v in (a, b):
                if v[0] == BORROWED:
                    return v
            return a if a[0] == UNKNOWN else b
        if isinstance(e, ast.Call):
            nm = call_name(e)
            if nm in ALIASING_NP and e.args:
                return self.value(e.args[0], depth + 1)
            if nm == "np.array" and e.args:
                for k in e.keywords:
                    if k.arg == "copy" and isinstance(k.value, ast.Constant) and k.value.value is False:
                        return self.value(e.args[0], depth + 1)
                return (FRESH, None)
            if nm and (nm.startswith("np.") or nm.startswith("numpy.") or nm.startswith("math.") or nm.startswith("pandas.")):
                return (FRESH, None)
            if nm in ("len", "int", "float", "str", "list", "dict", "set", "tuple", "sorted", "range", "zip", "enumerate",
                      "sum", "min", "max", "abs", "bool", "defaultdict", "reversed"):
                return (FRESH, None)
            if isinstance(e.func, ast.Attribute):
                if e.func.attr in FRESH_METHODS:
                    return (FRESH, None)
                if e.func.attr in ALIASING_METHODS:
                    return self.value(e.func.value, depth + 1)
            return (UNKNOWN, None)
        return (UNKNOWN, None)

    def mutations(self):
        """[(node, target expr, kind)] mutations of array-like locals/attributes in this function"""
        out = []
        for n in walk_own(self.fn):
            if isinstance(n, ast.Assign):
                for t in n.targets:
                    for tt in (t.elts if isinstance(t, (ast.Tuple, ast.List)) else [t]):
                        if isinstance(tt, ast.Subscript):
                            out.append((n, tt.value, "subscript-store"))
            elif isinstance(n, ast.AugAssign):
                t = n.target
                if isinstance(t, ast.Subscript):
                    out.append((n, t.value, "aug-subscript-store"))
                elif isinstance(t, (ast.Name, ast.Attribute)):
                    out.append((n, t, "augmented-assignment"))
            elif isinstance(n, ast.Call):
                if isinstance(n.func, ast.Attribute) and n.func.attr in INPLACE_METHODS and not (isinstance(n.func.value, ast.Name) and n.func.value.id in MODULE_ALIASES):
                    out.append((n, n.func.value, f".{n.func.attr}()"))      # np.append(a, x) / np.insert(..) build new arrays
                for k in n.keywords:
                    if k.arg == "out":
                        out.append((n, k.value, "out="))
                    if k.arg == "copy" and isinstance(k.value, ast.Constant) and k.value.value is False and call_name(n) in ("np.nan_to_num", "numpy.nan_to_num") and n.args:
                        out.append((n, n.args[0], "nan_to_num(copy=False)"))          # replaces the NaNs of its argument in place
                if call_name(n) in NP_INPLACE_FUNCS and n.args:
                    out.append((n, n.args[0], call_name(n) + "()"))
            elif isinstance(n, ast.Delete):
                for t in n.targets:
                    if isinstance(t, ast.Subscript):
                        out.append((n, t.value, "del-subscript"))
        return out
