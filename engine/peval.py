"""A small partial evaluator for table-driven code.

Applied to every function after helper inlining; every step fires only on *constant* structure, which the reviewed
baseline does not contain (checked: no loop or comprehension over a constant iterable at 8dc5ee5), so hand-written code
is analysed as written.

  P1  calls of local closures (a `def` nested in the function, or a lambda bound once to a name) whose body is
      assignments / if-returns are replaced by the returned expression (a conditional expression per path)
  P2  loops and comprehensions over constant iterables are unrolled: literal tuples/lists of constants (or of constant
      tuples), module/class constant tables, zip(CONST, X) (X[i] per row), enumerate(CONST)
  P3  constant folding: "a" + "b", f-strings of constants, comparisons of constants, not / and / or of constants,
      conditional expressions and if statements with a constant test
  P4  dicts with constant string keys held in a local (literal, `d["k"] = v` stores, comprehension over a constant table)
      become one local per key; `f(**d)` gets the explicit keywords
  P5  clean-ups shared with the inliner: merged re-definitions, append sequences -> list display, tuple([..]) -> (..)
"""
import ast
import copy

from .astutil import U, walk_own, path_returns
from .normalize import _table, _const, _Sub, _stored, fold_append_sequences, _Getattr, iteration_locals, names_outside

MAX_ROWS = 32


# --------------------------------------------------------------------------------------------------- P3 folding
def _const_value(e):
    """(True, python value) for constants incl. tuples of constants and negative numbers"""
    if isinstance(e, ast.Constant):
        return True, e.value
    if isinstance(e, ast.UnaryOp) and isinstance(e.op, ast.USub) and isinstance(e.operand, ast.Constant) and isinstance(e.operand.value, (int, float)):
        return True, -e.operand.value
    if isinstance(e, ast.Tuple):
        vals = [_const_value(x) for x in e.elts]
        if all(v[0] for v in vals):
            return True, tuple(v[1] for v in vals)
    return False, None


def _mk_const(v):
    if isinstance(v, tuple):
        return ast.Tuple(elts=[_mk_const(x) for x in v], ctx=ast.Load())
    return ast.Constant(value=v)


def _is_path(e):
    while isinstance(e, ast.Attribute):
        e = e.value
    return isinstance(e, ast.Name)


_OPERATOR_FUNCS = {"operator.add": ast.Add, "operator.mul": ast.Mult, "operator.or_": ast.BitOr, "operator.and_": ast.BitAnd, "operator.sub": ast.Sub,
                   "np.add": ast.Add, "np.multiply": ast.Mult, "np.logical_or": ast.BitOr}


class Fold(ast.NodeTransformer):
    def __init__(self, repo=None, f=None):
        self.changed = False
        self.repo, self.f = repo, f

    def visit_FunctionDef(self, n):
        self.generic_visit(n)
        return n

    def _nonnull(self):
        if getattr(self, "_nn", None) is None:
            from .inliner import _nonnull_expr
            from .astutil import single_defs
            a = self.f.node.args
            params = {p.arg for p in a.posonlyargs + a.args + a.kwonlyargs}
            binds = {}
            for x in walk_own(self.f.node):
                if isinstance(x, ast.Name) and isinstance(x.ctx, (ast.Store, ast.Del)):
                    binds.setdefault(x.id, []).append(x)
            vals = {}
            for x in walk_own(self.f.node):
                if isinstance(x, ast.Assign) and len(x.targets) == 1 and isinstance(x.targets[0], ast.Name):
                    vals[x.targets[0].id] = x.value
            # one binding in the whole function (in-place updates of the object do not make the name None)
            self._nn = {k for k, v in vals.items() if k not in params and len(binds.get(k, [])) == 1 and _nonnull_expr(v)}
            # loop / comprehension variables ranging over np.unique(..), range(..), np.arange(..), np.flatnonzero(..): numbers or numpy scalars
            # (assumption A-nonnull-unique, DESIGN.md 13.4); the name must be bound nowhere else in the function
            allb = {}
            for x in ast.walk(self.f.node):
                if isinstance(x, ast.Name) and isinstance(x.ctx, (ast.Store, ast.Del)):
                    allb[x.id] = allb.get(x.id, 0) + 1
            for x in ast.walk(self.f.node):
                if isinstance(x, (ast.For, ast.comprehension)) and isinstance(x.target, ast.Name) and isinstance(x.iter, ast.Call) \
                        and U(x.iter.func) in ("np.unique", "numpy.unique", "range", "np.arange", "np.flatnonzero") and allb.get(x.target.id) == 1 and x.target.id not in params:
                    self._nn.add(x.target.id)
        return self._nn

    def visit_BinOp(self, n):
        self.generic_visit(n)
        # ["a", "b"] + ["c"]: concatenation of two displays of constants (lists with lists, tuples with tuples)
        if isinstance(n.op, ast.Add) and type(n.left) is type(n.right) and isinstance(n.left, (ast.List, ast.Tuple)) \
                and all(isinstance(x, ast.Constant) for x in n.left.elts + n.right.elts):
            self.changed = True
            return ast.copy_location(type(n.left)(elts=list(n.left.elts) + list(n.right.elts), ctx=ast.Load()), n)
        a, b = _const_value(n.left), _const_value(n.right)
        if a[0] and b[0] and isinstance(n.op, ast.Add) and isinstance(a[1], str) and isinstance(b[1], str):
            self.changed = True
            return ast.copy_location(ast.Constant(value=a[1] + b[1]), n)
        if a[0] and b[0] and isinstance(n.op, ast.Mod) and isinstance(a[1], str) and isinstance(b[1], (str, int, tuple)):
            try:
                v = a[1] % b[1]
            except Exception:
                return n
            self.changed = True
            return ast.copy_location(ast.Constant(value=v), n)
        return n

    def visit_JoinedStr(self, n):
        self.generic_visit(n)
        parts = []
        for v in n.values:
            if isinstance(v, ast.Constant):
                parts.append(str(v.value))
            elif isinstance(v, ast.FormattedValue) and v.conversion == -1 and v.format_spec is None and isinstance(v.value, ast.Constant) and isinstance(v.value.value, (str, int)):
                parts.append(str(v.value.value))
            else:
                return n
        self.changed = True
        return ast.copy_location(ast.Constant(value="".join(parts)), n)

    def _flatten_starred(self, elts):
        """(a, *[x, y], b) -> (a, x, y, b)   for starred list / tuple displays"""
        out, hit = [], False
        for e in elts:
            if isinstance(e, ast.Starred) and isinstance(e.value, (ast.List, ast.Tuple)) and not any(isinstance(x, ast.Starred) for x in e.value.elts):
                out += list(e.value.elts)
                hit = True
            else:
                out.append(e)
        if hit:
            self.changed = True
        return out

    def visit_Tuple(self, n):
        self.generic_visit(n)
        if isinstance(n.ctx, ast.Load):
            n.elts = self._flatten_starred(n.elts)
        return n

    def visit_List(self, n):
        self.generic_visit(n)
        if isinstance(n.ctx, ast.Load):
            n.elts = self._flatten_starred(n.elts)
        return n

    def visit_Call(self, n):
        self.generic_visit(n)
        n.args = self._flatten_starred(n.args)
        # functools.reduce(operator.add, <display or comprehension over a display of at most four items>[, init])  written inside an expression:
        # the left fold spelled out  ((init + e1) + e2) ..   (operator.add / mul / or_ / and_ / sub are the binary operators themselves)
        if U(n.func) in ("functools.reduce", "reduce") and 2 <= len(n.args) <= 3 and not n.keywords and U(n.args[0]) in _OPERATOR_FUNCS:
            it_ = n.args[1]
            items = None
            if isinstance(it_, (ast.Tuple, ast.List)) and 1 <= len(it_.elts) <= 4 and not any(isinstance(x, ast.Starred) for x in it_.elts):
                items = list(it_.elts)
            elif isinstance(it_, (ast.GeneratorExp, ast.ListComp)) and len(it_.generators) == 1 and not it_.generators[0].ifs and isinstance(it_.generators[0].target, ast.Name) \
                    and isinstance(it_.generators[0].iter, (ast.Tuple, ast.List)) and 1 <= len(it_.generators[0].iter.elts) <= 4 \
                    and all(isinstance(x, ast.Name) for x in it_.generators[0].iter.elts):
                x_ = it_.generators[0].target.id
                items = [_Sub({x_: r_}, {}).visit(copy.deepcopy(it_.elt)) for r_ in it_.generators[0].iter.elts]
            if items is not None and (len(n.args) == 3 or len(items) >= 1):
                acc = n.args[2] if len(n.args) == 3 else items.pop(0)
                op_ = _OPERATOR_FUNCS[U(n.args[0])]
                for e_ in items:
                    acc = ast.BinOp(left=acc, op=op_(), right=e_)
                self.changed = True
                return ast.copy_location(acc, n)
        # K(a=x, b=y).m()  with K a plain record and m a method without parameters whose body is one `return E` over self.<field>s
        # ->  E with the fields read from the construction (cheap arguments: names, paths, slices of them)
        if self.repo is not None and isinstance(n.func, ast.Attribute) and not n.args and not n.keywords and isinstance(n.func.value, ast.Call) \
                and isinstance(n.func.value.func, ast.Name):
            from .normalize import record_fields, record_value
            rec = n.func.value
            fl = record_fields(self.repo, self.f.mod, rec.func.id, allow_methods=True)
            cq_ = self.repo.chase(self.f.mod, rec.func.id)
            m_ = self.repo.funcs.get(f"{cq_}.{n.func.attr}") if cq_ else None
            if fl and m_ is not None and m_.params == ["self"] and not m_.node.decorator_list \
                    and all(_cheap(a_) or _const(a_) for a_ in list(rec.args) + [k_.value for k_ in rec.keywords]):
                body_ = [st for st in m_.node.body if not (isinstance(st, ast.Expr) and isinstance(st.value, ast.Constant))]
                if len(body_) == 1 and isinstance(body_[0], ast.Return) and body_[0].value is not None:
                    e_ = copy.deepcopy(body_[0].value)
                    selfs = [x for x in ast.walk(e_) if isinstance(x, ast.Name) and x.id == "self"]
                    attrs = [x for x in ast.walk(e_) if isinstance(x, ast.Attribute) and isinstance(x.value, ast.Name) and x.value.id == "self"]
                    vals_ = {a_.attr: record_value(self.repo, self.f.mod, rec, a_.attr) for a_ in attrs}
                    if len(selfs) == len(attrs) and attrs and all(v_ is not None for v_ in vals_.values()) and (m_.mod == self.f.mod or not any(
                            isinstance(x, ast.Name) and x.id not in ("self", "zip", "len", "list", "tuple", "range", "enumerate", "sum", "min", "max", "sorted") for x in ast.walk(e_))):
                        class _S(ast.NodeTransformer):
                            def visit_Attribute(self, a_):
                                if isinstance(a_.value, ast.Name) and a_.value.id == "self" and a_.attr in vals_:
                                    return copy.deepcopy(vals_[a_.attr])
                                return self.generic_visit(a_)
                        self.changed = True
                        return ast.copy_location(_S().visit(e_), n)
        # f(.., **d)  with d a local bound once to the empty display {} and never stored into: nothing is passed
        if any(k.arg is None and isinstance(k.value, ast.Name) for k in n.keywords) and self.f is not None:
            keep_ = []
            for k in n.keywords:
                if k.arg is None and isinstance(k.value, ast.Name):
                    nm_ = k.value.id
                    defs_ = [x for x in ast.walk(self.f.node) if isinstance(x, ast.Assign) and len(x.targets) == 1 and isinstance(x.targets[0], ast.Name) and x.targets[0].id == nm_]
                    stores_ = sum(1 for x in ast.walk(self.f.node) if isinstance(x, ast.Name) and x.id == nm_ and isinstance(x.ctx, (ast.Store, ast.Del)))
                    touched_ = any((isinstance(x, ast.Subscript) and isinstance(x.ctx, (ast.Store, ast.Del)) and isinstance(x.value, ast.Name) and x.value.id == nm_) or
                                   (isinstance(x, ast.Attribute) and isinstance(x.value, ast.Name) and x.value.id == nm_) for x in ast.walk(self.f.node))
                    a__ = self.f.node.args
                    is_param_ = nm_ in {p_.arg for p_ in a__.posonlyargs + a__.args + a__.kwonlyargs} or (a__.kwarg is not None and a__.kwarg.arg == nm_) or (a__.vararg is not None and a__.vararg.arg == nm_)
                    if len(defs_) == 1 and stores_ == 1 and not touched_ and not is_param_ and isinstance(defs_[0].value, ast.Dict) and not defs_[0].value.keys:
                        self.changed = True
                        continue
                keep_.append(k)
            n.keywords = keep_
        # f(**{"a": x, "b": y})  ->  f(a=x, b=y)     (a display with constant identifier keys, no repeated keyword)
        if any(k.arg is None and isinstance(k.value, ast.Dict) and not k.value.keys for k in n.keywords):
            n.keywords = [k for k in n.keywords if not (k.arg is None and isinstance(k.value, ast.Dict) and not k.value.keys)]
            self.changed = True
        if any(k.arg is None and isinstance(k.value, ast.Dict) for k in n.keywords):
            kws, ok_ = [], True
            for k in n.keywords:
                if k.arg is None and isinstance(k.value, ast.Dict) and k.value.keys and None not in k.value.keys \
                        and all(isinstance(kk, ast.Constant) and isinstance(kk.value, str) and kk.value.isidentifier() for kk in k.value.keys):
                    kws += [ast.keyword(arg=kk.value, value=vv) for kk, vv in zip(k.value.keys, k.value.values)]
                else:
                    kws.append(k)
            names_ = [k.arg for k in kws if k.arg is not None]
            if len(names_) == len(set(names_)) and len(kws) != len(n.keywords) or (len(names_) == len(set(names_)) and any(k.arg is None and isinstance(k.value, ast.Dict) and k.value.keys for k in n.keywords)
                                                                                   and not any(k.arg is None and isinstance(k.value, ast.Dict) for k in kws)):
                n.keywords = kws
                self.changed = True
        if self.repo is not None and isinstance(n.func, ast.Name) and n.func.id[:1].isupper() or (isinstance(n.func, ast.Name) and n.func.id.startswith("_")):
            from .normalize import complete_record_call
            if self.repo is not None and complete_record_call(self.repo, self.f.mod, n):
                self.changed = True
        # any(T(x) for x in [a, b]) / all(..)  over a literal display of names / paths, T a comparison: T(a) or T(b) / T(a) and T(b)
        if isinstance(n.func, ast.Name) and n.func.id in ("any", "all") and len(n.args) == 1 and not n.keywords and isinstance(n.args[0], (ast.GeneratorExp, ast.ListComp)):
            g_ = n.args[0]
            if len(g_.generators) == 1 and not g_.generators[0].ifs and not g_.generators[0].is_async and isinstance(g_.generators[0].target, ast.Name) \
                    and isinstance(g_.generators[0].iter, (ast.List, ast.Tuple)) and 1 <= len(g_.generators[0].iter.elts) <= 4 \
                    and all(_is_path(e_) for e_ in g_.generators[0].iter.elts) \
                    and (isinstance(g_.elt, ast.Compare) or (isinstance(g_.elt, ast.UnaryOp) and isinstance(g_.elt.op, ast.Not))) \
                    and not any(isinstance(x_, (ast.Call, ast.NamedExpr, ast.Await, ast.Yield, ast.Lambda)) for x_ in ast.walk(g_.elt)):
                x_ = g_.generators[0].target.id
                parts = [_Sub({x_: copy.deepcopy(e_)}, {}).visit(copy.deepcopy(g_.elt)) for e_ in g_.generators[0].iter.elts]
                self.changed = True
                new = parts[0] if len(parts) == 1 else ast.BoolOp(op=ast.Or() if n.func.id == "any" else ast.And(), values=parts)
                return self.visit(ast.copy_location(new, n))
        # "{kind}_{field}".format(kind="sample", field="ids") / MODULE_CONSTANT.format(..) with constant arguments
        if isinstance(n.func, ast.Attribute) and n.func.attr == "format" and all(isinstance(a_, ast.Constant) for a_ in n.args) \
                and all(k_.arg is not None and isinstance(k_.value, ast.Constant) for k_ in n.keywords):
            tmpl = n.func.value
            if isinstance(tmpl, ast.Name) and self.repo is not None:
                local_names = getattr(self, "_locals", None)
                if local_names is None:
                    a__ = self.f.node.args
                    local_names = {p_.arg for p_ in a__.posonlyargs + a__.args + a__.kwonlyargs} | {x.id for x in ast.walk(self.f.node) if isinstance(x, ast.Name) and isinstance(x.ctx, ast.Store)}
                    self._locals = local_names
                tmpl = self.repo.const_value(self.f.mod, tmpl.id) if tmpl.id not in local_names else None
            if isinstance(tmpl, ast.Constant) and isinstance(tmpl.value, str):
                try:
                    v_ = tmpl.value.format(*[a_.value for a_ in n.args], **{k_.arg: k_.value.value for k_ in n.keywords})
                except Exception:
                    v_ = None
                if v_ is not None:
                    self.changed = True
                    return ast.copy_location(ast.Constant(value=v_), n)
        # list({"a": x, "b": y}) / tuple(..) / list({..}.keys()): the constant keys in display order ; list(["a", "b"]) a fresh copy
        if isinstance(n.func, ast.Name) and n.func.id in ("list", "tuple") and len(n.args) == 1 and not n.keywords:
            a0 = n.args[0]
            if isinstance(a0, ast.Call) and isinstance(a0.func, ast.Attribute) and a0.func.attr == "keys" and not a0.args and not a0.keywords and isinstance(a0.func.value, ast.Dict):
                a0 = a0.func.value
            cls_ = ast.List if n.func.id == "list" else ast.Tuple
            if isinstance(a0, ast.Dict) and a0.keys and None not in a0.keys and all(isinstance(k, ast.Constant) for k in a0.keys) \
                    and all(isinstance(v, (ast.Constant, ast.Name)) for v in a0.values):
                self.changed = True
                return ast.copy_location(cls_(elts=[copy.deepcopy(k) for k in a0.keys], ctx=ast.Load()), n)
            if isinstance(a0, (ast.List, ast.Tuple)) and all(isinstance(x, ast.Constant) for x in a0.elts):
                self.changed = True
                return ast.copy_location(cls_(elts=[copy.deepcopy(x) for x in a0.elts], ctx=ast.Load()), n)
        # zip(K(a, b), ..) / tuple(K(a, b)) / list(K(a, b)): a NamedTuple construction iterated on the spot is the display of its arguments
        if isinstance(n.func, ast.Name) and n.func.id in ("zip", "tuple", "list", "enumerate"):
            for i_, a_ in enumerate(n.args):
                d_ = self._record_display(a_)
                if d_ is not None:
                    n.args[i_] = d_
                    self.changed = True
        # g(**K(a=x, b=y)._asdict())  with K a plain NamedTuple record of the repository  ->  g(a=x, b=y)
        if self.repo is not None and any(k.arg is None for k in n.keywords):
            from .normalize import record_fields
            kws, hit = [], False
            for k in n.keywords:
                v = k.value
                if k.arg is None and isinstance(v, ast.Call) and isinstance(v.func, ast.Attribute) and v.func.attr == "_asdict" and not v.args and not v.keywords \
                        and isinstance(v.func.value, ast.Call) and isinstance(v.func.value.func, ast.Name):
                    rec = v.func.value
                    fields = record_fields(self.repo, self.f.mod, rec.func.id)
                    if fields is not None and not any(isinstance(a, ast.Starred) for a in rec.args) and all(kk.arg is not None for kk in rec.keywords) \
                            and len(rec.args) + len(rec.keywords) == len(fields):
                        vals = dict(zip(fields, rec.args))
                        vals.update({kk.arg: kk.value for kk in rec.keywords})
                        if set(vals) == set(fields):
                            kws += [ast.keyword(arg=fl, value=vals[fl]) for fl in fields]
                            hit = True
                            continue
                kws.append(k)
            if hit:
                n.keywords = kws
                self.changed = True
        # (lambda a, b: E)(x, y)  ->  E[a := x, b := y]
        if isinstance(n.func, ast.Lambda) and not n.keywords and not any(isinstance(a, ast.Starred) for a in n.args):
            la = n.func.args
            ps = [p.arg for p in la.posonlyargs + la.args]
            if not (la.vararg or la.kwarg or la.kwonlyargs or la.defaults) and len(ps) == len(n.args):
                ok = True
                for p, a in zip(ps, n.args):
                    uses = sum(1 for x in ast.walk(n.func.body) if isinstance(x, ast.Name) and x.id == p)
                    if uses > 1 and not _cheap(a):
                        ok = False
                if ok:
                    self.changed = True
                    return _Sub(dict(zip(ps, n.args)), {}).visit(copy.deepcopy(n.func.body))
        # attrgetter("name")(x) -> x.name ; methodcaller("m", a)(x) -> x.m(a)
        if isinstance(n.func, ast.Call) and U(n.func.func) in ("attrgetter", "operator.attrgetter") and len(n.func.args) == 1 and isinstance(n.func.args[0], ast.Constant) \
                and isinstance(n.func.args[0].value, str) and n.func.args[0].value.isidentifier() and len(n.args) == 1 and not n.keywords:
            self.changed = True
            return ast.copy_location(ast.Attribute(value=n.args[0], attr=n.func.args[0].value, ctx=ast.Load()), n)
        if isinstance(n.func, ast.Call) and U(n.func.func) in ("methodcaller", "operator.methodcaller") and n.func.args and isinstance(n.func.args[0], ast.Constant) \
                and isinstance(n.func.args[0].value, str) and len(n.args) == 1 and not n.keywords:
            self.changed = True
            return ast.copy_location(ast.Call(func=ast.Attribute(value=n.args[0], attr=n.func.args[0].value, ctx=ast.Load()), args=list(n.func.args[1:]), keywords=list(n.func.keywords)), n)
        # "text".endswith("xt") / startswith / upper / lower / strip on constants
        if isinstance(n.func, ast.Attribute) and isinstance(n.func.value, ast.Constant) and isinstance(n.func.value.value, str) and not n.keywords \
                and n.func.attr in ("endswith", "startswith", "upper", "lower", "strip", "replace", "split", "removesuffix", "removeprefix", "isidentifier"):
            vals = [_const_value(a) for a in n.args]
            if all(v[0] for v in vals):
                try:
                    r = getattr(n.func.value.value, n.func.attr)(*[v[1] for v in vals])
                except Exception:
                    return n
                if isinstance(r, (str, bool)):
                    self.changed = True
                    return ast.copy_location(ast.Constant(value=r), n)
        # functools.reduce(OP, [a, b, c][, init]) over a display, OP a binary operator function  ->  ((init OP a) OP b) OP c
        if U(n.func) in ("functools.reduce", "reduce") and 2 <= len(n.args) <= 3 and not n.keywords and isinstance(n.args[1], (ast.List, ast.Tuple)) \
                and not any(isinstance(x, ast.Starred) for x in n.args[1].elts) and 1 <= len(n.args[1].elts) <= 8:
            _OPS = {"operator.add": ast.Add, "operator.sub": ast.Sub, "operator.mul": ast.Mult, "operator.truediv": ast.Div, "operator.matmul": ast.MatMult,
                    "operator.and_": ast.BitAnd, "operator.or_": ast.BitOr, "operator.xor": ast.BitXor, "np.add": ast.Add, "np.multiply": ast.Mult, "np.subtract": ast.Sub,
                    "np.logical_or": ast.BitOr, "np.logical_and": ast.BitAnd}
            opn = U(n.args[0])
            items = list(n.args[1].elts)
            acc = n.args[2] if len(n.args) == 3 else items.pop(0)
            if opn in _OPS and opn not in ("np.logical_or", "np.logical_and"):
                for x in items:
                    acc = ast.BinOp(left=acc, op=_OPS[opn](), right=x)
                self.changed = True
                return ast.copy_location(acc, n)
            if isinstance(n.args[0], ast.Lambda) and len(n.args[0].args.args) == 2 and not (n.args[0].args.vararg or n.args[0].args.kwarg or n.args[0].args.defaults):
                pa, pb = [p_.arg for p_ in n.args[0].args.args]
                body = n.args[0].body
                ua = sum(1 for x in ast.walk(body) if isinstance(x, ast.Name) and x.id == pa)
                ub = sum(1 for x in ast.walk(body) if isinstance(x, ast.Name) and x.id == pb)
                if ua <= 1 and ub <= 1:
                    for x in items:
                        acc = _Sub({pa: acc, pb: x}, {}).visit(copy.deepcopy(body))
                    self.changed = True
                    return ast.copy_location(acc, n)
        # len((a, b, c)) / len([a, b])  of a display without starred items
        if isinstance(n.func, ast.Name) and n.func.id == "len" and len(n.args) == 1 and not n.keywords:
            d_ = n.args[0]
            if isinstance(d_, ast.Name) and self.f is not None:
                d_ = _display_local(self.f, d_.id)
            if isinstance(d_, (ast.List, ast.Tuple)) and not any(isinstance(x, ast.Starred) for x in d_.elts):
                self.changed = True
                return ast.copy_location(ast.Constant(value=len(d_.elts)), n)
        # sum([a, b, c]) -> a + b + c   (0 + a == a for numbers and arrays alike)
        if isinstance(n.func, ast.Name) and n.func.id == "sum" and len(n.args) == 1 and not n.keywords and isinstance(n.args[0], (ast.List, ast.Tuple)) \
                and 1 <= len(n.args[0].elts) <= 8 and not any(isinstance(x, ast.Starred) for x in n.args[0].elts):
            e = n.args[0].elts[0]
            for x in n.args[0].elts[1:]:
                e = ast.BinOp(left=e, op=ast.Add(), right=x)
            self.changed = True
            return ast.copy_location(e, n)
        # "fmt {}".format(const) / str(const)
        if isinstance(n.func, ast.Attribute) and n.func.attr == "format" and isinstance(n.func.value, ast.Constant) and isinstance(n.func.value.value, str) and not n.keywords:
            vals = [_const_value(a) for a in n.args]
            if all(v[0] for v in vals):
                try:
                    s = n.func.value.value.format(*[v[1] for v in vals])
                except Exception:
                    return n
                self.changed = True
                return ast.copy_location(ast.Constant(value=s), n)
        return n

    def visit_Compare(self, n):
        self.generic_visit(n)
        if len(n.ops) != 1:
            return n
        a, b = _const_value(n.left), _const_value(n.comparators[0])
        op = n.ops[0]
        # P is P / P is not P  for a name or a plain data attribute path (no property or method of that name anywhere in the repository)
        if self.repo is not None and isinstance(op, (ast.Is, ast.IsNot)) and U(n.left) == U(n.comparators[0]) and _is_path(n.left):
            attrs = [x_.attr for x_ in ast.walk(n.left) if isinstance(x_, ast.Attribute)]
            if all(not self.repo.methods_named(a_) for a_ in attrs):
                self.changed = True
                return ast.copy_location(ast.Constant(value=isinstance(op, ast.Is)), n)
        # NAME is None / is not None  for a local bound once to a value that cannot be None
        if self.repo is not None and isinstance(op, (ast.Is, ast.IsNot)) and isinstance(n.left, ast.Name) and b[0] and b[1] is None:
            if n.left.id in self._nonnull():
                self.changed = True
                return ast.copy_location(ast.Constant(value=isinstance(op, ast.IsNot)), n)
        if a[0] and not b[0] and isinstance(op, (ast.In, ast.NotIn)) and self.repo is not None and isinstance(n.comparators[0], (ast.Name, ast.Attribute)):
            rows = _table(self.repo, self.f, n.comparators[0])          # membership in a module / class level constant table
            if rows is None and isinstance(n.comparators[0], ast.Name):
                d = _set_display_local(self.f, n.comparators[0].id)      # .. or in a local bound once to a display of constants
                if d is not None:
                    rows = d
            if rows is not None:
                vals = [_const_value(r) for r in rows]
                if all(v[0] for v in vals):
                    b = (True, tuple(v[1] for v in vals))
        if not (a[0] and b[0]):
            return n
        try:
            if isinstance(op, ast.Eq):
                v = a[1] == b[1]
            elif isinstance(op, ast.NotEq):
                v = a[1] != b[1]
            elif isinstance(op, ast.Is):
                v = (a[1] is b[1]) if (a[1] is None or b[1] is None or isinstance(a[1], bool) or isinstance(b[1], bool)) else None
            elif isinstance(op, ast.IsNot):
                v = (a[1] is not b[1]) if (a[1] is None or b[1] is None or isinstance(a[1], bool) or isinstance(b[1], bool)) else None
            elif isinstance(op, (ast.Lt, ast.LtE, ast.Gt, ast.GtE)) and isinstance(a[1], (int, float)) and isinstance(b[1], (int, float)) \
                    and not isinstance(a[1], bool) and not isinstance(b[1], bool):
                v = {ast.Lt: a[1] < b[1], ast.LtE: a[1] <= b[1], ast.Gt: a[1] > b[1], ast.GtE: a[1] >= b[1]}[type(op)]
            elif isinstance(op, ast.In) and isinstance(b[1], (tuple, str)):
                v = a[1] in b[1]
            elif isinstance(op, ast.NotIn) and isinstance(b[1], (tuple, str)):
                v = a[1] not in b[1]
            else:
                v = None
        except Exception:
            v = None
        if v is None:
            return n
        self.changed = True
        return ast.copy_location(ast.Constant(value=bool(v)), n)

    def visit_UnaryOp(self, n):
        self.generic_visit(n)
        if isinstance(n.op, ast.Not) and isinstance(n.operand, ast.Constant) and isinstance(n.operand.value, (bool, type(None), str, int)):
            self.changed = True
            return ast.copy_location(ast.Constant(value=not n.operand.value), n)
        return n

    def visit_BoolOp(self, n):
        self.generic_visit(n)
        vals = []
        for v in n.values:
            if isinstance(v, ast.Constant) and isinstance(v.value, bool):
                # the operands before an absorbing constant are still evaluated: they are dropped only when they are plain tests
                # (comparisons / negations over names, attributes, subscripts and len(..)), whose value is a bool and which have no effect
                plain = all((isinstance(x, ast.Compare) or (isinstance(x, ast.UnaryOp) and isinstance(x.op, ast.Not)))
                            and not any(isinstance(y, (ast.NamedExpr, ast.Await, ast.Yield, ast.YieldFrom, ast.Lambda)) or (isinstance(y, ast.Call) and U(y.func) != "len")
                                        for y in ast.walk(x)) for x in vals)
                if isinstance(n.op, ast.And):
                    if v.value is False:
                        if not vals or plain:
                            self.changed = True
                            return ast.copy_location(ast.Constant(value=False), n)
                        return n
                    self.changed = True
                    continue
                else:
                    if v.value is True:
                        if not vals or plain:
                            self.changed = True
                            return ast.copy_location(ast.Constant(value=True), n)
                        return n
                    self.changed = True
                    continue
            vals.append(v)
        if not vals:
            return ast.copy_location(ast.Constant(value=isinstance(n.op, ast.And)), n)
        if len(vals) == 1:
            return vals[0]
        n.values = vals
        return n

    def _unroll_comprehension(self, n):
        """{K(x): V(x) for x in TABLE if C(x)} / [E(x) for x in TABLE if C(x)]  over a constant table (a module / class level display of constants or
        of constant record constructions, a literal display): the display of the instances, each folded; a filter must fold to a constant"""
        if self.repo is None or len(n.generators) != 1 or n.generators[0].is_async or not isinstance(n.generators[0].target, ast.Name):
            return None
        g = n.generators[0]
        if isinstance(g.iter, ast.Name) and g.iter.id in self._module_names():
            return None
        try:
            rows = _rows(self.repo, self.f, g.iter)
        except Exception:
            rows = None
        if not rows or len(rows) > 24 or any(len(r) != 1 for r in rows):
            return None
        x = g.target.id
        out = []
        for (row,) in rows:
            sub = _Sub({x: row}, {})
            keep = True
            for c in g.ifs:
                t = Fold(self.repo, self.f).visit(sub.visit(copy.deepcopy(c)))
                if isinstance(t, ast.Constant) and isinstance(t.value, bool):
                    keep = keep and t.value
                else:
                    return None
            if not keep:
                continue
            if isinstance(n, ast.DictComp):
                k_ = Fold(self.repo, self.f).visit(sub.visit(copy.deepcopy(n.key)))
                v_ = Fold(self.repo, self.f).visit(sub.visit(copy.deepcopy(n.value)))
                out.append((k_, v_))
            else:
                out.append(Fold(self.repo, self.f).visit(sub.visit(copy.deepcopy(n.elt))))
        if isinstance(n, ast.DictComp):
            if not all(isinstance(k_, ast.Constant) for k_, _ in out) or len({k_.value for k_, _ in out}) != len(out):
                return None
            return ast.Dict(keys=[k_ for k_, _ in out], values=[v_ for _, v_ in out])
        return ast.List(elts=out, ctx=ast.Load())

    def _destructure_zip_rows(self, n):
        """(.. f(*row) .. row[1] .. for row in zip(A, B, C))  ->  (.. f(row__0, row__1, row__2) .. row__1 .. for row__0, row__1, row__2 in zip(A, B, C))
        when the row variable is read only starred into a call or with a constant index"""
        if len(n.generators) != 1:
            return False
        g = n.generators[0]
        if not (isinstance(g.target, ast.Name) and isinstance(g.iter, ast.Call) and isinstance(g.iter.func, ast.Name) and g.iter.func.id == "zip" and not g.iter.keywords
                and 2 <= len(g.iter.args) <= 8 and not any(isinstance(a, ast.Starred) for a in g.iter.args)):
            return False
        x, k = g.target.id, len(g.iter.args)
        parts = ([n.key, n.value] if isinstance(n, ast.DictComp) else [n.elt]) + list(g.ifs)
        par = {}
        for p_ in parts:
            for y in ast.walk(p_):
                for c in ast.iter_child_nodes(y):
                    par[c] = y
        reads = [y for p_ in parts for y in ast.walk(p_) if isinstance(y, ast.Name) and y.id == x]
        if not reads:
            return False
        for y in reads:
            p_ = par.get(y)
            if isinstance(p_, ast.Starred) and isinstance(par.get(p_), ast.Call) and p_ in par[p_].args:
                continue
            if isinstance(p_, ast.Subscript) and p_.value is y and isinstance(p_.slice, ast.Constant) and isinstance(p_.slice.value, int) and 0 <= p_.slice.value < k and isinstance(p_.ctx, ast.Load):
                continue
            return False
        names = [f"{x}__z{i}" for i in range(k)]

        class R(ast.NodeTransformer):
            def visit_Call(self, c):
                self.generic_visit(c)
                args = []
                for a in c.args:
                    if isinstance(a, ast.Starred) and isinstance(a.value, ast.Name) and a.value.id == x:
                        args += [ast.Name(id=nm, ctx=ast.Load()) for nm in names]
                    else:
                        args.append(a)
                c.args = args
                return c

            def visit_Subscript(self, s_):
                self.generic_visit(s_)
                if isinstance(s_.value, ast.Name) and s_.value.id == x and isinstance(s_.slice, ast.Constant):
                    return ast.copy_location(ast.Name(id=names[s_.slice.value], ctx=ast.Load()), s_)
                return s_
        if isinstance(n, ast.DictComp):
            n.key, n.value = R().visit(n.key), R().visit(n.value)
        else:
            n.elt = R().visit(n.elt)
        g.ifs = [R().visit(c) for c in g.ifs]
        g.target = ast.Tuple(elts=[ast.Name(id=nm, ctx=ast.Store()) for nm in names], ctx=ast.Store())
        return True

    def visit_GeneratorExp(self, n):
        self.generic_visit(n)
        if self._destructure_zip_rows(n):
            self.changed = True
        return n

    def visit_ListComp(self, n):
        self.generic_visit(n)
        if self._destructure_zip_rows(n):
            self.changed = True
        # [E(x) for x in (p, ~p)]  over a literal display of one to four names / unary operations on names, E building a plain container
        # (dict(..) / tuple / list / a display) from subscripts and attributes: the display of the instances
        if len(n.generators) == 1 and not n.generators[0].ifs and not n.generators[0].is_async and isinstance(n.generators[0].target, ast.Name) \
                and isinstance(n.generators[0].iter, (ast.Tuple, ast.List)) and 1 <= len(n.generators[0].iter.elts) <= 4 \
                and all(isinstance(r, ast.Name) or (isinstance(r, ast.UnaryOp) and isinstance(r.operand, ast.Name)) for r in n.generators[0].iter.elts) \
                and any(isinstance(r, ast.UnaryOp) for r in n.generators[0].iter.elts) \
                and all(isinstance(c.func, ast.Name) and c.func.id in ("dict", "tuple", "list") and c.func.id not in self._module_names() for c in ast.walk(n.elt) if isinstance(c, ast.Call)) \
                and not any(isinstance(y, (ast.Lambda, ast.ListComp, ast.SetComp, ast.DictComp, ast.GeneratorExp, ast.NamedExpr, ast.Await, ast.Yield, ast.YieldFrom)) for y in ast.walk(n.elt)):
            x = n.generators[0].target.id
            self.changed = True
            return ast.copy_location(ast.List(elts=[_Sub({x: r}, {}).visit(copy.deepcopy(n.elt)) for r in n.generators[0].iter.elts], ctx=ast.Load()), n)
        return n

    def visit_DictComp(self, n):
        self.generic_visit(n)
        if self._destructure_zip_rows(n):
            self.changed = True
        r = self._unroll_comprehension(n)
        if r is not None:
            self.changed = True
            return ast.copy_location(r, n)
        return n

    def visit_IfExp(self, n):
        self.generic_visit(n)
        if isinstance(n.test, ast.Constant) and isinstance(n.test.value, (bool, type(None))):
            self.changed = True
            return n.body if n.test.value else n.orelse
        n.test = self._truth(n.test)
        return n

    def _record_display(self, e):
        """K(a, b, c) with K a NamedTuple record of the repository -> (a, b, c) ; None otherwise"""
        if self.repo is None or not (isinstance(e, ast.Call) and isinstance(e.func, ast.Name)):
            return None
        from .normalize import record_fields
        fields = record_fields(self.repo, self.f.mod, e.func.id, allow_methods=True)
        if fields is None or any(isinstance(a, ast.Starred) for a in e.args) or any(k.arg is None for k in e.keywords) or len(e.args) + len(e.keywords) != len(fields):
            return None
        cq = self.repo.chase(self.f.mod, e.func.id)
        cn = self.repo.classes.get(cq) if cq else None
        if cn is not None and not any(U(b) in ("NamedTuple", "typing.NamedTuple") for b in cn.bases):
            return None         # a dataclass is not iterable
        vals = dict(zip(fields, e.args))
        vals.update({k.arg: k.value for k in e.keywords})
        if set(vals) != set(fields):
            return None
        return ast.Tuple(elts=[vals[fl] for fl in fields], ctx=ast.Load())

    def _module_names(self):
        local_names = getattr(self, "_locals", None)
        if local_names is None:
            a__ = self.f.node.args
            local_names = {p_.arg for p_ in a__.posonlyargs + a__.args + a__.kwonlyargs} | {x.id for x in ast.walk(self.f.node) if isinstance(x, ast.Name) and isinstance(x.ctx, ast.Store)}
            self._locals = local_names
        return local_names

    def visit_Starred(self, n):
        self.generic_visit(n)
        d = self._record_display(n.value)
        if d is not None:
            n.value = d
            self.changed = True
        # *TABLE with TABLE a module-level tuple of string constants (or of names of module-level string constants): the display
        if self.repo is not None and isinstance(n.value, ast.Name) and isinstance(n.ctx, ast.Load) and n.value.id not in self._module_names():
            cv = self.repo.const_value(self.f.mod, n.value.id)
            if isinstance(cv, ast.Tuple) and cv.elts and len(cv.elts) <= 12:
                els = []
                for x in cv.elts:
                    if isinstance(x, ast.Name):
                        x = self.repo.const_value(self.f.mod, x.id)
                    if isinstance(x, ast.Constant) and isinstance(x.value, str):
                        els.append(copy.deepcopy(x))
                    else:
                        els = None
                        break
                if els:
                    n.value = ast.Tuple(elts=els, ctx=ast.Load())
                    self.changed = True
        return n

    def visit_Assign(self, n):
        self.generic_visit(n)
        # first, *rest = TABLE / ("a", "b", "c")   with TABLE a module-level tuple of constants: first = "a"; rest = ["b", "c"]
        if len(n.targets) == 1 and isinstance(n.targets[0], (ast.Tuple, ast.List)) and n.targets[0].elts and isinstance(n.targets[0].elts[-1], ast.Starred) \
                and all(isinstance(t, ast.Name) for t in n.targets[0].elts[:-1]) and isinstance(n.targets[0].elts[-1].value, ast.Name):
            v = n.value
            if self.repo is not None and isinstance(v, ast.Name) and v.id not in self._module_names():
                cv = self.repo.const_value(self.f.mod, v.id)
                if isinstance(cv, (ast.Tuple, ast.List)) and all(isinstance(x, ast.Constant) for x in cv.elts):
                    v = cv
            k = len(n.targets[0].elts) - 1
            if isinstance(v, (ast.Tuple, ast.List)) and len(v.elts) >= k and all(isinstance(x, ast.Constant) for x in v.elts):
                self.changed = True
                out = [ast.copy_location(ast.Assign(targets=[ast.Name(id=t.id, ctx=ast.Store())], value=copy.deepcopy(e)), n) for t, e in zip(n.targets[0].elts[:-1], v.elts)]
                out.append(ast.copy_location(ast.Assign(targets=[ast.Name(id=n.targets[0].elts[-1].value.id, ctx=ast.Store())],
                                                        value=ast.List(elts=[copy.deepcopy(e) for e in v.elts[k:]], ctx=ast.Load())), n))
                return out
        # a, b, c = K(x, y, z)   with K a NamedTuple record: the display of its arguments is unpacked
        if len(n.targets) == 1 and isinstance(n.targets[0], (ast.Tuple, ast.List)) and not any(isinstance(t, ast.Starred) for t in n.targets[0].elts):
            d = self._record_display(n.value)
            if d is not None and len(d.elts) == len(n.targets[0].elts):
                n.value = d
                self.changed = True
        return n

    def _destructure_zip_loop(self, n):
        """for row in zip(A, B, C): .. f(*row) .. row[1] ..   ->   for row__0, row__1, row__2 in zip(A, B, C): .. f(row__0, row__1, row__2) .. row__1 ..
        (row read only starred into a call or with a constant index, never re-bound, not read after the loop)"""
        if not (isinstance(n.target, ast.Name) and isinstance(n.iter, ast.Call) and isinstance(n.iter.func, ast.Name) and n.iter.func.id == "zip" and not n.iter.keywords
                and 2 <= len(n.iter.args) <= 8 and not any(isinstance(a, ast.Starred) for a in n.iter.args)) or n.orelse or self.f is None:
            return False
        x, k = n.target.id, len(n.iter.args)
        inside = {id(y) for b in n.body for y in ast.walk(b)}
        every = [y for y in ast.walk(self.f.node) if isinstance(y, ast.Name) and y.id == x and y is not n.target]
        if not every or any(id(y) not in inside or not isinstance(y.ctx, ast.Load) for y in every):
            return False
        par = {}
        for b in n.body:
            for y in ast.walk(b):
                for c in ast.iter_child_nodes(y):
                    par[c] = y
        for y in every:
            p_ = par.get(y)
            if isinstance(p_, ast.Starred) and isinstance(par.get(p_), ast.Call) and p_ in par[p_].args:
                continue
            if isinstance(p_, ast.Subscript) and p_.value is y and isinstance(p_.slice, ast.Constant) and isinstance(p_.slice.value, int) and 0 <= p_.slice.value < k and isinstance(p_.ctx, ast.Load):
                continue
            return False
        names = [f"{x}__z{i}" for i in range(k)]
        if any(isinstance(y, ast.Name) and y.id in names for y in ast.walk(self.f.node)):
            return False

        class R(ast.NodeTransformer):
            def visit_Call(self, c):
                self.generic_visit(c)
                args = []
                for a in c.args:
                    if isinstance(a, ast.Starred) and isinstance(a.value, ast.Name) and a.value.id == x:
                        args += [ast.Name(id=nm, ctx=ast.Load()) for nm in names]
                    else:
                        args.append(a)
                c.args = args
                return c

            def visit_Subscript(self, s_):
                self.generic_visit(s_)
                if isinstance(s_.value, ast.Name) and s_.value.id == x and isinstance(s_.slice, ast.Constant):
                    return ast.copy_location(ast.Name(id=names[s_.slice.value], ctx=ast.Load()), s_)
                return s_
        n.body = [R().visit(b) for b in n.body]
        n.target = ast.Tuple(elts=[ast.Name(id=nm, ctx=ast.Store()) for nm in names], ctx=ast.Store())
        return True

    def visit_For(self, n):
        self.generic_visit(n)
        if self._destructure_zip_loop(n):
            self.changed = True
        d = self._record_display(n.iter)
        if d is not None:
            n.iter = d
            self.changed = True
        return n

    def _truth(self, e):
        """where only the truth value of e is asked for (the test of an if / while / conditional expression, a comprehension filter, the
        operand of `not`):  False if A else B -> not A and B ;  True if A else B -> A or B ;  B if A else False -> A and B ;
        B if A else True -> not A or B"""
        if isinstance(e, ast.IfExp):
            cb = lambda x: isinstance(x, ast.Constant) and isinstance(x.value, bool)
            A, B_, C_ = e.test, e.body, e.orelse
            neg = lambda x: ast.UnaryOp(op=ast.Not(), operand=x)
            out = None
            if cb(B_) and not cb(C_):
                out = ast.BoolOp(op=ast.Or(), values=[A, self._truth(C_)]) if B_.value else ast.BoolOp(op=ast.And(), values=[neg(A), self._truth(C_)])
            elif cb(C_) and not cb(B_):
                out = ast.BoolOp(op=ast.Or(), values=[neg(A), self._truth(B_)]) if C_.value else ast.BoolOp(op=ast.And(), values=[A, self._truth(B_)])
            if out is not None:
                self.changed = True
                return ast.copy_location(out, e)
        return e

    def visit_If(self, n):
        self.generic_visit(n)
        n.test = self._truth(n.test)
        return n

    def visit_While(self, n):
        self.generic_visit(n)
        n.test = self._truth(n.test)
        return n

    def visit_comprehension(self, n):
        self.generic_visit(n)
        n.ifs = [self._truth(t) for t in n.ifs]
        d = self._record_display(n.iter)
        if d is not None:
            n.iter = d
            self.changed = True
        return n

    def visit_Attribute(self, n):
        self.generic_visit(n)
        # K._fields  with K a NamedTuple record class of the repository  ->  the tuple of its field names
        if self.repo is not None and isinstance(n.ctx, ast.Load) and n.attr == "_fields" and isinstance(n.value, ast.Name) and n.value.id not in self._module_names():
            from .normalize import record_fields
            fl = record_fields(self.repo, self.f.mod, n.value.id)
            cq_ = self.repo.chase(self.f.mod, n.value.id)
            cn_ = self.repo.classes.get(cq_) if cq_ else None
            if fl and cn_ is not None and any(U(b) in ("NamedTuple", "typing.NamedTuple") for b in cn_.bases):
                self.changed = True
                return ast.copy_location(ast.Tuple(elts=[ast.Constant(value=x) for x in fl], ctx=ast.Load()), n)
        # K(a, b, c).field  with K a plain record class of the repository  ->  the argument bound to the field
        if self.repo is not None and isinstance(n.ctx, ast.Load) and isinstance(n.value, ast.Call) and isinstance(n.value.func, ast.Name):
            from .normalize import record_value
            v = record_value(self.repo, self.f.mod, n.value, n.attr)
            if v is not None and all(_cheap(a) or _const(a) for a in list(n.value.args) + [k.value for k in n.value.keywords]):
                self.changed = True
                return copy.deepcopy(v)
        # K(a, b, c).field / K(a, b, c).prop  on a construction written in place, K a plain record, the arguments names / paths / element reads:
        # the field's argument, or the one-expression @property body over the fields (the construction has no other use)
        if self.repo is not None and isinstance(n.ctx, ast.Load) and isinstance(n.value, ast.Call) and isinstance(n.value.func, ast.Name) \
                and not any(isinstance(a_, ast.Starred) for a_ in n.value.args) and all(k_.arg is not None for k_ in n.value.keywords):
            from .normalize import record_fields, record_value
            rec = n.value
            fl = record_fields(self.repo, self.f.mod, rec.func.id, allow_methods=True)
            if fl and all(_cheap(a_) or _const(a_) for a_ in list(rec.args) + [k_.value for k_ in rec.keywords]):
                if n.attr in fl:
                    v_ = record_value(self.repo, self.f.mod, rec, n.attr)
                    if v_ is not None:
                        self.changed = True
                        return copy.deepcopy(v_)
                cq_ = self.repo.chase(self.f.mod, rec.func.id)
                m_ = self.repo.funcs.get(f"{cq_}.{n.attr}") if cq_ else None
                if m_ is not None and m_.is_property and m_.params == ["self"]:
                    body_ = [st for st in m_.node.body if not (isinstance(st, ast.Expr) and isinstance(st.value, ast.Constant))]
                    if len(body_) == 1 and isinstance(body_[0], ast.Return) and body_[0].value is not None:
                        e_ = copy.deepcopy(body_[0].value)
                        selfs = [x for x in ast.walk(e_) if isinstance(x, ast.Name) and x.id == "self"]
                        attrs = [x for x in ast.walk(e_) if isinstance(x, ast.Attribute) and isinstance(x.value, ast.Name) and x.value.id == "self"]
                        vals_ = {a_.attr: record_value(self.repo, self.f.mod, rec, a_.attr) for a_ in attrs}
                        if len(selfs) == len(attrs) and attrs and all(v_ is not None for v_ in vals_.values()) \
                                and not any(isinstance(x, (ast.Call, ast.Lambda, ast.Yield, ast.Await)) for x in ast.walk(e_)):
                            class _S2(ast.NodeTransformer):
                                def visit_Attribute(self, a_):
                                    if isinstance(a_.value, ast.Name) and a_.value.id == "self" and a_.attr in vals_:
                                        return copy.deepcopy(vals_[a_.attr])
                                    return self.generic_visit(a_)
                            self.changed = True
                            return ast.copy_location(_S2().visit(e_), n)
        # NAME.field  with NAME a module-level constant bound to a record construction of constants (a table entry with a name of its own)
        if self.repo is not None and isinstance(n.ctx, ast.Load) and isinstance(n.value, ast.Name):
            local_names = getattr(self, "_locals", None)
            if local_names is None:
                a_ = self.f.node.args
                local_names = {p.arg for p in a_.posonlyargs + a_.args + a_.kwonlyargs} | {x.id for x in ast.walk(self.f.node) if isinstance(x, ast.Name) and isinstance(x.ctx, ast.Store)}
                self._locals = local_names
            if n.value.id not in local_names:
                cv = self.repo.const_value(self.f.mod, n.value.id)
                if isinstance(cv, ast.Call) and isinstance(cv.func, ast.Name):
                    from .normalize import record_value
                    v = record_value(self.repo, self.f.mod, cv, n.attr)
                    if v is not None and _const(v):
                        self.changed = True
                        return copy.deepcopy(v)
        return n

    def _module_string(self, e):
        """the string a Name denotes when it is a module-level string constant (of this module or imported), not shadowed locally"""
        if self.repo is None or not isinstance(e, ast.Name) or e.id in self._module_names():
            return None
        cv = self.repo.const_value(self.f.mod, e.id)
        return cv if isinstance(cv, ast.Constant) and isinstance(cv.value, str) else None

    def visit_Subscript(self, n):
        self.generic_visit(n)
        # P[a:][k] is P[a + k] ; P[a:][b:] is P[a + b:]     (a, b, k non-negative integer constants: the same element / the same tail)
        if isinstance(n.value, ast.Subscript) and isinstance(n.value.slice, ast.Slice) and n.value.slice.upper is None and n.value.slice.step is None \
                and isinstance(n.value.slice.lower, ast.Constant) and isinstance(n.value.slice.lower.value, int) and n.value.slice.lower.value >= 0 and isinstance(n.ctx, ast.Load):
            a_ = n.value.slice.lower.value
            if isinstance(n.slice, ast.Constant) and isinstance(n.slice.value, int) and not isinstance(n.slice.value, bool) and n.slice.value >= 0:
                self.changed = True
                return ast.copy_location(ast.Subscript(value=n.value.value, slice=ast.Constant(value=a_ + n.slice.value), ctx=ast.Load()), n)
            if isinstance(n.slice, ast.Slice) and n.slice.upper is None and n.slice.step is None and isinstance(n.slice.lower, ast.Constant) and isinstance(n.slice.lower.value, int) \
                    and n.slice.lower.value >= 0:
                self.changed = True
                return ast.copy_location(ast.Subscript(value=n.value.value, slice=ast.Slice(lower=ast.Constant(value=a_ + n.slice.lower.value), upper=None, step=None), ctx=ast.Load()), n)
        # X[KEY_NAME] with KEY_NAME a module-level string constant: the key itself
        if isinstance(n.slice, ast.Name):
            ms = self._module_string(n.slice)
            if ms is not None and getattr(self, "_fold_keys", False):
                n.slice = copy.deepcopy(ms)
                self.changed = True
        # TABLE["key"] with TABLE a module / class level dict display of constants, closed lambdas or accessors
        if self.repo is not None and isinstance(n.ctx, ast.Load) and isinstance(n.slice, ast.Constant) and isinstance(n.value, (ast.Name, ast.Attribute)):
            d = _const_dict(self.repo, self.f, n.value)
            if d is not None:
                for k, v in zip(d.keys, d.values):
                    if isinstance(k, ast.Constant) and k.value == n.slice.value:
                        self.changed = True
                        return copy.deepcopy(v)
        # [a, b, c][1:] / (a, b, c)[:2] with constant bounds: the sub-display ; [a, b][0] like the tuple case below
        if isinstance(n.value, (ast.List, ast.Tuple)) and isinstance(n.ctx, ast.Load) and not any(isinstance(x, ast.Starred) for x in n.value.elts) \
                and all(_cheap(x) or _const(x) for x in n.value.elts):
            sl = n.slice
            if isinstance(sl, ast.Slice) and all(b_ is None or (isinstance(b_, ast.Constant) and isinstance(b_.value, int)) for b_ in (sl.lower, sl.upper, sl.step)):
                lo, hi, stp = [None if b_ is None else b_.value for b_ in (sl.lower, sl.upper, sl.step)]
                if stp != 0:
                    self.changed = True
                    return ast.copy_location(type(n.value)(elts=list(n.value.elts)[slice(lo, hi, stp)], ctx=ast.Load()), n)
            if isinstance(n.value, ast.List) and isinstance(sl, ast.Constant) and isinstance(sl.value, int) and not isinstance(sl.value, bool) \
                    and -len(n.value.elts) <= sl.value < len(n.value.elts):
                self.changed = True
                return n.value.elts[sl.value]
        # (a, b, c)[1] with a constant index
        if isinstance(n.value, ast.Tuple) and isinstance(n.slice, ast.Constant) and isinstance(n.slice.value, int) and isinstance(n.ctx, ast.Load) \
                and -len(n.value.elts) <= n.slice.value < len(n.value.elts) and not any(isinstance(x, ast.Starred) for x in n.value.elts):
            self.changed = True
            return n.value.elts[n.slice.value]
        return n


def _const_dict(repo, f, e):
    """the module / class level dict display (constant keys, constant-like values) an expression names, or None"""
    v = None
    if isinstance(e, ast.Name):
        v = repo.const_value(f.mod, e.id)
    elif isinstance(e, ast.Attribute) and isinstance(e.value, ast.Name):
        base = e.value.id
        cq = f"{f.mod}.{f.cls}" if base in ("self", "cls") and f.cls else (repo.chase(f.mod, base) if repo.chase(f.mod, base) in repo.classes else None)
        if cq:
            for k in repo.mro(cq):
                cn = repo.classes.get(k)
                if cn is None:
                    continue
                for st in cn.body:
                    if isinstance(st, ast.Assign) and len(st.targets) == 1 and isinstance(st.targets[0], ast.Name) and st.targets[0].id == e.attr:
                        v = st.value
                if v is not None:
                    break
    if isinstance(v, ast.Dict) and v.keys and None not in v.keys and all(isinstance(k, ast.Constant) for k in v.keys) and all(_const(x) for x in v.values):
        return v
    return None


def fold_if_statements(stmts):
    """if <constant>: A else: B -> A or B (recursively); returns (statements, changed)"""
    changed = False
    out = []
    for st in stmts:
        for fld in ("body", "orelse", "finalbody"):
            sub = getattr(st, fld, None)
            if isinstance(sub, list) and sub and isinstance(sub[0], ast.stmt) and not isinstance(st, (ast.FunctionDef, ast.ClassDef)):
                new, ch = fold_if_statements(sub)
                setattr(st, fld, new)
                changed = changed or ch
        if isinstance(st, ast.If) and isinstance(st.test, ast.Constant) and isinstance(st.test.value, (bool, type(None))):
            out += st.body if st.test.value else st.orelse
            changed = True
            continue
        out.append(st)
    return out, changed


_CAPTURED = set()          # names read inside nested functions / lambdas of the function being specialised: their definitions stay


def captured_names(fnode):
    out = set()
    for n in ast.walk(fnode):
        if isinstance(n, (ast.FunctionDef, ast.AsyncFunctionDef, ast.Lambda)) and n is not fnode:
            for x in ast.walk(n):
                if isinstance(x, ast.Name):
                    out.add(x.id)
    return out


def propagate_constant_locals(fnode):
    """a local bound exactly once to a constant (str / int / bool / None) is replaced by the constant where it is read"""
    counts = {}
    vals = {}
    for n in walk_own(fnode):
        tg = []
        if isinstance(n, ast.Assign):
            tg = n.targets
        elif isinstance(n, (ast.AugAssign, ast.AnnAssign, ast.For)):
            tg = [n.target]
        elif isinstance(n, (ast.With,)):
            tg = [i.optional_vars for i in n.items if i.optional_vars is not None]
        elif isinstance(n, ast.comprehension):
            tg = [n.target]
        for t in tg:
            for x in ast.walk(t):
                if isinstance(x, ast.Name) and isinstance(x.ctx, ast.Store):
                    counts[x.id] = counts.get(x.id, 0) + 1
        if isinstance(n, ast.Assign) and len(n.targets) == 1 and isinstance(n.targets[0], ast.Name) and isinstance(n.value, ast.Constant) \
                and isinstance(n.value.value, (str, int, bool, type(None))) and not isinstance(n.value.value, float):
            vals[n.targets[0].id] = n
    a = fnode.args
    params = {p.arg for p in a.posonlyargs + a.args + a.kwonlyargs}
    use = {k: v for k, v in vals.items() if counts.get(k) == 1 and k not in params and v.value.value is not None and k not in _CAPTURED}
    if not use:
        return False
    # the definition must come first in source order (straight-line splices guarantee it; loops could read it earlier)
    class P(ast.NodeTransformer):
        def visit_FunctionDef(self, n):
            if n is fnode:
                self.generic_visit(n)
            return n

        def visit_Name(self, n):
            if n.id in use and isinstance(n.ctx, ast.Load):
                return ast.copy_location(ast.Constant(value=use[n.id].value.value), n)
            return n
    P().visit(fnode)

    def strip(stmts):
        out = []
        for st in stmts:
            if any(st is v for v in use.values()):
                continue
            for fld in ("body", "orelse", "finalbody"):
                sub = getattr(st, fld, None)
                if isinstance(sub, list) and sub and isinstance(sub[0], ast.stmt) and not isinstance(st, (ast.FunctionDef, ast.ClassDef)):
                    new = strip(sub)
                    setattr(st, fld, new or ([ast.Pass()] if fld == "body" else []))
            out.append(st)
        return out
    fnode.body = strip(fnode.body)
    return True


def propagate_constants_straightline(fnode):
    """x = "const"  ...  uses of x  ...  x = "other"  ...   in one statement list: the reads between two bindings see the constant of the
    first (a local re-bound several times, as left behind by unrolling a loop whose body names its own constant).  A compound statement
    that re-binds x anywhere inside ends the knowledge without being rewritten; closures are not touched."""
    if any(isinstance(n, (ast.Global, ast.Nonlocal)) for n in ast.walk(fnode)):
        return False
    changed = False

    def stores(node):
        out = set()
        for x in ast.walk(node):
            if isinstance(x, ast.Name) and isinstance(x.ctx, (ast.Store, ast.Del)):
                out.add(x.id)
            elif isinstance(x, (ast.FunctionDef, ast.ClassDef)) and x is not node:
                out.add(x.name)
        return out

    class S(ast.NodeTransformer):
        def __init__(self, known):
            self.known = known
            self.hit = False

        def visit_FunctionDef(self, n):
            return n

        def visit_Lambda(self, n):
            return n

        def visit_Name(self, n):
            if isinstance(n.ctx, ast.Load) and n.id in self.known:
                self.hit = True
                return ast.copy_location(ast.Constant(value=self.known[n.id]), n)
            return n

    def block(stmts, known):
        nonlocal changed
        known = dict(known)
        for i, st in enumerate(stmts):
            if isinstance(st, (ast.FunctionDef, ast.AsyncFunctionDef, ast.ClassDef)):
                for k in stores(st):
                    known.pop(k, None)
                continue
            stored = stores(st)
            if isinstance(st, (ast.Assign, ast.AugAssign, ast.AnnAssign, ast.Expr, ast.Return, ast.Raise, ast.Assert, ast.Delete)):
                if known and getattr(st, "value", None) is not None or isinstance(st, (ast.Raise, ast.Assert)):
                    tr = S({k: v for k, v in known.items()})
                    if isinstance(st, (ast.Assign, ast.AnnAssign, ast.Expr, ast.Return)) and st.value is not None:
                        st.value = tr.visit(st.value)
                    elif isinstance(st, ast.AugAssign):
                        st.value = tr.visit(st.value)
                    elif isinstance(st, ast.Raise) and st.exc is not None:
                        st.exc = tr.visit(st.exc)
                    if isinstance(st, ast.Assign):
                        # subscripts / attributes in targets read their parts
                        for j, t in enumerate(st.targets):
                            if not isinstance(t, ast.Name):
                                st.targets[j] = tr.visit(t)
                    changed = changed or tr.hit
                for k in stored:
                    known.pop(k, None)
                if isinstance(st, ast.Assign) and len(st.targets) == 1 and isinstance(st.targets[0], ast.Name) and isinstance(st.value, ast.Constant) \
                        and isinstance(st.value.value, (str, int, bool)) and not isinstance(st.value.value, float):
                    known[st.targets[0].id] = st.value.value
                continue
            # compound statement
            inner = {k: v for k, v in known.items() if k not in stored}
            if isinstance(st, ast.If):
                tr = S(inner)
                st.test = tr.visit(st.test)
                changed = changed or tr.hit
                block(st.body, inner)
                block(st.orelse, inner)
            elif isinstance(st, (ast.For, ast.AsyncFor)):
                tr = S(inner)
                st.iter = tr.visit(st.iter)
                changed = changed or tr.hit
                block(st.body, inner)
                block(st.orelse, inner)
            elif isinstance(st, ast.While):
                tr = S(inner)
                st.test = tr.visit(st.test)
                changed = changed or tr.hit
                block(st.body, inner)
                block(st.orelse, inner)
            elif isinstance(st, (ast.With, ast.AsyncWith)):
                for it in st.items:
                    tr = S(inner)
                    it.context_expr = tr.visit(it.context_expr)
                    changed = changed or tr.hit
                block(st.body, inner)
            elif isinstance(st, ast.Try):
                block(st.body, inner)
                for h in st.handlers:
                    block(h.body, {})
                block(st.orelse, {})
                block(st.finalbody, {})
            for k in stored:
                known.pop(k, None)
    block(fnode.body, {})
    if changed:
        ast.fix_missing_locations(fnode)
    return changed


def sink_callable_uses_into_arms(fnode, counter):
    """if c: v = <callable A> else: v = <callable B>   followed by statements that call v(..)
    ->  the statements up to the last mention of v are moved into both arms (and v gets a name of its own per arm), so that each arm's
    calls can be resolved to its own callable.  Exclusive arms, the moved statements ran right after them: plain code motion."""
    changed = False
    dcount = {}
    for n in ast.walk(fnode):
        if isinstance(n, ast.FunctionDef) and n is not fnode:
            dcount[n.name] = dcount.get(n.name, 0) + 1

    def callable_value(v):
        return isinstance(v, ast.Lambda) or (isinstance(v, ast.Name) and dcount.get(v.id) == 1)

    def rewrite(stmts):
        nonlocal changed
        for fld_owner in stmts:
            for fld in ("body", "orelse", "finalbody"):
                sub = getattr(fld_owner, fld, None)
                if isinstance(sub, list) and sub and isinstance(sub[0], ast.stmt) and not isinstance(fld_owner, (ast.FunctionDef, ast.AsyncFunctionDef, ast.ClassDef)):
                    setattr(fld_owner, fld, rewrite(sub))
        for i, st in enumerate(stmts):
            if not (isinstance(st, ast.If) and st.orelse) or i + 1 >= len(stmts):
                continue
            arms = [st.body, st.orelse]
            if len(st.orelse) == 1 and isinstance(st.orelse[0], ast.If):
                continue            # elif chains: keep it simple
            if any(a and isinstance(a[-1], (ast.Return, ast.Raise, ast.Continue, ast.Break)) for a in arms):
                continue
            cands = None
            for a in arms:
                here = {}
                for x in a:
                    if isinstance(x, ast.Assign) and len(x.targets) == 1 and isinstance(x.targets[0], ast.Name):
                        here[x.targets[0].id] = x
                ok = {k for k, x in here.items() if callable_value(x.value)}
                cands = ok if cands is None else cands & ok
            for v in sorted(cands or ()):
                # v is bound nowhere else, and read only after this statement
                binds = [x for x in ast.walk(fnode) if isinstance(x, ast.Name) and x.id == v and isinstance(x.ctx, (ast.Store, ast.Del))]
                if len(binds) != 2:
                    continue
                tail = stmts[i + 1:]
                last = max((j for j, t in enumerate(tail) if any(isinstance(x, ast.Name) and x.id == v for x in ast.walk(t))), default=None)
                if last is None:
                    continue
                inside = {id(x) for t in [st] + tail for x in ast.walk(t)}
                if any(isinstance(x, ast.Name) and x.id == v and id(x) not in inside for x in ast.walk(fnode)):
                    continue
                region = tail[:last + 1]
                if any(isinstance(x, (ast.Return, ast.Break, ast.Continue)) for t in region for x in ast.walk(t) if not isinstance(t, (ast.For, ast.While)) or isinstance(x, ast.Return)):
                    continue
                loads = [x for t in region for x in ast.walk(t) if isinstance(x, ast.Name) and x.id == v]
                par = {}
                for t in region:
                    for n in ast.walk(t):
                        for c in ast.iter_child_nodes(n):
                            par[c] = n
                if not all(isinstance(par.get(x), ast.Call) and par[x].func is x for x in loads):
                    continue
                for k, a in enumerate(arms):
                    nm = f"{v}__a{counter[0]}_{k}"
                    ren = _Sub({}, {v: nm})
                    for j, x in enumerate(a):
                        a[j] = ren.visit(x)
                    a.extend(ren.visit(copy.deepcopy(t)) for t in region)
                counter[0] += 1
                changed = True
                return stmts[:i + 1] + tail[last + 1:]
        return stmts
    for _ in range(4):
        before = changed
        changed = False
        fnode.body = rewrite(fnode.body)
        if not changed:
            changed = before
            break
        changed = True
    if changed:
        ast.fix_missing_locations(fnode)
    return changed


def propagate_callable_locals(fnode):
    """m = obj.method (bound once, obj a cheap path or a call result read once) and every use is a call m(...)  ->  obj.method(...)"""
    counts = {}
    defs = {}
    dcount = {}
    for n in ast.walk(fnode):
        if isinstance(n, ast.FunctionDef) and n is not fnode:
            dcount[n.name] = dcount.get(n.name, 0) + 1
    stores = {}
    for n in ast.walk(fnode):
        if isinstance(n, ast.Name) and isinstance(n.ctx, (ast.Store, ast.Del)):
            stores[n.id] = stores.get(n.id, 0) + 1
    local_defs = {k for k, c in dcount.items() if c == 1 and not stores.get(k)}
    for n in walk_own(fnode):
        if isinstance(n, ast.Assign):
            for t in n.targets:
                for x in ast.walk(t):
                    if isinstance(x, ast.Name) and isinstance(x.ctx, ast.Store):
                        counts[x.id] = counts.get(x.id, 0) + 1
            if len(n.targets) == 1 and isinstance(n.targets[0], ast.Name) and isinstance(n.value, ast.Attribute):
                defs[n.targets[0].id] = n
            # g = f  with f a local function defined once: calls of g are calls of f
            if len(n.targets) == 1 and isinstance(n.targets[0], ast.Name) and isinstance(n.value, ast.Name) and n.value.id in local_defs and n.value.id != n.targets[0].id:
                defs[n.targets[0].id] = n
        elif isinstance(n, (ast.AugAssign, ast.For, ast.AnnAssign)):
            for x in ast.walk(n.target):
                if isinstance(x, ast.Name):
                    counts[x.id] = counts.get(x.id, 0) + 1
    par = {}
    for n in ast.walk(fnode):
        for c in ast.iter_child_nodes(n):
            par[c] = n
    use = {}
    for nm, d in defs.items():
        if counts.get(nm) != 1 or nm in _CAPTURED:
            continue
        loads = [x for x in walk_own(fnode) if isinstance(x, ast.Name) and x.id == nm and isinstance(x.ctx, ast.Load)]
        if loads and all(isinstance(par.get(x), ast.Call) and par[x].func is x for x in loads) and (len(loads) == 1 or _cheap(d.value)):
            use[nm] = d
    if not use:
        return False

    class P(ast.NodeTransformer):
        def visit_FunctionDef(self, n):
            if n is fnode:
                self.generic_visit(n)
            return n

        def visit_Call(self, n):
            self.generic_visit(n)
            if isinstance(n.func, ast.Name) and n.func.id in use:
                n.func = copy.deepcopy(use[n.func.id].value)
            return n
    P().visit(fnode)

    def strip(stmts):
        out = []
        for st in stmts:
            if any(st is v for v in use.values()):
                continue
            for fld in ("body", "orelse", "finalbody"):
                sub = getattr(st, fld, None)
                if isinstance(sub, list) and sub and isinstance(sub[0], ast.stmt) and not isinstance(st, (ast.FunctionDef, ast.ClassDef)):
                    new = strip(sub)
                    setattr(st, fld, new or ([ast.Pass()] if fld == "body" else []))
            out.append(st)
        return out
    fnode.body = strip(fnode.body)
    return True


def propagate_slice_locals(fnode):
    """s = slice(a, b) used only as a subscript in the statements right after its definition  ->  x[a:b]"""
    changed = False

    def rewrite(stmts):
        nonlocal changed
        out = []
        i = 0
        while i < len(stmts):
            st = stmts[i]
            for fld in ("body", "orelse", "finalbody"):
                sub = getattr(st, fld, None)
                if isinstance(sub, list) and sub and isinstance(sub[0], ast.stmt) and not isinstance(st, (ast.FunctionDef, ast.ClassDef)):
                    setattr(st, fld, rewrite(sub))
            if isinstance(st, ast.Assign) and len(st.targets) == 1 and isinstance(st.targets[0], ast.Name) and isinstance(st.value, ast.Call) and U(st.value.func) == "slice" \
                    and 1 <= len(st.value.args) <= 3 and not st.value.keywords:
                nm = st.targets[0].id
                a = st.value.args
                sl = ast.Slice(lower=None if len(a) == 1 else (None if U(a[0]) == "None" else a[0]), upper=(a[0] if len(a) == 1 else (None if U(a[1]) == "None" else a[1])),
                               step=(a[2] if len(a) == 3 and U(a[2]) != "None" else None))
                # every use in the function must be `X[nm]`, and all of them in the statements directly following
                uses = [x for x in walk_own(fnode) if isinstance(x, ast.Name) and x.id == nm and isinstance(x.ctx, ast.Load)]
                j = i + 1
                covered = 0
                while j < len(stmts) and any(isinstance(x, ast.Name) and x.id == nm for x in ast.walk(stmts[j])):
                    covered += sum(1 for x in ast.walk(stmts[j]) if isinstance(x, ast.Name) and x.id == nm and isinstance(x.ctx, ast.Load))
                    j += 1
                stores = sum(1 for x in walk_own(fnode) if isinstance(x, ast.Name) and x.id == nm and isinstance(x.ctx, ast.Store))
                if uses and covered == len(uses) and stores == 1 and nm not in _CAPTURED:
                    class S(ast.NodeTransformer):
                        def visit_Subscript(self, n):
                            self.generic_visit(n)
                            if isinstance(n.slice, ast.Name) and n.slice.id == nm:
                                n.slice = copy.deepcopy(sl)
                            return n
                    ok = True
                    new_next = []
                    for k in range(i + 1, j):
                        t = S().visit(copy.deepcopy(stmts[k]))
                        if any(isinstance(x, ast.Name) and x.id == nm for x in ast.walk(t)):
                            ok = False
                        new_next.append(t)
                    if ok:
                        out += new_next
                        i = j
                        changed = True
                        continue
            out.append(st)
            i += 1
        return out
    fnode.body = rewrite(fnode.body)
    return changed


def propagate_tuple_locals(fnode):
    """a local bound exactly once to a tuple / list display and only ever read as NAME[<constant index>] or unpacked whole
    (`a, b, c = NAME`) is replaced element-wise"""
    counts = {}
    defs = {}
    for n in walk_own(fnode):
        tg = []
        if isinstance(n, ast.Assign):
            tg = n.targets
        elif isinstance(n, (ast.AugAssign, ast.AnnAssign, ast.For)):
            tg = [n.target]
        elif isinstance(n, ast.comprehension):
            tg = [n.target]
        for t in tg:
            for x in ast.walk(t):
                if isinstance(x, ast.Name) and isinstance(x.ctx, ast.Store):
                    counts[x.id] = counts.get(x.id, 0) + 1
        if isinstance(n, ast.Assign) and len(n.targets) == 1 and isinstance(n.targets[0], ast.Name) and isinstance(n.value, (ast.Tuple, ast.List)) \
                and not any(isinstance(x, ast.Starred) for x in n.value.elts):
            defs[n.targets[0].id] = n
    par = {}
    for n in ast.walk(fnode):
        for c in ast.iter_child_nodes(n):
            par[c] = n
    use = {}
    for nm, d in defs.items():
        if counts.get(nm) != 1 or nm in _CAPTURED:
            continue
        ok = True
        n_el = len(d.value.elts)
        # elements are evaluated once at the definition: substituting is sound when they are cheap, or each is read at most once
        reads = [0] * n_el
        for x in walk_own(fnode):
            if isinstance(x, ast.Name) and x.id == nm and isinstance(x.ctx, ast.Load):
                p = par.get(x)
                if isinstance(p, ast.Subscript) and p.value is x and isinstance(p.slice, ast.Constant) and isinstance(p.slice.value, int) and -n_el <= p.slice.value < n_el:
                    reads[p.slice.value % n_el] += 1
                    continue
                if isinstance(p, ast.Assign) and p.value is x and len(p.targets) == 1 and isinstance(p.targets[0], (ast.Tuple, ast.List)) and len(p.targets[0].elts) == n_el \
                        and all(isinstance(t, ast.Name) for t in p.targets[0].elts):
                    for i in range(n_el):
                        reads[i] += 1
                    continue
                if isinstance(p, ast.Starred) and isinstance(par.get(p), ast.Call) and p in par[p].args:      # g(*NAME)
                    for i in range(n_el):
                        reads[i] += 1
                    continue
                ok = False
                break
        if ok and sum(reads) > 0 and all(r <= 1 or _cheap(el) or isinstance(el, ast.Subscript) for r, el in zip(reads, d.value.elts)):
            use[nm] = d
    if not use:
        return False

    class P(ast.NodeTransformer):
        def visit_FunctionDef(self, n):
            if n is fnode:
                self.generic_visit(n)
            return n

        def visit_Subscript(self, n):
            self.generic_visit(n)
            if isinstance(n.value, ast.Name) and n.value.id in use and isinstance(n.slice, ast.Constant) and isinstance(n.ctx, ast.Load):
                return copy.deepcopy(use[n.value.id].value.elts[n.slice.value])
            return n

        def visit_Assign(self, n):
            if isinstance(n.value, ast.Name) and n.value.id in use and isinstance(n.targets[0], (ast.Tuple, ast.List)):
                n.value = copy.deepcopy(use[n.value.id].value)
                return n
            self.generic_visit(n)
            return n

        def visit_Call(self, n):
            args = []
            for a in n.args:
                if isinstance(a, ast.Starred) and isinstance(a.value, ast.Name) and a.value.id in use:
                    args += [copy.deepcopy(x) for x in use[a.value.id].value.elts]
                else:
                    args.append(a)
            n.args = args
            self.generic_visit(n)
            return n
    P().visit(fnode)

    def strip(stmts):
        out = []
        for st in stmts:
            if any(st is v for v in use.values()):
                continue
            for fld in ("body", "orelse", "finalbody"):
                sub = getattr(st, fld, None)
                if isinstance(sub, list) and sub and isinstance(sub[0], ast.stmt) and not isinstance(st, (ast.FunctionDef, ast.ClassDef)):
                    new = strip(sub)
                    setattr(st, fld, new or ([ast.Pass()] if fld == "body" else []))
            out.append(st)
        return out
    fnode.body = strip(fnode.body)
    return True


# --------------------------------------------------------------------------------------------------- P1 closures
def _closure_expr(fdef):
    """(params, defaults, expression) for a local function whose body is assignments / if-returns: the value as one
    (possibly conditional) expression; None otherwise"""
    a = fdef.args
    if a.vararg or a.kwarg or fdef.decorator_list:
        return None
    if any(isinstance(n, (ast.Yield, ast.YieldFrom, ast.Nonlocal, ast.Global)) for n in walk_own(fdef)):
        return None
    # the value alone must be the whole meaning of a call: a path that raises (a refusal), asserts or runs a statement for its
    # effect would be lost by replacing the call with the returned expression
    for n in walk_own(fdef):
        if isinstance(n, (ast.Raise, ast.Assert, ast.For, ast.While, ast.With, ast.Try, ast.Delete, ast.AugAssign)):
            return None
        if isinstance(n, ast.Expr) and not (isinstance(n.value, ast.Constant) and isinstance(n.value.value, str)):
            return None
    ps = path_returns(fdef, max_paths=16)
    if not ps or any(r is None for _, r in ps):
        return None
    # build the nested conditional expression: paths come in source order, the last one is the default
    expr = None
    for conds, ret in reversed(ps):
        if expr is None:
            expr = ret
            continue
        test = None
        for t, pol in conds:
            c = t if pol else ast.UnaryOp(op=ast.Not(), operand=t)
            test = c if test is None else ast.BoolOp(op=ast.And(), values=[test, c])
        if test is None:
            expr = ret
        else:
            expr = ast.IfExp(test=test, body=ret, orelse=expr)
    params = [p.arg for p in a.posonlyargs + a.args]
    defaults = dict(zip(params[len(params) - len(a.defaults):], a.defaults))
    for p, d in zip(a.kwonlyargs, a.kw_defaults):
        params.append(p.arg)
        if d is not None:
            defaults[p.arg] = d
    return params, defaults, expr


def inline_expression_helpers(repo, f):
    """calls of NEW repository helpers (functions outside the baseline table) whose body is assignments / if-returns are
    replaced by their value wherever they occur - also inside comprehensions, where statement-level splicing cannot reach"""
    from .astutil import resolve_helper, bind_args
    new = set(getattr(repo, "new_functions", []) or [])
    if not new:
        return False
    changed = [False]

    class T(ast.NodeTransformer):
        def visit_FunctionDef(self, n):
            if n is f.node:
                self.generic_visit(n)
            return n

        def visit_Call(self, n):
            self.generic_visit(n)
            h, skip = resolve_helper(repo, f, n)
            if h is None or h.qname not in new or h.node is f.node:
                return n
            ce = _closure_expr(h.node)
            if ce is None:
                return n
            b = bind_args(h, skip, n)
            if b is None:
                return n
            if skip and isinstance(n.func, ast.Attribute):
                a = h.node.args
                first = (a.posonlyargs + a.args)[0].arg
                recv = n.func.value
                if h.is_classmethod:
                    b = dict(b)
                    b[first] = recv if not (isinstance(recv, ast.Name) and recv.id == "self") else ast.Call(func=ast.Name(id="type", ctx=ast.Load()), args=[recv], keywords=[])
                elif not (isinstance(recv, ast.Name) and recv.id == "self"):
                    b = dict(b)
                    b[first] = recv
            params, defaults, expr = ce
            for p_, a_ in b.items():
                uses = sum(1 for x in ast.walk(expr) if isinstance(x, ast.Name) and x.id == p_)
                if uses > 1 and not _cheap(a_):
                    return n
            changed[0] = True
            return _Sub(b, {}).visit(copy.deepcopy(expr))
    T().visit(f.node)
    return changed[0]


def inline_closures(fnode):
    """replace calls of expression-like local closures / lambdas by their value; returns changed"""
    closures = {}
    for n in walk_own(fnode):
        pass
    seen_defs = {}
    for st in ast.walk(fnode):
        if isinstance(st, ast.FunctionDef) and st is not fnode:
            seen_defs[st.name] = seen_defs.get(st.name, 0) + 1
    for st in ast.walk(fnode):
        if isinstance(st, ast.FunctionDef) and st is not fnode:
            if seen_defs[st.name] != 1 or any(isinstance(x, ast.Name) and x.id == st.name and isinstance(x.ctx, (ast.Store, ast.Del)) for x in ast.walk(fnode)):
                continue            # a name bound more than once: which body a call runs depends on where it stands
            ce = _closure_expr(st)
            if ce is not None:
                closures[st.name] = ce
    counts = {}
    for n in walk_own(fnode):
        if isinstance(n, ast.Assign) and len(n.targets) == 1 and isinstance(n.targets[0], ast.Name):
            counts[n.targets[0].id] = counts.get(n.targets[0].id, 0) + 1
    for n in walk_own(fnode):
        if isinstance(n, ast.Assign) and len(n.targets) == 1 and isinstance(n.targets[0], ast.Name) and isinstance(n.value, ast.Lambda) and counts[n.targets[0].id] == 1:
            la = n.value.args
            if not (la.vararg or la.kwarg or la.kwonlyargs):
                ps = [p.arg for p in la.posonlyargs + la.args]
                closures[n.targets[0].id] = (ps, dict(zip(ps[len(ps) - len(la.defaults):], la.defaults)), n.value.body)
    if not closures:
        return False
    changed = [False]

    class T(ast.NodeTransformer):
        def visit_FunctionDef(self, n):
            if n is fnode:
                self.generic_visit(n)
            return n            # bodies of the closures themselves are left alone

        def visit_Call(self, n):
            self.generic_visit(n)
            if isinstance(n.func, ast.Name) and n.func.id in closures:
                params, defaults, expr = closures[n.func.id]
                if any(isinstance(a, ast.Starred) for a in n.args) or any(k.arg is None for k in n.keywords) or len(n.args) > len(params):
                    return n
                b = dict(zip(params, n.args))
                for k in n.keywords:
                    if k.arg not in params:
                        return n
                    b[k.arg] = k.value
                for p in params:
                    if p not in b:
                        if p in defaults:
                            b[p] = defaults[p]
                        else:
                            return n
                # an argument used more than once must be cheap to repeat (a path or constant)
                for p, a in b.items():
                    uses = sum(1 for x in ast.walk(expr) if isinstance(x, ast.Name) and x.id == p)
                    if uses > 1 and not _cheap(a):
                        return n
                changed[0] = True
                return _Sub(b, {}).visit(copy.deepcopy(expr))
            return n
    T().visit(fnode)
    return changed[0]


def splice_statement_closures(fnode, counter):
    """def g(p): BODY   (a local procedure: bound once at the top level of the function, no return value, no yield, no nonlocal /
    global, not recursive, every use of g is a call in statement position after the definition)  ->  each `g(a)` becomes
    `p' = a; BODY[p := p']` with the closure's own locals renamed per site; the definition is dropped.  Captured variables are read
    at the call, exactly as the closure would."""
    changed = False
    for d in [st for st in fnode.body if isinstance(st, ast.FunctionDef)]:
        a = d.args
        if d.decorator_list or a.vararg or a.kwarg or a.kwonlyargs or a.posonlyargs:
            continue
        inner = list(ast.walk(ast.Module(body=d.body, type_ignores=[])))
        if any(isinstance(x, (ast.Return, ast.Yield, ast.YieldFrom, ast.Await, ast.Nonlocal, ast.Global, ast.FunctionDef, ast.Lambda, ast.ClassDef)) for x in inner):
            continue
        if any(isinstance(x, ast.Name) and x.id == d.name for x in inner):
            continue
        uses = [x for x in ast.walk(fnode) if isinstance(x, ast.Name) and x.id == d.name]
        par = {}
        for n in ast.walk(fnode):
            for c in ast.iter_child_nodes(n):
                par[c] = n
        sites = []
        ok = True
        for u in uses:
            c = par.get(u)
            e = par.get(c)
            if not (isinstance(u.ctx, ast.Load) and isinstance(c, ast.Call) and c.func is u and isinstance(e, ast.Expr) and e.value is c
                    and not any(isinstance(x, ast.Starred) for x in c.args) and not any(k.arg is None for k in c.keywords)):
                ok = False
                break
            if getattr(e, "lineno", 0) <= getattr(d, "lineno", 0):
                ok = False
                break
            # not inside another nested function
            q = e
            while q in par and par[q] is not fnode:
                q = par[q]
                if isinstance(q, (ast.FunctionDef, ast.Lambda, ast.ClassDef)):
                    ok = False
                    break
            sites.append((e, c))
        if not ok or not sites:
            continue
        params = [x.arg for x in a.args]
        defaults = dict(zip(params[len(params) - len(a.defaults):], a.defaults))
        own = set()
        for x in inner:
            if isinstance(x, ast.Name) and isinstance(x.ctx, (ast.Store, ast.Del)):
                own.add(x.id)
        plan = {}
        for e, c in sites:
            b = dict(zip(params, c.args))
            bad = len(c.args) > len(params)
            for k in c.keywords:
                if k.arg not in params or k.arg in b:
                    bad = True
                else:
                    b[k.arg] = k.value
            for p_ in params:
                if p_ not in b:
                    if p_ in defaults and isinstance(defaults[p_], ast.Constant):
                        b[p_] = defaults[p_]
                    else:
                        bad = True
            if bad:
                plan = None
                break
            plan[id(e)] = b
        if plan is None:
            continue

        def rewrite(stmts):
            out = []
            for st in stmts:
                if id(st) in plan:
                    k = counter[0]
                    counter[0] += 1
                    b = plan[id(st)]
                    consts, ren = {}, {nm: f"{nm}__c{k}" for nm in own}
                    for p_, v in b.items():
                        if (_cheap(v) or isinstance(v, ast.Constant)) and p_ not in own:
                            consts[p_] = v
                        else:
                            t = f"{p_}__c{k}"
                            out.append(ast.copy_location(ast.Assign(targets=[ast.Name(id=t, ctx=ast.Store())], value=v, lineno=st.lineno), st))
                            ren[p_] = t
                    for bst in d.body:
                        if isinstance(bst, ast.Expr) and isinstance(bst.value, ast.Constant) and isinstance(bst.value.value, str):
                            continue
                        nb = _Sub(consts, ren).visit(copy.deepcopy(bst))
                        out.append(nb)
                    continue
                for fld in ("body", "orelse", "finalbody"):
                    sub = getattr(st, fld, None)
                    if isinstance(sub, list) and sub and isinstance(sub[0], ast.stmt) and not isinstance(st, (ast.FunctionDef, ast.AsyncFunctionDef, ast.ClassDef)):
                        setattr(st, fld, rewrite(sub))
                if isinstance(st, ast.Try):
                    for h in st.handlers:
                        h.body = rewrite(h.body)
                out.append(st)
            return out
        fnode.body = [st for st in rewrite(fnode.body) if st is not d]
        changed = True
    if changed:
        ast.fix_missing_locations(fnode)
    return changed


def _cheap(e):
    if e is None:
        return True
    if isinstance(e, (ast.Name, ast.Constant)):
        return True
    if isinstance(e, ast.Slice):
        return _cheap(e.lower) and _cheap(e.upper) and _cheap(e.step)
    if isinstance(e, ast.Attribute):
        return _cheap(e.value)
    if isinstance(e, ast.Subscript):
        return _cheap(e.value) and _cheap(e.slice)
    if isinstance(e, ast.Tuple):
        return all(_cheap(x) for x in e.elts)
    if isinstance(e, ast.UnaryOp):
        return _cheap(e.operand)
    return False


# --------------------------------------------------------------------------------------------------- P2 unrolling
def eliminate_continues(stmts):
    """`if c: A; continue` followed by REST  ->  `if c: A else: REST` (recursively); returns None if a `continue` remains"""
    out = []
    for i, st in enumerate(stmts):
        if isinstance(st, ast.Continue):
            return out if i == len(stmts) - 1 or True else None      # statements after a bare continue are dead
        if isinstance(st, ast.If):
            st = copy.copy(st)
            body = eliminate_continues(st.body)
            orelse = eliminate_continues(st.orelse)
            if body is None or orelse is None:
                return None
            b_exit = bool(st.body) and _ends_continue(st.body)
            o_exit = bool(st.orelse) and _ends_continue(st.orelse)
            rest = stmts[i + 1:]
            if b_exit and not o_exit and rest:
                r = eliminate_continues(rest)
                if r is None:
                    return None
                st.body = body or [ast.Pass()]
                st.orelse = orelse + r
                out.append(st)
                return out
            if o_exit and not b_exit and rest:
                r = eliminate_continues(rest)
                if r is None:
                    return None
                st.body = body + r
                st.orelse = orelse or []
                out.append(st)
                return out
            st.body = body or [ast.Pass()]
            st.orelse = orelse
            out.append(st)
            if b_exit and o_exit:
                return out
            continue
        if any(isinstance(x, ast.Continue) for x in ast.walk(st)) and not isinstance(st, (ast.For, ast.While)):
            return None
        out.append(st)
    return out


def _ends_continue(body):
    last = body[-1]
    if isinstance(last, ast.Continue):
        return True
    return isinstance(last, ast.If) and bool(last.orelse) and _ends_continue(last.body) and _ends_continue(last.orelse)


def _display_local(f, name):
    """the tuple / list display a local is bound to (exactly one binding, never mutated), or None"""
    cnt = 0
    val = None
    for n in walk_own(f.node):
        if isinstance(n, ast.Assign):
            for t in n.targets:
                for x in ast.walk(t):
                    if isinstance(x, ast.Name) and x.id == name and isinstance(x.ctx, ast.Store):
                        cnt += 1
                        val = n.value if (len(n.targets) == 1 and isinstance(n.targets[0], ast.Name)) else None
        elif isinstance(n, (ast.AugAssign, ast.For, ast.AnnAssign)):
            for x in ast.walk(n.target):
                if isinstance(x, ast.Name) and x.id == name:
                    cnt += 1
        elif isinstance(n, ast.Call) and isinstance(n.func, ast.Attribute) and isinstance(n.func.value, ast.Name) and n.func.value.id == name \
                and n.func.attr in ("append", "extend", "insert", "pop", "remove", "sort", "reverse", "clear"):
            return None
        elif isinstance(n, ast.Subscript) and isinstance(n.ctx, (ast.Store, ast.Del)) and isinstance(n.value, ast.Name) and n.value.id == name:
            return None
    a = f.node.args
    if name in {p.arg for p in a.posonlyargs + a.args + a.kwonlyargs}:
        return None
    if cnt == 1 and isinstance(val, (ast.Tuple, ast.List)) and not any(isinstance(x, ast.Starred) for x in val.elts):
        return val
    return None


def _set_display_local(f, name):
    """elements of the set / frozenset / tuple / list display of constants a local is bound to (exactly one binding, never mutated,
    never passed on whole except to `in`), or None"""
    cnt, val = 0, None
    par = {}
    for n in ast.walk(f.node):
        for c in ast.iter_child_nodes(n):
            par[c] = n
    for n in walk_own(f.node):
        if isinstance(n, ast.Name) and n.id == name:
            if isinstance(n.ctx, (ast.Store, ast.Del)):
                cnt += 1
                p = par.get(n)
                val = p.value if isinstance(p, ast.Assign) and len(p.targets) == 1 and p.targets[0] is n else None
            else:
                p = par.get(n)
                if not (isinstance(p, ast.Compare) and len(p.ops) == 1 and isinstance(p.ops[0], (ast.In, ast.NotIn)) and p.comparators[0] is n):
                    return None
    a = f.node.args
    if name in {p.arg for p in a.posonlyargs + a.args + a.kwonlyargs} or cnt != 1 or val is None:
        return None
    if isinstance(val, ast.Call) and U(val.func) in ("set", "frozenset", "tuple", "list") and len(val.args) == 1 and not val.keywords:
        val = val.args[0]
    if isinstance(val, (ast.Set, ast.Tuple, ast.List)) and val.elts and all(isinstance(x, ast.Constant) for x in val.elts):
        return list(val.elts)
    return None


def _dict_display_local(f, name):
    cnt = 0
    val = None
    for n in walk_own(f.node):
        if isinstance(n, ast.Assign):
            for t in n.targets:
                for x in ast.walk(t):
                    if isinstance(x, ast.Name) and x.id == name and isinstance(x.ctx, ast.Store):
                        cnt += 1
                        val = n.value if (len(n.targets) == 1 and isinstance(n.targets[0], ast.Name)) else None
        elif isinstance(n, ast.Call) and isinstance(n.func, ast.Attribute) and isinstance(n.func.value, ast.Name) and n.func.value.id == name \
                and n.func.attr in ("update", "pop", "setdefault", "clear", "popitem"):
            return None
        elif isinstance(n, ast.Subscript) and isinstance(n.ctx, (ast.Store, ast.Del)) and isinstance(n.value, ast.Name) and n.value.id == name:
            return None
    if cnt == 1 and isinstance(val, ast.Dict) and val.keys and None not in val.keys and all(isinstance(k, ast.Constant) for k in val.keys):
        return val
    return None


def _rows(repo, f, it):
    """rows of a constant iterable expression as lists of per-position value expressions, or None.
    zip(CONST, X) gives (c_i, X[i]); enumerate(CONST) gives (i, c_i)."""
    def table(e):
        if isinstance(e, (ast.Tuple, ast.List)) and e.elts and len(e.elts) <= MAX_ROWS and all(_const(x) for x in e.elts):
            return list(e.elts)
        # a display of rows each of which is a display of cheap expressions with at least one constant: (("a", x), ("b", y))
        if isinstance(e, (ast.Tuple, ast.List)) and e.elts and len(e.elts) <= MAX_ROWS and all(
                isinstance(r, (ast.Tuple, ast.List)) and r.elts and all(_const(x) or _cheap(x) for x in r.elts) and any(_const(x) for x in r.elts) for r in e.elts):
            return list(e.elts)
        # a display of equally long rows of plain names / paths: ((rows1, other1), (rows2, other2))
        if isinstance(e, (ast.Tuple, ast.List)) and 1 <= len(e.elts) <= 8 and all(isinstance(r, (ast.Tuple, ast.List)) and r.elts and all(_cheap(x) for x in r.elts) for r in e.elts) \
                and len({len(r.elts) for r in e.elts}) == 1:
            return list(e.elts)
        # a display of plain names / paths: for idx in (idx1, idx2, idx3)
        if isinstance(e, (ast.Tuple, ast.List)) and 1 <= len(e.elts) <= 8 and all(isinstance(x, (ast.Name, ast.Attribute, ast.Subscript)) and _cheap(x) for x in e.elts):
            return list(e.elts)
        return _table(repo, f, e) if isinstance(e, (ast.Name, ast.Attribute, ast.BinOp)) else None
    t = table(it)
    if t is None and isinstance(it, ast.Subscript) and isinstance(it.slice, ast.Slice) and it.slice.step is None and isinstance(it.value, ast.Name) \
            and all(b is None or (isinstance(b, ast.Constant) and isinstance(b.value, int) and not isinstance(b.value, bool) and b.value >= 0) for b in (it.slice.lower, it.slice.upper)):
        # NAME[a:b] of a display local (never mutated): the rows in that range
        d = _display_local(f, it.value.id)
        if d is not None:
            full = table(d)
            if full is not None:
                lo_ = it.slice.lower.value if it.slice.lower is not None else 0
                hi_ = it.slice.upper.value if it.slice.upper is not None else len(full)
                sub_ = full[lo_:hi_]
                return [[r] for r in sub_]          # (possibly no rows at all: a loop over it does not run)
    if t is None and isinstance(it, ast.Name):
        d = _display_local(f, it.id)
        if d is not None:
            t = table(d)
        else:
            # a local bound once to TABLE_A + TABLE_B (module-level tables)
            defs_ = [n for n in walk_own(f.node) if isinstance(n, ast.Assign) and len(n.targets) == 1 and isinstance(n.targets[0], ast.Name) and n.targets[0].id == it.id]
            stores_ = sum(1 for x in ast.walk(f.node) if isinstance(x, ast.Name) and x.id == it.id and isinstance(x.ctx, (ast.Store, ast.Del)))
            if len(defs_) == 1 and stores_ == 1 and it.id not in f.params and isinstance(defs_[0].value, ast.BinOp):
                t = table(defs_[0].value)
    if t is not None:
        return [[r] for r in t]
    # D.items() / D.keys() / D.values() over a local bound once to a dict display with constant keys and cheap values
    # TABLE.items() / .keys() / .values() over a module-level dict display with constant keys whose values are constants, tuples of
    # constants or of module-level functions (a table that is never mutated: no subscript store / update on it anywhere in its module)
    if isinstance(it, ast.Call) and isinstance(it.func, ast.Attribute) and it.func.attr in ("items", "keys", "values") and not it.args and isinstance(it.func.value, ast.Name):
        nm_ = it.func.value.id
        local = {a.arg for a in ast.walk(f.node.args) if isinstance(a, ast.arg)} | {x.id for x in ast.walk(f.node) if isinstance(x, ast.Name) and isinstance(x.ctx, ast.Store)}
        cv = repo.const_value(f.mod, nm_) if nm_ not in local and nm_ in repo.consts.get(f.mod, {}) else None
        if isinstance(cv, ast.Dict) and cv.keys and None not in cv.keys and all(isinstance(k, ast.Constant) for k in cv.keys) and len(cv.keys) <= MAX_ROWS:
            def free_ok(name):
                return name not in local and (name in ("np", "numpy", "math", "operator") or repo.chase(f.mod, name) is not None)
            mutated = False
            tree = repo.modules.get(f.mod)
            for x in ast.walk(tree) if tree is not None else []:
                if isinstance(x, ast.Subscript) and isinstance(x.ctx, (ast.Store, ast.Del)) and isinstance(x.value, ast.Name) and x.value.id == nm_:
                    mutated = True
                if isinstance(x, ast.Call) and isinstance(x.func, ast.Attribute) and isinstance(x.func.value, ast.Name) and x.func.value.id == nm_ \
                        and x.func.attr in ("update", "pop", "setdefault", "clear", "popitem", "__setitem__"):
                    mutated = True
            if not mutated and all(_const(v, free_ok) for v in cv.values):
                if it.func.attr == "items":
                    return [[ast.Tuple(elts=[k, v], ctx=ast.Load())] for k, v in zip(cv.keys, cv.values)]
                return [[k] for k in cv.keys] if it.func.attr == "keys" else [[v] for v in cv.values]
    if isinstance(it, ast.Call) and isinstance(it.func, ast.Attribute) and it.func.attr in ("items", "keys", "values") and not it.args and not it.keywords \
            and isinstance(it.func.value, ast.Dict) and it.func.value.keys and None not in it.func.value.keys:
        # {"a": x, "b": y}.items() on the spot: constant keys, cheap values
        d = it.func.value
        if len(d.keys) <= MAX_ROWS and all(isinstance(k, ast.Constant) for k in d.keys) and all(_cheap(v) or _const(v) for v in d.values) \
                and len({k.value for k in d.keys}) == len(d.keys):
            if it.func.attr == "items":
                return [[ast.Tuple(elts=[k, v], ctx=ast.Load())] for k, v in zip(d.keys, d.values)]
            return [[k] for k in d.keys] if it.func.attr == "keys" else [[v] for v in d.values]
    if isinstance(it, ast.Call) and isinstance(it.func, ast.Attribute) and it.func.attr in ("items", "keys", "values") and not it.args and isinstance(it.func.value, ast.Name):
        d = _dict_display_local(f, it.func.value.id)
        if d is not None and len(d.keys) <= MAX_ROWS and all(_cheap(v) for v in d.values):
            if it.func.attr == "items":
                return [[ast.Tuple(elts=[k, v], ctx=ast.Load())] for k, v in zip(d.keys, d.values)]
            return [[k] for k in d.keys] if it.func.attr == "keys" else [[v] for v in d.values]
    if isinstance(it, ast.Call) and isinstance(it.func, ast.Name) and it.func.id == "range" and not it.keywords and 1 <= len(it.args) <= 2 \
            and all(isinstance(a, ast.Constant) and isinstance(a.value, int) for a in it.args):
        lo, hi = (0, it.args[0].value) if len(it.args) == 1 else (it.args[0].value, it.args[1].value)
        if 0 < hi - lo <= 8:
            return [[ast.Constant(value=i)] for i in range(lo, hi)]
    if isinstance(it, ast.Call) and isinstance(it.func, ast.Name) and it.func.id == "enumerate" and 1 <= len(it.args) <= 2 \
            and (len(it.args) == 2 or len(it.keywords) == 1) and all(k.arg == "start" for k in it.keywords) and len(it.args) + len(it.keywords) == 2:
        # enumerate(TABLE, start=k) / enumerate(TABLE, k) with a constant integer k
        st_ = it.args[1] if len(it.args) == 2 else it.keywords[0].value
        if isinstance(st_, ast.Constant) and isinstance(st_.value, int) and not isinstance(st_.value, bool):
            t = table(it.args[0])
            if t is not None:
                return [[ast.Tuple(elts=[ast.Constant(value=i), r], ctx=ast.Load())] for i, r in enumerate(t, start=st_.value)]
    if isinstance(it, ast.Call) and isinstance(it.func, ast.Name) and not it.keywords:
        if it.func.id == "enumerate" and len(it.args) == 1:
            t = table(it.args[0])
            if t is not None:
                return [[ast.Tuple(elts=[ast.Constant(value=i), r], ctx=ast.Load())] for i, r in enumerate(t)]
        if it.func.id == "zip" and len(it.args) >= 2:
            tabs = [table(a) for a in it.args]
            lens = {len(t_) for t_ in tabs if t_ is not None}
            if len(lens) == 1 and any(t_ is not None for t_ in tabs):
                n = lens.pop()
                rows = []
                for i in range(n):
                    els = []
                    for a, t_ in zip(it.args, tabs):
                        if t_ is not None:
                            els.append(t_[i])
                        elif _cheap(a):
                            els.append(ast.Subscript(value=copy.deepcopy(a), slice=ast.Constant(value=i), ctx=ast.Load()))
                        else:
                            return None
                    rows.append([ast.Tuple(elts=els, ctx=ast.Load())])
                return rows
    return None


def _bind_target(tgt, val):
    """{name: expr} for a (nested) tuple target against a constant / tuple-display value; None if shapes differ"""
    if isinstance(tgt, ast.Name):
        return {tgt.id: val}
    if isinstance(tgt, (ast.Tuple, ast.List)) and isinstance(val, (ast.Tuple, ast.List)) and len(tgt.elts) == len(val.elts) and not any(isinstance(x, ast.Starred) for x in tgt.elts):
        out = {}
        for t, v in zip(tgt.elts, val.elts):
            b = _bind_target(t, v)
            if b is None:
                return None
            out.update(b)
        return out
    return None


def _pure_local_body(body):
    """assignments to plain local names whose values are arithmetic / numpy calls only"""
    for st in body:
        if not (isinstance(st, (ast.Assign, ast.AugAssign))):
            return False
        tg = st.targets if isinstance(st, ast.Assign) else [st.target]
        if not all(isinstance(t, ast.Name) for t in tg):
            return False
        for x in ast.walk(st.value):
            if isinstance(x, ast.Call) and not U(x.func).startswith(("np.", "numpy.")):
                return False
            if isinstance(x, (ast.Yield, ast.YieldFrom, ast.Await, ast.NamedExpr)):
                return False
    return True


def unroll_loops(repo, f, counter):
    changed = [False]

    def rewrite(stmts):
        out = []
        for st in stmts:
            for fld in ("body", "orelse", "finalbody"):
                sub = getattr(st, fld, None)
                if isinstance(sub, list) and sub and isinstance(sub[0], ast.stmt) and not isinstance(st, (ast.FunctionDef, ast.AsyncFunctionDef, ast.ClassDef)):
                    setattr(st, fld, rewrite(sub))
            if isinstance(st, ast.Try):
                for h in st.handlers:
                    h.body = rewrite(h.body)
            if isinstance(st, ast.For) and len(st.body) == 1 and isinstance(st.body[0], ast.If) and not st.body[0].orelse and st.body[0].body \
                    and isinstance(st.body[0].body[-1], ast.Break) \
                    and not any(isinstance(x, (ast.Break, ast.Continue)) for b in st.body[0].body[:-1] for x in ast.walk(b)):
                # for ROW in TABLE: if C(ROW): B(ROW); break   [else: E]     (a dispatch over a constant table: the first row whose test holds)
                #   ->   if C(r1): B(r1)  elif C(r2): B(r2) ..  else: E
                rows = _rows(repo, f, st.iter)
                binds = [_bind_target(st.target, r[0]) for r in rows] if rows else None
                tnames = {x.id for x in ast.walk(st.target) if isinstance(x, ast.Name)}
                inner_if = st.body[0]
                if rows and all(b is not None for b in binds) and len(rows) <= 8 and not (tnames & _stored(inner_if.body)) \
                        and not any(isinstance(x, ast.Name) and x.id in tnames for s2 in (st.orelse or []) for x in ast.walk(s2)):
                    after_reads = False
                    outside = names_outside(f.node, st)
                    if tnames & outside:
                        after_reads = True          # the loop variables are read after the loop: keep the loop
                    if not after_reads:
                        chain = None
                        for consts in reversed(binds):
                            test_ = _Sub(consts, {}).visit(copy.deepcopy(inner_if.test))
                            body_ = [_Sub(consts, {}).visit(copy.deepcopy(b)) for b in inner_if.body[:-1]] or [ast.Pass()]
                            orelse_ = [chain] if chain is not None else [copy.deepcopy(x) for x in (st.orelse or [])]
                            chain = ast.copy_location(ast.If(test=test_, body=body_, orelse=orelse_), st)
                        ast.fix_missing_locations(chain)
                        out.append(chain)
                        changed[0] = True
                        continue
            if isinstance(st, ast.For) and not st.orelse and not any(isinstance(x, ast.Break) for b in st.body for x in ast.walk(b)):
                # (a `return` in the body leaves the function from the copy it is in, exactly as it leaves the loop)
                rows = _rows(repo, f, st.iter)
                if rows is None and isinstance(st.iter, (ast.List, ast.Tuple)) and 1 <= len(st.iter.elts) <= MAX_ROWS and isinstance(st.target, (ast.Tuple, ast.List)) \
                        and all(isinstance(t, ast.Name) for t in st.target.elts) \
                        and all(isinstance(r, (ast.Tuple, ast.List)) and len(r.elts) == len(st.target.elts) and not any(isinstance(x, ast.Starred) for x in r.elts) for r in st.iter.elts) \
                        and any(_const(x) for r in st.iter.elts for x in r.elts):
                    # a literal display of rows with arbitrary element expressions: the display is evaluated completely before the first
                    # iteration, so its non-trivial elements are evaluated into temporaries first (display order); the rows are then cheap
                    k = counter[0]
                    counter[0] += 1
                    new_rows, pre = [], []
                    for i, r in enumerate(st.iter.elts):
                        els = []
                        for j, x in enumerate(r.elts):
                            if _const(x) or _cheap(x):
                                els.append(x)
                            else:
                                tnm = f"{st.target.elts[j].id}__d{k}_{i}"
                                pre.append(ast.Assign(targets=[ast.Name(id=tnm, ctx=ast.Store())], value=copy.deepcopy(x), lineno=getattr(st, "lineno", 0), col_offset=0))
                                els.append(ast.Name(id=tnm, ctx=ast.Load()))
                        new_rows.append(ast.Tuple(elts=els, ctx=ast.Load()))
                    trial = ast.Tuple(elts=new_rows, ctx=ast.Load())
                    rows2 = _rows(repo, f, trial)
                    if rows2 is not None and pre:
                        for a_ in pre:
                            ast.fix_missing_locations(a_)
                        out.extend(pre)
                        st = copy.copy(st)
                        st.iter = trial
                        rows = rows2
                if rows is None:
                    # a display of arbitrary expressions driving a body of pure local arithmetic (an accumulation):
                    # evaluate the elements into temporaries first (display order), then run the copies of the body
                    disp = st.iter if isinstance(st.iter, (ast.List, ast.Tuple)) else (_display_local(f, st.iter.id) if isinstance(st.iter, ast.Name) else None)
                    if disp is not None and len(disp.elts) <= 8 and not any(isinstance(x, ast.Starred) for x in disp.elts) and isinstance(st.target, ast.Name) \
                            and _pure_local_body(st.body) and st.target.id not in _stored(st.body):
                        k = counter[0]
                        counter[0] += 1
                        temps = []
                        for i, el in enumerate(disp.elts):
                            tnm = f"{st.target.id}__u{k}_{i}"
                            temps.append(tnm)
                            out.append(ast.Assign(targets=[ast.Name(id=tnm, ctx=ast.Store())], value=copy.deepcopy(el), lineno=getattr(st, "lineno", 0), col_offset=0))
                        for tnm in temps:
                            for b in st.body:
                                nb = _Sub({st.target.id: ast.Name(id=tnm, ctx=ast.Load())}, {}).visit(copy.deepcopy(b))
                                ast.fix_missing_locations(nb)
                                out.append(nb)
                        changed[0] = True
                        continue
                if rows is not None and not rows:
                    changed[0] = True           # a loop over an empty constant range: no iteration (and no else arm, see above)
                    continue
                if rows is not None:
                    binds = [_bind_target(st.target, r[0]) for r in rows]
                    # `continue` is supported as the last statement of an if-arm only when the arm is the whole tail: keep simple
                    lbody = st.body
                    if any(isinstance(x, ast.Continue) for b in st.body for x in ast.walk(b)):
                        lbody = eliminate_continues([copy.deepcopy(b) for b in st.body])
                    # names substituted into the body must not be re-bound there (cheap non-constant row values)
                    row_names = {x.id for r in rows for x in ast.walk(r[0]) if isinstance(x, ast.Name)}
                    if lbody is not None and all(b is not None for b in binds) and not (row_names & _stored(lbody)):
                        outside = names_outside(f.node, st)
                        st = copy.copy(st)
                        st.body = lbody
                        tnames = set(binds[0])
                        stored = _stored(st.body)
                        locals_ = iteration_locals(st.body, outside) - tnames     # loop-carried names keep their name
                        rebound = stored & tnames          # loop variables re-assigned in the body: bound by assignment, not substitution
                        k = counter[0]
                        counter[0] += 1
                        for i, consts in enumerate(binds):
                            ren = {l: f"{l}__u{k}_{i}" for l in locals_ | rebound}
                            for t in sorted(rebound):
                                out.append(ast.Assign(targets=[ast.Name(id=ren[t], ctx=ast.Store())], value=copy.deepcopy(consts[t]), lineno=getattr(st, "lineno", 0), col_offset=0))
                            consts = {k_: v for k_, v in consts.items() if k_ not in rebound}
                            for b in st.body:
                                nb = _Sub(consts, ren).visit(copy.deepcopy(b))
                                ast.fix_missing_locations(nb)
                                out.append(nb)
                        changed[0] = True
                        continue
            out.append(st)
        return out
    f.node.body = rewrite(f.node.body)

    # comprehensions over constant iterables
    class C(ast.NodeTransformer):
        def visit_FunctionDef(self, n):
            if n is f.node:
                self.generic_visit(n)
            return n

        def _expand(self, comp, make):
            if len(comp.generators) != 1 or comp.generators[0].ifs and any(not _const(x) for x in comp.generators[0].ifs):
                return None
            g = comp.generators[0]
            rows = _rows(repo, f, g.iter)
            if rows is None or g.ifs:
                return None
            items = []
            for r in rows:
                b = _bind_target(g.target, r[0])
                if b is None:
                    return None
                items.append(make(b))
            changed[0] = True
            return items

        def visit_Starred(self, n):
            self.generic_visit(n)
            # *(E(c) for c in CONST)  ->  *[E(c0), E(c1), ..]   (flattened into the enclosing display / call by the folder)
            if isinstance(n.value, ast.GeneratorExp):
                g = n.value
                it = self._expand(g, lambda b: _Sub(b, {}).visit(copy.deepcopy(g.elt)))
                if it is not None:
                    n.value = ast.List(elts=it, ctx=ast.Load())
            return n

        def visit_ListComp(self, n):
            self.generic_visit(n)
            it = self._expand(n, lambda b: _Sub(b, {}).visit(copy.deepcopy(n.elt)))
            return n if it is None else ast.copy_location(ast.List(elts=it, ctx=ast.Load()), n)

        def visit_Assign(self, n):
            # head, *rest = [x, y, z]  ->  head = x; rest = [y, z]   (as a tuple assignment that the simplifier splits)
            if len(n.targets) == 1 and isinstance(n.targets[0], (ast.Tuple, ast.List)) and isinstance(n.value, (ast.Tuple, ast.List)) \
                    and sum(isinstance(t, ast.Starred) for t in n.targets[0].elts) == 1 and not any(isinstance(x, ast.Starred) for x in n.value.elts) \
                    and all(isinstance(t.value if isinstance(t, ast.Starred) else t, ast.Name) for t in n.targets[0].elts):
                tg = n.targets[0].elts
                k = next(i for i, t in enumerate(tg) if isinstance(t, ast.Starred))
                after = len(tg) - k - 1
                vals = n.value.elts
                if len(vals) >= len(tg) - 1:
                    new_t, new_v = [], []
                    for i, t in enumerate(tg):
                        if i < k:
                            new_t.append(t)
                            new_v.append(vals[i])
                        elif i == k:
                            new_t.append(ast.Name(id=t.value.id, ctx=ast.Store()))
                            new_v.append(ast.List(elts=list(vals[k:len(vals) - after]), ctx=ast.Load()))
                        else:
                            new_t.append(t)
                            new_v.append(vals[len(vals) - (len(tg) - i)])
                    n.targets = [ast.Tuple(elts=new_t, ctx=ast.Store())]
                    n.value = ast.Tuple(elts=new_v, ctx=ast.Load())
                    changed[0] = True
                    self.generic_visit(n)
                    return n
            # a, b, c = (E(x) for x in CONST)   -> a, b, c = (E(x0), E(x1), E(x2))
            if len(n.targets) == 1 and isinstance(n.targets[0], (ast.Tuple, ast.List)) and isinstance(n.value, ast.GeneratorExp):
                g = n.value
                it = self._expand(g, lambda b: _Sub(b, {}).visit(copy.deepcopy(g.elt)))
                if it is not None and len(it) == len(n.targets[0].elts):
                    n.value = ast.Tuple(elts=it, ctx=ast.Load())
                    return n
            self.generic_visit(n)
            return n

        def visit_DictComp(self, n):
            self.generic_visit(n)
            it = self._expand(n, lambda b: (_Sub(b, {}).visit(copy.deepcopy(n.key)), _Sub(b, {}).visit(copy.deepcopy(n.value))))
            return n if it is None else ast.copy_location(ast.Dict(keys=[k for k, _ in it], values=[v for _, v in it]), n)

        def visit_Call(self, n):
            self.generic_visit(n)
            # tuple(genexp) / list(genexp) / dict(genexp of pairs) over a constant iterable
            if isinstance(n.func, ast.Name) and n.func.id in ("tuple", "list", "dict", "sum") and len(n.args) == 1 and not n.keywords and isinstance(n.args[0], ast.GeneratorExp):
                g = n.args[0]
                it = self._expand(g, lambda b: _Sub(b, {}).visit(copy.deepcopy(g.elt)))
                if it is None:
                    return n
                if n.func.id == "dict":
                    if all(isinstance(x, ast.Tuple) and len(x.elts) == 2 for x in it):
                        return ast.copy_location(ast.Dict(keys=[x.elts[0] for x in it], values=[x.elts[1] for x in it]), n)
                    return n
                if n.func.id == "sum":
                    n.args = [ast.List(elts=it, ctx=ast.Load())]
                    return n
                cls = ast.Tuple if n.func.id == "tuple" else ast.List
                return ast.copy_location(cls(elts=it, ctx=ast.Load()), n)
            return n
    C().visit(f.node)
    return changed[0]


# --------------------------------------------------------------------------------------------------- P3b displays, aliases, appends
def scalarise_display_locals(f, counter):
    """NAME = ((E1, a), (E2, b))  with NAME bound once, never mutated and used only as the iterable of loops / comprehensions:
    the elements that are not plain names / paths are evaluated into temporaries first (display order), so that the loops over
    NAME can be unrolled without duplicating work:  NAME__d0 = E1; NAME__d1 = E2; NAME = ((NAME__d0, a), (NAME__d1, b))"""
    changed = False
    par = {}
    for n in ast.walk(f.node):
        for c in ast.iter_child_nodes(n):
            par[c] = n

    def only_iterated(name):
        if name in _CAPTURED:
            return False
        for x in walk_own(f.node):
            if isinstance(x, ast.Name) and x.id == name and isinstance(x.ctx, ast.Load):
                p = par.get(x)
                if isinstance(p, ast.For) and p.iter is x:
                    continue
                if isinstance(p, ast.comprehension) and p.iter is x:
                    continue
                return False
        return True

    def rewrite(stmts):
        nonlocal changed
        out = []
        for st in stmts:
            for fld in ("body", "orelse", "finalbody"):
                sub = getattr(st, fld, None)
                if isinstance(sub, list) and sub and isinstance(sub[0], ast.stmt) and not isinstance(st, (ast.FunctionDef, ast.AsyncFunctionDef, ast.ClassDef)):
                    setattr(st, fld, rewrite(sub))
            if isinstance(st, ast.Try):
                for h in st.handlers:
                    h.body = rewrite(h.body)
            if isinstance(st, ast.Assign) and len(st.targets) == 1 and isinstance(st.targets[0], ast.Name) and isinstance(st.value, (ast.Tuple, ast.List)) \
                    and 1 <= len(st.value.elts) <= 8 and _display_local(f, st.targets[0].id) is st.value and only_iterated(st.targets[0].id):
                name = st.targets[0].id
                rows = st.value.elts
                flat = all(not isinstance(r, (ast.Tuple, ast.List)) for r in rows)
                nested = all(isinstance(r, (ast.Tuple, ast.List)) and not any(isinstance(x, ast.Starred) for x in r.elts) for r in rows)
                leaves = [(None, i) for i in range(len(rows))] if flat else ([(i, j) for i, r in enumerate(rows) for j in range(len(r.elts))] if nested else [])
                todo = []
                for i, j in leaves:
                    el = rows[j] if i is None else rows[i].elts[j]
                    if not (_cheap(el) or _const(el)):
                        todo.append((i, j, el))
                # evaluating the remaining (cheap) elements later than the temporaries is unobservable: they are names / paths / constants
                if todo and not any(isinstance(x, (ast.Yield, ast.YieldFrom, ast.Await, ast.NamedExpr, ast.Lambda)) for _, _, el in todo for x in ast.walk(el)):
                    k = counter[0]
                    counter[0] += 1
                    for n_, (i, j, el) in enumerate(todo):
                        t = f"{name}__d{k}_{n_}"
                        out.append(ast.copy_location(ast.Assign(targets=[ast.Name(id=t, ctx=ast.Store())], value=el, lineno=st.lineno), st))
                        ref = ast.Name(id=t, ctx=ast.Load())
                        if i is None:
                            rows[j] = ref
                        else:
                            rows[i].elts[j] = ref
                    changed = True
            out.append(st)
        return out
    f.node.body = rewrite(f.node.body)
    if changed:
        ast.fix_missing_locations(f.node)
    return changed


def propagate_path_aliases(repo, f):
    """V = self.attr   (V bound once, at the top level of the function body, before any other mention of V; `self.attr` not re-bound
    in this function nor in any method of the class that the function may reach through self-calls)  ->  every V reads self.attr.
    Sound because V and self.attr then denote the same object throughout (in-place updates are seen through both)."""
    if not f.cls or not f.params or f.params[0] != "self":
        return False
    cq = f"{f.mod}.{f.cls}"
    changed = False
    for idx, st in enumerate(list(f.node.body)):
        if not (isinstance(st, ast.Assign) and len(st.targets) == 1 and isinstance(st.targets[0], ast.Name) and isinstance(st.value, ast.Attribute)
                and isinstance(st.value.value, ast.Name) and st.value.value.id == "self"):
            continue
        v, attr = st.targets[0].id, st.value.attr
        stores = [x for x in ast.walk(f.node) if isinstance(x, ast.Name) and x.id == v and isinstance(x.ctx, (ast.Store, ast.Del))]
        if len(stores) != 1 or v in f.params:
            continue
        if any(isinstance(x, ast.Name) and x.id == v for b in f.node.body[:idx] for x in ast.walk(b)):
            continue
        if any(isinstance(x, (ast.Global, ast.Nonlocal)) for x in ast.walk(f.node)):
            continue
        # nested functions capturing v are fine (same object); re-binding of self.attr is not
        def rebinds(node):
            for x in ast.walk(node):
                if isinstance(x, ast.Attribute) and x.attr == attr and isinstance(x.ctx, (ast.Store, ast.Del)) and isinstance(x.value, ast.Name) and x.value.id == "self":
                    return True
                if isinstance(x, ast.Call) and U(x.func) in ("setattr", "delattr") or (isinstance(x, ast.Attribute) and x.attr == "__dict__"):
                    return True
            return False
        seen, work, bad = set(), [f.node], False
        while work and not bad:
            nd = work.pop()
            if rebinds(nd):
                bad = True
                break
            for c in ast.walk(nd):
                if isinstance(c, ast.Call) and isinstance(c.func, ast.Attribute) and isinstance(c.func.value, ast.Name) and c.func.value.id == "self":
                    m = None
                    for k in repo.mro(cq):
                        g = repo.funcs.get(f"{k}.{c.func.attr}")
                        if g is not None:
                            m = g
                            break
                    if m is None and c.func.attr in ("__getattribute__", "__getattr__", "__sizeof__", "__repr__", "__hash__"):
                        continue        # object's own read-only protocol methods
                    if m is None:
                        bad = True          # a call on self that is not a method of the class (a callable attribute): cannot be followed
                        break
                    if m.qname not in seen:
                        seen.add(m.qname)
                        work.append(m.node)
        if bad:
            continue
        for x in ast.walk(f.node):
            for fld, val in ast.iter_fields(x):
                if isinstance(val, ast.Name) and val.id == v and isinstance(val.ctx, ast.Load):
                    setattr(x, fld, ast.copy_location(ast.Attribute(value=ast.Name(id="self", ctx=ast.Load()), attr=attr, ctx=ast.Load()), val))
                elif isinstance(val, list):
                    for i, y in enumerate(val):
                        if isinstance(y, ast.Name) and y.id == v and isinstance(y.ctx, ast.Load):
                            val[i] = ast.copy_location(ast.Attribute(value=ast.Name(id="self", ctx=ast.Load()), attr=attr, ctx=ast.Load()), y)
        f.node.body.remove(st)
        changed = True
    if changed:
        ast.fix_missing_locations(f.node)
    return changed


def propagate_record_locals(repo, f):
    """t = K(a, b, c)   (t bound once; K a plain NamedTuple / dataclass record of the repository; arguments are names / paths / constants)
    ->  t.field reads the bound argument; for a NamedTuple also t[i], `for x in t`, `x, y, z = t`, tuple(t), *t.
    The construction stays if t is still mentioned (passed on, returned, method called on it)."""
    from .normalize import record_fields
    changed = False
    # K(args).method(..) in an assignment / expression statement / return: the record gets a name first
    def name_temporaries(stmts):
        nonlocal changed
        out = []
        for s_ in stmts:
            for fld in ("body", "orelse", "finalbody"):
                sub = getattr(s_, fld, None)
                if isinstance(sub, list) and sub and isinstance(sub[0], ast.stmt) and not isinstance(s_, (ast.FunctionDef, ast.AsyncFunctionDef, ast.ClassDef)):
                    setattr(s_, fld, name_temporaries(sub))
            if isinstance(s_, ast.Try):
                for h in s_.handlers:
                    h.body = name_temporaries(h.body)
            v = getattr(s_, "value", None) if isinstance(s_, (ast.Assign, ast.Expr, ast.Return)) else None
            if isinstance(v, ast.Call) and isinstance(v.func, ast.Attribute) and isinstance(v.func.value, ast.Call) and isinstance(v.func.value.func, ast.Name) \
                    and record_fields(repo, f.mod, v.func.value.func.id, allow_methods=True) is not None:
                k = sum(1 for x in ast.walk(f.node) if isinstance(x, ast.Name) and x.id.startswith("record__r"))
                t_ = f"record__r{k}"
                out.append(ast.copy_location(ast.Assign(targets=[ast.Name(id=t_, ctx=ast.Store())], value=v.func.value, lineno=s_.lineno), s_))
                v.func.value = ast.Name(id=t_, ctx=ast.Load())
                changed = True
            out.append(s_)
        return out
    f.node.body = name_temporaries(f.node.body)
    binds = {}
    for x in ast.walk(f.node):
        if isinstance(x, ast.Name) and isinstance(x.ctx, (ast.Store, ast.Del)):
            binds[x.id] = binds.get(x.id, 0) + 1
    a = f.node.args
    params = {p.arg for p in a.posonlyargs + a.args + a.kwonlyargs}
    for st in list(walk_own(f.node)):
        if not (isinstance(st, ast.Assign) and len(st.targets) == 1 and isinstance(st.targets[0], ast.Name) and isinstance(st.value, ast.Call) and isinstance(st.value.func, ast.Name)):
            continue
        t = st.targets[0].id
        if binds.get(t) != 1 or t in params:
            continue
        rec = st.value
        fields = record_fields(repo, f.mod, rec.func.id, allow_methods=True)
        if fields is None or any(isinstance(x, ast.Starred) for x in rec.args) or any(k.arg is None for k in rec.keywords) or len(rec.args) + len(rec.keywords) != len(fields):
            continue
        vals = dict(zip(fields, rec.args))
        vals.update({k.arg: k.value for k in rec.keywords})
        if set(vals) != set(fields):
            continue
        if not all(_cheap(v) or _const(v) for v in vals.values()):
            # name the arguments that are not plain names / paths first (evaluated where they were, in argument order), then read fields
            # through those names on the next round
            def closed_lambda(l_):
                ps_ = {p_.arg for p_ in l_.args.posonlyargs + l_.args.args + l_.args.kwonlyargs}
                return not l_.args.vararg and not l_.args.kwarg and all(not isinstance(y, ast.Name) or y.id in ps_ for y in ast.walk(l_.body))
            if any(isinstance(x, (ast.Yield, ast.YieldFrom, ast.Await, ast.NamedExpr)) or (isinstance(x, ast.Lambda) and not closed_lambda(x)) for v in vals.values() for x in ast.walk(v)):
                continue            # (a lambda over its own parameters only - a sort key - can be evaluated a statement earlier)
            owner = None
            for n_ in ast.walk(f.node):
                for fld in ("body", "orelse", "finalbody"):
                    sub = getattr(n_, fld, None)
                    if isinstance(sub, list) and any(x is st for x in sub):
                        owner = sub
                if isinstance(n_, ast.Try):
                    for h in n_.handlers:
                        if any(x is st for x in h.body):
                            owner = h.body
            if owner is None:
                continue
            pre = []
            order = list(rec.args) + [k.value for k in rec.keywords]
            names_ = {}
            for fl, v in vals.items():
                if not (_cheap(v) or _const(v)):
                    names_[id(v)] = f"{t}__{fl}"
            new_args, new_kws = [], []
            for a_ in rec.args:
                if id(a_) in names_:
                    pre.append(ast.copy_location(ast.Assign(targets=[ast.Name(id=names_[id(a_)], ctx=ast.Store())], value=a_, lineno=st.lineno), st))
                    new_args.append(ast.Name(id=names_[id(a_)], ctx=ast.Load()))
                else:
                    new_args.append(a_)
            for k in rec.keywords:
                if id(k.value) in names_:
                    pre.append(ast.copy_location(ast.Assign(targets=[ast.Name(id=names_[id(k.value)], ctx=ast.Store())], value=k.value, lineno=st.lineno), st))
                    new_kws.append(ast.keyword(arg=k.arg, value=ast.Name(id=names_[id(k.value)], ctx=ast.Load())))
                else:
                    new_kws.append(k)
            rec.args, rec.keywords = new_args, new_kws
            i_ = next(j for j, x in enumerate(owner) if x is st)
            owner[i_:i_] = pre
            changed = True
            continue
        # the arguments must keep their value between the construction and the reads: plain names bound once / parameters / paths on them
        stable = True
        rebound = {x.id for v in vals.values() for x in ast.walk(v) if isinstance(x, ast.Name) and binds.get(x.id, 0) > 1}
        if rebound:
            # an argument bound more than once (the two arms of an `if` in front of the construction): fine when the construction dominates
            # every read of t inside its own block and nothing after it in that block binds the argument again
            stable = False
            blk = None
            for n_ in ast.walk(f.node):
                for fld in ("body", "orelse", "finalbody"):
                    sub = getattr(n_, fld, None)
                    if isinstance(sub, list) and any(x is st for x in sub):
                        blk = sub
            if blk is not None:
                j_ = next(i for i, x in enumerate(blk) if x is st)
                after = [y for s_ in blk[j_ + 1:] for y in ast.walk(s_)]
                after_ids = {id(y) for y in after}
                loads_t = [x for x in ast.walk(f.node) if isinstance(x, ast.Name) and x.id == t and isinstance(x.ctx, ast.Load)]
                if all(id(x) in after_ids for x in loads_t) and not any(isinstance(y, ast.Name) and y.id in rebound and isinstance(y.ctx, (ast.Store, ast.Del)) for y in after) \
                        and not any(isinstance(y, (ast.FunctionDef, ast.AsyncFunctionDef, ast.Lambda)) for y in after if any(isinstance(z, ast.Name) and z.id == t for z in ast.walk(y))):
                    stable = True
        cq = repo.chase(f.mod, rec.func.id)
        cn = repo.classes.get(cq) if cq else None
        is_nt = cn is None or any(U(b) in ("NamedTuple", "typing.NamedTuple") for b in cn.bases)
        par = {}
        for n in ast.walk(f.node):
            for c in ast.iter_child_nodes(n):
                par[c] = n
        # a dataclass instance may be mutated: no attribute store on t and no escape
        uses = [x for x in ast.walk(f.node) if isinstance(x, ast.Name) and x.id == t and isinstance(x.ctx, ast.Load)]
        if not stable:
            continue
        if not is_nt:
            if any(not (isinstance(par.get(u), ast.Attribute) and par[u].value is u and isinstance(par[u].ctx, ast.Load)) for u in uses):
                continue
        disp = lambda: ast.Tuple(elts=[copy.deepcopy(vals[fl]) for fl in fields], ctx=ast.Load())
        # @property members of the record whose body is one return expression over self.<field> / other such properties
        props = {}
        pdefs = {m.name: m for m in (cn.body if cn is not None else []) if isinstance(m, ast.FunctionDef) and any(U(d) == "property" for d in m.decorator_list)}
        for _ in range(3):
            for pname, m in pdefs.items():
                if pname in props:
                    continue
                body_ = [b for b in m.body if not (isinstance(b, ast.Expr) and isinstance(b.value, ast.Constant))]
                if len(body_) != 1 or not isinstance(body_[0], ast.Return) or body_[0].value is None or len(m.args.args) != 1:
                    continue
                sname = m.args.args[0].arg
                ok_ = True

                class PS(ast.NodeTransformer):
                    def visit_Attribute(self, n2):
                        nonlocal ok_
                        self.generic_visit(n2)
                        if isinstance(n2.value, ast.Name) and n2.value.id == sname:
                            if n2.attr in vals:
                                return copy.deepcopy(vals[n2.attr])
                            if n2.attr in props:
                                return copy.deepcopy(props[n2.attr])
                            ok_ = False
                        return n2
                e_ = PS().visit(copy.deepcopy(body_[0].value))
                if ok_ and not any(isinstance(x, ast.Name) and x.id == sname for x in ast.walk(e_)) \
                        and not any(isinstance(x, (ast.Yield, ast.Await, ast.Lambda)) or (isinstance(x, ast.Call) and not (
                            (isinstance(x.func, ast.Name) and x.func.id in ("len", "str") and len(x.args) == 1 and not x.keywords)
                            or (U(x.func) in ("os.path.join", "os.path.basename", "os.path.dirname") and not x.keywords
                                and not any(isinstance(a_, ast.Starred) for a_ in x.args)))) for x in ast.walk(e_)):
                    props[pname] = e_

        class RW(ast.NodeTransformer):
            hit = False

            def visit_Attribute(self, n):
                self.generic_visit(n)
                if isinstance(n.value, ast.Name) and n.value.id == t and isinstance(n.ctx, ast.Load) and n.attr in fields:
                    RW.hit = True
                    return copy.deepcopy(vals[n.attr])
                if isinstance(n.value, ast.Name) and n.value.id == t and isinstance(n.ctx, ast.Load) and n.attr in props:
                    RW.hit = True
                    return copy.deepcopy(props[n.attr])
                return n

            def visit_Subscript(self, n):
                self.generic_visit(n)
                if is_nt and isinstance(n.value, ast.Name) and n.value.id == t and isinstance(n.ctx, ast.Load) and isinstance(n.slice, ast.Constant) and isinstance(n.slice.value, int) \
                        and -len(fields) <= n.slice.value < len(fields):
                    RW.hit = True
                    return copy.deepcopy(vals[fields[n.slice.value]])
                return n

            def visit_For(self, n):
                self.generic_visit(n)
                if is_nt and isinstance(n.iter, ast.Name) and n.iter.id == t:
                    n.iter = disp()
                    RW.hit = True
                return n

            def visit_comprehension(self, n):
                self.generic_visit(n)
                if is_nt and isinstance(n.iter, ast.Name) and n.iter.id == t:
                    n.iter = disp()
                    RW.hit = True
                return n

            def visit_Assign(self, n):
                self.generic_visit(n)
                if is_nt and isinstance(n.value, ast.Name) and n.value.id == t and len(n.targets) == 1 and isinstance(n.targets[0], (ast.Tuple, ast.List)) \
                        and len(n.targets[0].elts) == len(fields) and not any(isinstance(x, ast.Starred) for x in n.targets[0].elts):
                    n.value = disp()
                    RW.hit = True
                return n

            def visit_Call(self, n):
                self.generic_visit(n)
                if is_nt and isinstance(n.func, ast.Attribute) and n.func.attr == "_asdict" and isinstance(n.func.value, ast.Name) and n.func.value.id == t and not n.args and not n.keywords:
                    RW.hit = True
                    return ast.copy_location(ast.Dict(keys=[ast.Constant(value=fl) for fl in fields], values=[copy.deepcopy(vals[fl]) for fl in fields]), n)
                if is_nt and isinstance(n.func, ast.Name) and n.func.id in ("tuple", "list") and len(n.args) == 1 and isinstance(n.args[0], ast.Name) and n.args[0].id == t and not n.keywords:
                    RW.hit = True
                    d = disp()
                    return d if n.func.id == "tuple" else ast.copy_location(ast.List(elts=d.elts, ctx=ast.Load()), n)
                return n

            def visit_Starred(self, n):
                self.generic_visit(n)
                if is_nt and isinstance(n.value, ast.Name) and n.value.id == t and isinstance(n.ctx, ast.Load):
                    n.value = disp()
                    RW.hit = True
                return n
        RW.hit = False
        f.node = RW().visit(f.node)
        if RW.hit:
            changed = True
            if not any(isinstance(x, ast.Name) and x.id == t and isinstance(x.ctx, ast.Load) for x in ast.walk(f.node)):
                # nothing mentions t any more: the construction (of cheap arguments, into a plain record) can go
                def strip(stmts):
                    out = []
                    for s_ in stmts:
                        if s_ is st:
                            continue
                        for fld in ("body", "orelse", "finalbody"):
                            sub = getattr(s_, fld, None)
                            if isinstance(sub, list) and sub and isinstance(sub[0], ast.stmt) and not isinstance(s_, (ast.FunctionDef, ast.ClassDef)):
                                setattr(s_, fld, strip(sub) or [ast.Pass()])
                        if isinstance(s_, ast.Try):
                            for h in s_.handlers:
                                h.body = strip(h.body) or [ast.Pass()]
                        out.append(s_)
                    return out
                f.node.body = strip(f.node.body)
    if changed:
        ast.fix_missing_locations(f.node)
    return changed


def sink_appends(fnode, counter):
    """if c: ...; L.append(a); ...  else: ...; L.append(b); ...   (each arm of the if / elif chain appends to L exactly once, at the
    arm's top level, and does not mention L otherwise)  ->  the arms bind a temporary instead and ONE append follows the statement.
    The appended values are evaluated where they were; only the (effect-free apart from L) append moves past the rest of its arm."""
    changed = False

    def arms_of(st):
        arms = [st.body]
        while len(st.orelse) == 1 and isinstance(st.orelse[0], ast.If):
            st = st.orelse[0]
            arms.append(st.body)
        if not st.orelse:
            return None
        arms.append(st.orelse)
        return arms

    def append_of(s):
        c = s.value if isinstance(s, ast.Expr) and isinstance(s.value, ast.Call) else None
        if c is not None and isinstance(c.func, ast.Attribute) and c.func.attr == "append" and isinstance(c.func.value, ast.Name) and len(c.args) == 1 and not c.keywords:
            return c.func.value.id, c.args[0]
        return None

    def rewrite(stmts):
        nonlocal changed
        out = []
        for st in stmts:
            for fld in ("body", "orelse", "finalbody"):
                sub = getattr(st, fld, None)
                if isinstance(sub, list) and sub and isinstance(sub[0], ast.stmt) and not isinstance(st, (ast.FunctionDef, ast.AsyncFunctionDef, ast.ClassDef)):
                    setattr(st, fld, rewrite(sub))
            if isinstance(st, ast.Try):
                for h in st.handlers:
                    h.body = rewrite(h.body)
            out.append(st)
            if not isinstance(st, ast.If):
                continue
            arms = arms_of(st)
            if arms is None:
                continue
            if any(isinstance(x, (ast.Return, ast.Break, ast.Continue, ast.Raise)) for a in arms for s in a for x in ast.walk(s)):
                continue
            cands = None
            for a in arms:
                here = {}
                for s in a:
                    ap = append_of(s)
                    if ap:
                        here.setdefault(ap[0], []).append(s)
                ok = set()
                for L, ss in here.items():
                    mentions = sum(1 for s in a for x in ast.walk(s) if isinstance(x, ast.Name) and x.id == L)
                    if len(ss) == 1 and mentions == 1:
                        ok.add(L)
                cands = ok if cands is None else cands & ok
            test_names = {x.id for x in ast.walk(st) if isinstance(x, ast.Name)}
            for L in sorted(cands or ()):
                k = counter[0]
                counter[0] += 1
                t = f"{L}__s{k}"
                if t in test_names:
                    continue
                for a in arms:
                    for i, s in enumerate(a):
                        ap = append_of(s)
                        if ap and ap[0] == L:
                            a[i] = ast.copy_location(ast.Assign(targets=[ast.Name(id=t, ctx=ast.Store())], value=ap[1], lineno=s.lineno), s)
                out.append(ast.copy_location(ast.Expr(value=ast.Call(func=ast.Attribute(value=ast.Name(id=L, ctx=ast.Load()), attr="append", ctx=ast.Load()),
                                                                      args=[ast.Name(id=t, ctx=ast.Load())], keywords=[])), st))
                changed = True
        return out
    fnode.body = rewrite(fnode.body)
    if changed:
        ast.fix_missing_locations(fnode)
    return changed


# --------------------------------------------------------------------------------------------------- P4 dicts
def expand_constant_dicts(fnode):
    """locals holding dicts with constant string keys become one local per key; `g(**d)` gets explicit keywords"""
    changed = False
    par = {}
    for n in ast.walk(fnode):
        for c in ast.iter_child_nodes(n):
            par[c] = n
    # plain aliases of a local (`kwargs = arguments`, bound once) are read through first
    counts = {}
    for n in walk_own(fnode):
        if isinstance(n, ast.Assign):
            for t in n.targets:
                for x in ast.walk(t):
                    if isinstance(x, ast.Name) and isinstance(x.ctx, ast.Store):
                        counts[x.id] = counts.get(x.id, 0) + 1
        elif isinstance(n, (ast.AugAssign, ast.For, ast.AnnAssign)):
            for x in ast.walk(n.target):
                if isinstance(x, ast.Name):
                    counts[x.id] = counts.get(x.id, 0) + 1
    aliases = {}
    for n in walk_own(fnode):
        if isinstance(n, ast.Assign) and len(n.targets) == 1 and isinstance(n.targets[0], ast.Name) and isinstance(n.value, ast.Name) \
                and counts.get(n.targets[0].id) == 1 and counts.get(n.value.id) == 1 and n.targets[0].id != n.value.id:
            aliases[n.targets[0].id] = (n.value.id, n)
    if aliases:
        dict_locals = {n.targets[0].id for n in walk_own(fnode) if isinstance(n, ast.Assign) and len(n.targets) == 1 and isinstance(n.targets[0], ast.Name)
                       and (isinstance(n.value, ast.Dict) or (isinstance(n.value, ast.Call) and U(n.value.func) == "dict"))}
        use = {a: (src, st) for a, (src, st) in aliases.items() if src in dict_locals and a not in _CAPTURED}
        if use:
            class AL(ast.NodeTransformer):
                def visit_Name(self, n):
                    if n.id in use and isinstance(n.ctx, ast.Load):
                        return ast.copy_location(ast.Name(id=use[n.id][0], ctx=ast.Load()), n)
                    return n

            def strip(stmts):
                out = []
                for st in stmts:
                    if any(st is u[1] for u in use.values()):
                        continue
                    for fld in ("body", "orelse", "finalbody"):
                        sub = getattr(st, fld, None)
                        if isinstance(sub, list) and sub and isinstance(sub[0], ast.stmt):
                            setattr(st, fld, strip(sub))
                    out.append(AL().visit(st))
                return out
            fnode.body = strip(fnode.body)
            ast.fix_missing_locations(fnode)
            changed = True
            par = {}
            for n in ast.walk(fnode):
                for c in ast.iter_child_nodes(n):
                    par[c] = n
    cands = {}
    for n in walk_own(fnode):
        if isinstance(n, ast.Assign) and len(n.targets) == 1 and isinstance(n.targets[0], ast.Name):
            v = n.value
            lit = isinstance(v, ast.Dict) and all(isinstance(k, ast.Constant) and isinstance(k.value, str) and k.value.isidentifier() for k in v.keys if k is not None) and None not in v.keys
            dc = isinstance(v, ast.Call) and isinstance(v.func, ast.Name) and v.func.id == "dict" and not v.args and all(k.arg for k in v.keywords)
            if lit or dc:
                cands.setdefault(n.targets[0].id, []).append(n)
    for d, defs in cands.items():
        if len(defs) != 1 or d in _CAPTURED:
            continue
        init = defs[0]
        keys = [k.value for k in init.value.keys] if isinstance(init.value, ast.Dict) else [k.arg for k in init.value.keywords]
        ok = True
        star_uses = []
        view_uses = []
        for x in walk_own(fnode):
            if isinstance(x, ast.Name) and x.id == d and x is not init.targets[0]:
                p = par.get(x)
                if isinstance(p, ast.Subscript) and p.value is x and isinstance(p.slice, ast.Constant) and isinstance(p.slice.value, str) and p.slice.value.isidentifier():
                    if isinstance(p.ctx, ast.Store) and p.slice.value not in keys:
                        keys.append(p.slice.value)
                    continue
                if isinstance(p, ast.keyword) and p.arg is None and p.value is x:
                    star_uses.append(p)
                    continue
                # obj.__dict__.update(d): one attribute store per key
                if isinstance(p, ast.Call) and p.args == [x] and not p.keywords and isinstance(p.func, ast.Attribute) and p.func.attr == "update" \
                        and isinstance(p.func.value, ast.Attribute) and p.func.value.attr == "__dict__" and isinstance(par.get(p), ast.Expr):
                    continue
                # d.items() / d.keys() / d.values(): iteration in insertion order = the order of the display (no key may be added later)
                if isinstance(p, ast.Attribute) and p.value is x and p.attr in ("items", "keys", "values") and isinstance(par.get(p), ast.Call) and par[p].func is p \
                        and not par[p].args and not par[p].keywords:
                    view_uses.append(par[p])
                    continue
                if isinstance(p, ast.Return) and p.value is x:
                    ok = False      # the dict escapes
                    break
                ok = False
                break
        n_literal = len(init.value.keys) if isinstance(init.value, ast.Dict) else len(init.value.keywords)
        if view_uses and len(keys) != n_literal:
            # keys added after the display: fine if each is stored exactly once, by a statement of the same statement list as the display,
            # before the first view is taken (insertion order is then display order followed by the order of those statements)
            owner_list = None
            for n_ in ast.walk(fnode):
                for fld in ("body", "orelse", "finalbody"):
                    sub = getattr(n_, fld, None)
                    if isinstance(sub, list) and any(x is init for x in sub):
                        owner_list = sub
            added = keys[n_literal:]
            first_view = min(getattr(v_, "lineno", 10 ** 9) for v_ in view_uses)
            order = []
            good = owner_list is not None
            if good:
                for st_ in owner_list:
                    if isinstance(st_, ast.Assign) and len(st_.targets) == 1 and isinstance(st_.targets[0], ast.Subscript) and isinstance(st_.targets[0].value, ast.Name) \
                            and st_.targets[0].value.id == d and isinstance(st_.targets[0].slice, ast.Constant) and st_.targets[0].slice.value in added:
                        if getattr(st_, "lineno", 0) >= first_view:
                            good = False
                        order.append(st_.targets[0].slice.value)
                all_stores = [p_ for x in walk_own(fnode) if isinstance(x, ast.Name) and x.id == d for p_ in [par.get(x)]
                              if isinstance(p_, ast.Subscript) and isinstance(p_.ctx, ast.Store) and isinstance(p_.slice, ast.Constant) and p_.slice.value in added]
                good = good and sorted(order) == sorted(added) and len(all_stores) == len(added)
            if good:
                keys[n_literal:] = order
            else:
                ok = False
        if not ok or not keys:
            continue
        # every loaded key must be known
        loaded = {p.slice.value for x in walk_own(fnode) if isinstance(x, ast.Name) and x.id == d
                  for p in [par.get(x)] if isinstance(p, ast.Subscript) and isinstance(p.ctx, ast.Load)}
        if not loaded <= set(keys):
            continue

        def nm(k):
            return f"{d}__{k}"

        class RW(ast.NodeTransformer):
            def visit_Subscript(self, n):
                self.generic_visit(n)
                if isinstance(n.value, ast.Name) and n.value.id == d and isinstance(n.slice, ast.Constant):
                    return ast.copy_location(ast.Name(id=nm(n.slice.value), ctx=n.ctx), n)
                return n

            def visit_Call(self, n):
                self.generic_visit(n)
                if isinstance(n.func, ast.Attribute) and isinstance(n.func.value, ast.Name) and n.func.value.id == d and n.func.attr in ("items", "keys", "values") and not n.args:
                    if n.func.attr == "items":
                        els = [ast.Tuple(elts=[ast.Constant(value=k_), ast.Name(id=nm(k_), ctx=ast.Load())], ctx=ast.Load()) for k_ in keys]
                    elif n.func.attr == "keys":
                        els = [ast.Constant(value=k_) for k_ in keys]
                    else:
                        els = [ast.Name(id=nm(k_), ctx=ast.Load()) for k_ in keys]
                    return ast.copy_location(ast.Tuple(elts=els, ctx=ast.Load()), n)
                kws = []
                for k in n.keywords:
                    if k.arg is None and isinstance(k.value, ast.Name) and k.value.id == d:
                        kws += [ast.keyword(arg=key, value=ast.Name(id=nm(key), ctx=ast.Load())) for key in keys]
                    else:
                        kws.append(k)
                n.keywords = kws
                return n

        def rewrite(stmts):
            out = []
            for st in stmts:
                if isinstance(st, ast.Expr) and isinstance(st.value, ast.Call) and len(st.value.args) == 1 and isinstance(st.value.args[0], ast.Name) and st.value.args[0].id == d \
                        and isinstance(st.value.func, ast.Attribute) and st.value.func.attr == "update" and isinstance(st.value.func.value, ast.Attribute) and st.value.func.value.attr == "__dict__":
                    obj = st.value.func.value.value
                    for key in keys:
                        out.append(ast.copy_location(ast.Assign(targets=[ast.Attribute(value=copy.deepcopy(obj), attr=key, ctx=ast.Store())], value=ast.Name(id=nm(key), ctx=ast.Load()), lineno=st.lineno), st))
                    continue
                if st is init:
                    pairs = zip(init.value.keys, init.value.values) if isinstance(init.value, ast.Dict) else [(ast.Constant(value=k.arg), k.value) for k in init.value.keywords]
                    for k, v in pairs:
                        out.append(ast.copy_location(ast.Assign(targets=[ast.Name(id=nm(k.value), ctx=ast.Store())], value=v, lineno=st.lineno), st))
                    continue
                for fld in ("body", "orelse", "finalbody"):
                    sub = getattr(st, fld, None)
                    if isinstance(sub, list) and sub and isinstance(sub[0], ast.stmt):
                        setattr(st, fld, rewrite(sub))
                out.append(RW().visit(st))
            return out
        fnode.body = rewrite(fnode.body)
        ast.fix_missing_locations(fnode)
        changed = True
        par = {}
        for n in ast.walk(fnode):
            for c in ast.iter_child_nodes(n):
                par[c] = n
    return changed


# --------------------------------------------------------------------------------------------------- forward propagation
def _nonnull_call(c):
    from .inliner import _nonnull_expr
    return _nonnull_expr(c)


def sink_optional_uses_into_arms(fnode, counter):
    """if a: v = E1 elif b: v = None else: v = E2     followed by statements that mention v (typically `if v is not None: use(v)`)
    ->  the statements up to the last mention of v are moved into every arm, where `v is None` is then decided arm by arm.
    Exclusive arms, the moved statements ran right after them: plain code motion.  Only when some arm binds None (otherwise nothing is
    gained) and v is bound nowhere else."""
    changed = False

    def arms_of(st):
        arms = [st.body]
        n = st
        while len(n.orelse) == 1 and isinstance(n.orelse[0], ast.If):
            n = n.orelse[0]
            arms.append(n.body)
        if not n.orelse:
            return None
        arms.append(n.orelse)
        return arms

    def rewrite(stmts):
        nonlocal changed
        for owner in stmts:
            for fld in ("body", "orelse", "finalbody"):
                sub = getattr(owner, fld, None)
                if isinstance(sub, list) and sub and isinstance(sub[0], ast.stmt) and not isinstance(owner, (ast.FunctionDef, ast.AsyncFunctionDef, ast.ClassDef)):
                    setattr(owner, fld, rewrite(sub))
        # v = None; if c: ..; v = E        ->   if c: ..; v = E  else: v = None        (v not mentioned by c nor earlier in the arm)
        k = 0
        while k + 1 < len(stmts):
            a_, b_ = stmts[k], stmts[k + 1]
            if isinstance(a_, ast.Assign) and len(a_.targets) == 1 and isinstance(a_.targets[0], ast.Name) and isinstance(a_.value, ast.Constant) and a_.value.value is None \
                    and isinstance(b_, ast.If) and not b_.orelse and b_.body and isinstance(b_.body[-1], ast.Assign) and len(b_.body[-1].targets) == 1 \
                    and isinstance(b_.body[-1].targets[0], ast.Name) and b_.body[-1].targets[0].id == a_.targets[0].id:
                v_ = a_.targets[0].id
                mentions = [x for part in [b_.test] + b_.body[:-1] + [b_.body[-1].value] for x in ast.walk(part) if isinstance(x, ast.Name) and x.id == v_]
                if not mentions:
                    b_.orelse = [a_]
                    del stmts[k]
                    changed = True
                    continue
            k += 1
        for i, st in enumerate(stmts):
            if not isinstance(st, ast.If) or i + 1 >= len(stmts):
                continue
            arms = arms_of(st)
            if arms is None or any(a and isinstance(a[-1], (ast.Return, ast.Raise, ast.Continue, ast.Break)) for a in arms):
                continue
            cands = None
            for a in arms:
                last = a[-1] if a else None
                here = {last.targets[0].id} if isinstance(last, ast.Assign) and len(last.targets) == 1 and isinstance(last.targets[0], ast.Name) else set()
                cands = here if cands is None else cands & here
            for v in sorted(cands or ()):
                some_none = any(isinstance(a[-1].value, ast.Constant) and a[-1].value.value is None for a in arms)
                all_flags = all(isinstance(a[-1].value, ast.Constant) and isinstance(a[-1].value.value, bool) for a in arms)
                def boolish(e):
                    return (isinstance(e, ast.Constant) and isinstance(e.value, bool)) or (isinstance(e, (ast.Compare, ast.BoolOp)) or (isinstance(e, ast.UnaryOp) and isinstance(e.op, ast.Not))) \
                        and not any(isinstance(x, (ast.Call, ast.Await, ast.NamedExpr, ast.Yield, ast.YieldFrom)) for x in ast.walk(e))
                some_flag = any(isinstance(a[-1].value, ast.Constant) and isinstance(a[-1].value.value, bool) for a in arms) and all(boolish(a[-1].value) for a in arms)
                if not (some_none or all_flags or some_flag):
                    continue
                n_binds = sum(1 for x in ast.walk(fnode) if isinstance(x, ast.Name) and x.id == v and isinstance(x.ctx, (ast.Store, ast.Del)))
                if n_binds != len(arms):
                    continue
                tail = stmts[i + 1:]
                last_use = max((j for j, t in enumerate(tail) if any(isinstance(x, ast.Name) and x.id == v for x in ast.walk(t))), default=None)
                if last_use is None:
                    continue
                inside = {id(x) for t in [st] + tail for x in ast.walk(t)}
                if any(isinstance(x, ast.Name) and x.id == v and id(x) not in inside for x in ast.walk(fnode)):
                    continue
                region = tail[:last_use + 1]
                if any(isinstance(x, (ast.Return, ast.Yield, ast.YieldFrom)) for t in region for x in ast.walk(t)):
                    continue
                # break / continue keep their meaning: the region stays inside the same loop, only nested one `if` deeper
                if sum(len(list(ast.walk(t))) for t in region) > 400:
                    continue
                region_stores = {x.id for t in region for x in ast.walk(t) if isinstance(x, ast.Name) and isinstance(x.ctx, (ast.Store, ast.Del))}
                for a in arms:
                    bind = a[-1]
                    moved = [copy.deepcopy(t) for t in region]
                    if some_flag and not (some_none or all_flags) and not isinstance(bind.value, ast.Constant) \
                            and not ({x.id for x in ast.walk(bind.value) if isinstance(x, ast.Name)} & (region_stores | {v})):
                        # the arm's flag is a call-free test of names the moved statements do not re-bind: read it where it is used
                        moved = [_Sub({v: bind.value}, {}).visit(t) for t in moved]
                        a.pop()
                    a.extend(moved)
                    if not a:
                        a.append(ast.Pass())
                changed = True
                return stmts[:i + 1] + tail[last_use + 1:]
        return stmts
    for _ in range(4):
        before = changed
        changed = False
        fnode.body = rewrite(fnode.body)
        if not changed:
            changed = before
            break
    if changed:
        ast.fix_missing_locations(fnode)
    return changed


def sink_exit_test_into_arms(fnode):
    """T; if v is None: <exit>; REST        at the top level of the function, T an if-tree whose every fall-through leaf ends in a
    binding of v - the constant None in some leaf, a value that cannot be None (a construction, a display) in the others
    ->  `if v is None: <exit>; REST` is appended to every leaf, where the test is then decided.  The leaves are exclusive and the moved
    statements ran right after them: plain code motion.  (The shape left by splicing a helper that returns `None` early and a record
    otherwise, in front of the caller's own `nothing to do` exit.)  merge_duplicated_tails undoes the duplication afterwards."""
    body = fnode.body
    for i, st in enumerate(body[:-1]):
        nxt = body[i + 1]
        if not isinstance(st, ast.If) or not isinstance(nxt, ast.If):
            continue
        t = nxt.test
        if isinstance(t, ast.UnaryOp) and isinstance(t.op, ast.Not):
            t = t.operand
        if isinstance(t, ast.Compare) and len(t.ops) == 1 and isinstance(t.ops[0], (ast.Is, ast.IsNot)) and U(t.comparators[0]) == "None":
            t = t.left
        if not isinstance(t, ast.Name):
            continue
        v = t.id
        leaves = []

        def collect(block):
            if not block:
                return False
            last = block[-1]
            if isinstance(last, (ast.Return, ast.Raise)):
                return True
            if isinstance(last, ast.If):
                if not last.orelse:
                    return False
                return collect(last.body) and collect(last.orelse)
            if isinstance(last, ast.Assign) and len(last.targets) == 1 and isinstance(last.targets[0], ast.Name) and last.targets[0].id == v:
                leaves.append(block)
                return True
            return False
        if not st.orelse or not collect([st]) or not (2 <= len(leaves) <= 4):
            continue
        vals = [b[-1].value for b in leaves]
        is_none = [isinstance(x, ast.Constant) and x.value is None for x in vals]
        if not any(is_none) or not all(n_ or isinstance(x, (ast.List, ast.Tuple, ast.Dict)) or (isinstance(x, ast.Call) and _nonnull_call(x)) for n_, x in zip(is_none, vals)):
            continue
        rest = body[i + 1:]
        if sum(len(list(ast.walk(x))) for x in rest) * len(leaves) > 4000:
            continue
        for b in leaves:
            b.extend(copy.deepcopy(x) for x in rest)
        del body[i + 1:]
        ast.fix_missing_locations(fnode)
        return True
    return False


def merge_duplicated_tails(fnode):
    """the inverse of early-return elimination, on the function's last statement: `if c: A; <exit> else: B` -> `if c: A; <exit>` B, and
    `if c: A; S else: S` -> `if c: A` S   (S the whole else arm, textually the arm's own suffix).  Both arms run S next in either form."""
    changed = False

    def exits(block):
        if not block:
            return False
        last = block[-1]
        if isinstance(last, (ast.Return, ast.Raise)):
            return True
        if isinstance(last, ast.If):
            return exits(last.body) and exits(last.orelse)
        return False

    def untail(block):
        nonlocal changed
        if not block or not isinstance(block[-1], ast.If):
            return block
        st = block[-1]
        st.body, st.orelse = untail(st.body), untail(st.orelse)
        b, o = st.body, st.orelse
        if o and len(o) <= len(b) and all(U(x) == U(y) for x, y in zip(b[len(b) - len(o):], o)) and len(b) > len(o):
            st.body, st.orelse = b[:len(b) - len(o)], []
            changed = True
            return block[:-1] + [st] + o
        if o and exits(b) and not (len(o) == 1 and isinstance(o[0], ast.If)):
            st.orelse = []
            changed = True
            return untail(block[:-1] + [st] + o) if isinstance(o[-1], ast.If) else block[:-1] + [st] + o
        return block
    fnode.body = untail(fnode.body)

    def dead_stores(block):
        # v = <constant>; return X / raise X   (X does not mention the local v, no closure reads it): the store is dead
        nonlocal changed
        k = 0
        while k + 1 < len(block):
            a_, b_ = block[k], block[k + 1]
            if isinstance(a_, ast.Assign) and len(a_.targets) == 1 and isinstance(a_.targets[0], ast.Name) and isinstance(a_.value, ast.Constant) \
                    and isinstance(b_, (ast.Return, ast.Raise)) and a_.targets[0].id not in _CAPTURED \
                    and not any(isinstance(x, ast.Name) and x.id == a_.targets[0].id for x in ast.walk(b_)):
                del block[k]
                changed = True
                continue
            k += 1
        for st in block:
            if isinstance(st, ast.If):
                dead_stores(st.body)
                dead_stores(st.orelse)
    if changed:
        dead_stores(fnode.body)
        ast.fix_missing_locations(fnode)
    return changed


def forward_none_tests(stmts, known=None):
    """walk a statement list top-down remembering which names hold None / a non-None value, and decide `x is None` /
    `x is not None` tests that follow (straight-line only: loops and tries forget what they assign)"""
    known = dict(known or {})          # name -> True (is None) | False (is not None)
    changed = False
    out = []

    def kill(node):
        for x in ast.walk(node):
            if isinstance(x, ast.Name) and isinstance(x.ctx, ast.Store):
                known.pop(x.id, None)

    class T(ast.NodeTransformer):
        def __init__(self):
            self.hit = False

        def visit_Compare(self, n):
            self.generic_visit(n)
            if len(n.ops) == 1 and isinstance(n.ops[0], (ast.Is, ast.IsNot)) and isinstance(n.left, ast.Name) and n.left.id in known and U(n.comparators[0]) == "None":
                self.hit = True
                return ast.copy_location(ast.Constant(value=known[n.left.id] == isinstance(n.ops[0], ast.Is)), n)
            return n

        def visit_FunctionDef(self, n):
            return n

        def visit_Lambda(self, n):
            return n
    for st in stmts:
        if isinstance(st, ast.Assign) and len(st.targets) == 1 and isinstance(st.targets[0], ast.Name):
            t = T()
            st.value = t.visit(st.value)
            changed = changed or t.hit
            nm = st.targets[0].id
            if isinstance(st.value, ast.Constant) and st.value.value is None:
                known[nm] = True
            elif nm in _ITEM_ACCUMULATORS:
                known[nm] = False
            elif isinstance(st.value, (ast.BinOp, ast.Call, ast.List, ast.Tuple, ast.Dict, ast.ListComp, ast.Subscript, ast.Attribute, ast.Compare)) or \
                    (isinstance(st.value, ast.Constant) and st.value.value is not None):
                # arithmetic, displays and constants are not None; calls / subscripts / attributes may be: only trust the safe ones
                if isinstance(st.value, (ast.BinOp, ast.List, ast.Tuple, ast.Dict, ast.ListComp, ast.Compare)) or isinstance(st.value, ast.Constant):
                    known[nm] = False
                elif isinstance(st.value, (ast.Call, ast.Attribute)) and _nonnull_call(st.value):
                    known[nm] = False            # (for an attribute: one that every class only ever binds to a dereferenced value)
                else:
                    known.pop(nm, None)
            elif isinstance(st.value, ast.Name) and st.value.id in known:
                known[nm] = known[st.value.id]
            else:
                known.pop(nm, None)
            out.append(st)
            continue
        if isinstance(st, ast.If):
            t = T()
            st.test = t.visit(st.test)
            changed = changed or t.hit
            if isinstance(st.test, ast.Constant) and isinstance(st.test.value, bool):
                arm = st.body if st.test.value else st.orelse
                new, ch = forward_none_tests(arm, known)
                # continue with the knowledge after that arm
                sub_known = dict(known)
                for s2 in new:
                    out.append(s2)
                # recompute knowledge by re-walking the arm's assignments
                for s2 in new:
                    if isinstance(s2, ast.Assign) and len(s2.targets) == 1 and isinstance(s2.targets[0], ast.Name):
                        v2 = s2.value
                        if isinstance(v2, ast.Constant) and v2.value is None:
                            known[s2.targets[0].id] = True
                        elif isinstance(v2, (ast.BinOp, ast.List, ast.Tuple, ast.Dict, ast.ListComp, ast.Compare)) or (isinstance(v2, ast.Constant) and v2.value is not None):
                            known[s2.targets[0].id] = False
                        elif isinstance(v2, ast.Name) and v2.id in known:
                            known[s2.targets[0].id] = known[v2.id]
                        else:
                            known.pop(s2.targets[0].id, None)
                    else:
                        kill(s2)
                changed = True
                continue
            st.body, c1 = forward_none_tests(st.body, known)
            st.orelse, c2 = forward_none_tests(st.orelse, known)
            changed = changed or c1 or c2
            kill(st)
            out.append(st)
            continue
        if isinstance(st, (ast.Expr, ast.Return, ast.Raise, ast.Assert)):
            t = T()
            new = t.visit(st)
            changed = changed or t.hit
            out.append(new)
            continue
        if isinstance(st, (ast.For, ast.AsyncFor, ast.While, ast.With, ast.AsyncWith)):
            # inside a loop / with body: what is known about names the statement does not bind anywhere stays known; the body's own
            # straight-line knowledge starts from there (each iteration starts from the same facts)
            stored_in = {x.id for x in ast.walk(st) if isinstance(x, ast.Name) and isinstance(x.ctx, (ast.Store, ast.Del))}
            inner_known = {k: v for k, v in known.items() if k not in stored_in}
            st.body, c1 = forward_none_tests(st.body, inner_known)
            changed = changed or c1
            if getattr(st, "orelse", None):
                st.orelse, c2 = forward_none_tests(st.orelse, inner_known)
                changed = changed or c2
        kill(st)
        out.append(st)
    return out, changed


# --------------------------------------------------------------------------------------------------- grouping dicts
def setdefault_groups(fnode):
    """D = {} ... D.setdefault("k", []).append(x) (constant keys, unconditional statements)
       ->  D__k = [] ; D = {"k": D__k, ..} at the initialisation, and  D__k.append(x)  at each site
    (the dict holds the very lists that are appended to, and the keys appear in first-occurrence order, as before)"""
    changed = False
    inits = {}
    for n in walk_own(fnode):
        if isinstance(n, (ast.Assign, ast.AnnAssign)):
            t = n.targets[0] if isinstance(n, ast.Assign) and len(n.targets) == 1 else (n.target if isinstance(n, ast.AnnAssign) else None)
            v = n.value
            if isinstance(t, ast.Name) and v is not None and ((isinstance(v, ast.Dict) and not v.keys) or (isinstance(v, ast.Call) and U(v.func) in ("dict", "defaultdict", "collections.defaultdict") and
                                                                                                               (not v.args or U(v.args[0]) == "list") and not v.keywords)):
                inits.setdefault(t.id, []).append(n)
    par = {}
    for n in ast.walk(fnode):
        for c in ast.iter_child_nodes(n):
            par[c] = n

    def unconditional(st):
        p = par.get(st)
        while p is not None and p is not fnode:
            if not isinstance(p, (ast.With, ast.AsyncWith)):
                return False
            p = par.get(p)
        return True
    for d, ins in inits.items():
        if len(ins) != 1 or not unconditional(ins[0]):
            continue
        sites = []
        keys = []
        ok = True
        for x in walk_own(fnode):
            if isinstance(x, ast.Name) and x.id == d and isinstance(x.ctx, ast.Store) and par.get(x) is not ins[0]:
                ok = False
            if not (isinstance(x, ast.Name) and x.id == d and isinstance(x.ctx, ast.Load)):
                continue
            p1 = par.get(x)
            # D.setdefault("k", []).append(E)   or   D["k"].append(E) for a defaultdict(list)
            call_sd = par.get(p1) if isinstance(p1, ast.Attribute) and p1.attr == "setdefault" else None
            if isinstance(call_sd, ast.Call) and call_sd.func is p1 and len(call_sd.args) == 2 and isinstance(call_sd.args[0], ast.Constant) and isinstance(call_sd.args[0].value, str) \
                    and call_sd.args[0].value.isidentifier() and U(call_sd.args[1]) == "[]":
                app_attr = par.get(call_sd)
                app_call = par.get(app_attr) if isinstance(app_attr, ast.Attribute) and app_attr.attr == "append" else None
                stmt = par.get(app_call) if isinstance(app_call, ast.Call) and app_call.func is app_attr and len(app_call.args) == 1 else None
                if isinstance(stmt, ast.Expr) and unconditional(stmt):
                    sites.append((stmt, call_sd.args[0].value, app_call.args[0]))
                    if call_sd.args[0].value not in keys:
                        keys.append(call_sd.args[0].value)
                    continue
                ok = False
        if not ok or not sites:
            continue

        def nm(k):
            return f"{d}__{k}"
        site_map = {id(s_[0]): s_ for s_ in sites}

        def rewrite(stmts):
            out = []
            for st in stmts:
                if st is ins[0]:
                    for k in keys:
                        out.append(ast.copy_location(ast.Assign(targets=[ast.Name(id=nm(k), ctx=ast.Store())], value=ast.List(elts=[], ctx=ast.Load()), lineno=st.lineno), st))
                    out.append(ast.copy_location(ast.Assign(targets=[ast.Name(id=d, ctx=ast.Store())],
                                                            value=ast.Dict(keys=[ast.Constant(value=k) for k in keys], values=[ast.Name(id=nm(k), ctx=ast.Load()) for k in keys]), lineno=st.lineno), st))
                    continue
                if id(st) in site_map:
                    _, k, el = site_map[id(st)]
                    out.append(ast.copy_location(ast.Expr(value=ast.Call(func=ast.Attribute(value=ast.Name(id=nm(k), ctx=ast.Load()), attr="append", ctx=ast.Load()), args=[el], keywords=[])), st))
                    continue
                for fld in ("body", "orelse", "finalbody"):
                    sub = getattr(st, fld, None)
                    if isinstance(sub, list) and sub and isinstance(sub[0], ast.stmt) and not isinstance(st, (ast.FunctionDef, ast.ClassDef)):
                        setattr(st, fld, rewrite(sub))
                out.append(st)
            return out
        fnode.body = rewrite(fnode.body)
        ast.fix_missing_locations(fnode)
        changed = True
        par = {}
        for n in ast.walk(fnode):
            for c in ast.iter_child_nodes(n):
                par[c] = n
    return changed


# --------------------------------------------------------------------------------------------------- functools.reduce
_ITEM_ACCUMULATORS = set()     # accumulators introduced for reduce(F, iterator): seeded with None, then only ever bound to items / F results,
                                # which assumption A-nonnull-unique takes to be not None


def unfold_reduce(stmts, counter):
    """x = functools.reduce(F, IT, INIT) / return functools.reduce(..)   ->   acc = INIT; for e in IT: acc = F(acc, e); x = acc
    without INIT (IT a plain name / path, taken to be a sequence):  acc = IT[0]; for e in IT[1:]: ..."""
    changed = False
    out = []
    for st in stmts:
        for fld in ("body", "orelse", "finalbody"):
            sub = getattr(st, fld, None)
            if isinstance(sub, list) and sub and isinstance(sub[0], ast.stmt) and not isinstance(st, (ast.FunctionDef, ast.ClassDef)):
                new, ch = unfold_reduce(sub, counter)
                setattr(st, fld, new)
                changed = changed or ch
        v = st.value if isinstance(st, (ast.Assign, ast.Return)) else None
        # a reduce nested in the statement's value (evaluated unconditionally, once; everything evaluated before it is a plain name / path):
        # it gets a name of its own first and is unfolded on the next round
        if v is not None and not (isinstance(v, ast.Call) and U(v.func) in ("functools.reduce", "reduce")):
            from .inliner import _hoistable_calls
            nested = [c for c in _hoistable_calls(v, allow_top=False) if U(c.func) in ("functools.reduce", "reduce") and 2 <= len(c.args) <= 3 and not c.keywords]
            others = [c for c in ast.walk(v) if isinstance(c, ast.Call) and not any(c is x or any(c is y for y in ast.walk(x)) for x in nested) and c is not v]
            if len(nested) == 1 and not others and (not isinstance(v, ast.Call) or all(_cheap(a) or a is nested[0] for a in list(v.args) + [k.value for k in v.keywords])):
                counter[0] += 1
                tmp = f"_red{counter[0]}"
                out.append(ast.copy_location(ast.Assign(targets=[ast.Name(id=tmp, ctx=ast.Store())], value=nested[0], lineno=st.lineno), st))
                target_call = nested[0]

                class H(ast.NodeTransformer):
                    def visit_Call(self, n):
                        if n is target_call:
                            return ast.Name(id=tmp, ctx=ast.Load())
                        self.generic_visit(n)
                        return n
                st = H().visit(st)
                ast.fix_missing_locations(st)
                out.append(st)
                changed = True
                continue
        if isinstance(v, ast.Call) and U(v.func) in ("functools.reduce", "reduce") and 2 <= len(v.args) <= 3 and not v.keywords:
            F, IT = v.args[0], v.args[1]
            init = v.args[2] if len(v.args) == 3 else None
            if init is None and isinstance(IT, (ast.Call, ast.GeneratorExp)) and not any(isinstance(x, (ast.Await, ast.Yield, ast.YieldFrom)) for x in ast.walk(IT)):
                # an iterator consumed once (a generator call, a generator expression): the first item seeds the accumulator.
                # (Assumption A-nonnull-unique: the items are not None; an empty iterator gives None here where reduce raises TypeError.)
                counter[0] += 1
                acc, el = f"_acc{counter[0]}", f"_el{counter[0]}"
                _ITEM_ACCUMULATORS.add(acc)
                call = ast.Call(func=F, args=[ast.Name(id=acc, ctx=ast.Load()), ast.Name(id=el, ctx=ast.Load())], keywords=[])
                test = ast.Compare(left=ast.Name(id=acc, ctx=ast.Load()), ops=[ast.Is()], comparators=[ast.Constant(value=None)])
                new = [ast.Assign(targets=[ast.Name(id=acc, ctx=ast.Store())], value=ast.Constant(value=None), lineno=st.lineno, col_offset=0),
                       ast.For(target=ast.Name(id=el, ctx=ast.Store()), iter=IT, orelse=[], lineno=st.lineno, col_offset=0,
                               body=[ast.If(test=test, body=[ast.Assign(targets=[ast.Name(id=acc, ctx=ast.Store())], value=ast.Name(id=el, ctx=ast.Load()), lineno=st.lineno, col_offset=0)],
                                            orelse=[ast.Assign(targets=[ast.Name(id=acc, ctx=ast.Store())], value=call, lineno=st.lineno, col_offset=0)], lineno=st.lineno, col_offset=0)])]
                if isinstance(st, ast.Return):
                    new.append(ast.Return(value=ast.Name(id=acc, ctx=ast.Load())))
                else:
                    new.append(ast.Assign(targets=st.targets, value=ast.Name(id=acc, ctx=ast.Load()), lineno=st.lineno, col_offset=0))
                for x in new:
                    ast.fix_missing_locations(x)
                out += new
                changed = True
                continue
            if init is None and isinstance(IT, (ast.ListComp, ast.List, ast.Tuple)) and not any(isinstance(x, (ast.Await, ast.Yield, ast.YieldFrom, ast.NamedExpr)) for x in ast.walk(IT)):
                # a list built on the spot: it gets a name, then the sequence form below applies
                counter[0] += 1
                src = f"_seq{counter[0]}"
                out.append(ast.fix_missing_locations(ast.copy_location(ast.Assign(targets=[ast.Name(id=src, ctx=ast.Store())], value=IT, lineno=st.lineno), st)))
                IT = ast.Name(id=src, ctx=ast.Load())
            if init is None and not _cheap(IT):
                out.append(st)
                continue
            counter[0] += 1
            acc, el = f"_acc{counter[0]}", f"_el{counter[0]}"
            if init is None:
                first = ast.Subscript(value=copy.deepcopy(IT), slice=ast.Constant(value=0), ctx=ast.Load())
                rest = ast.Subscript(value=copy.deepcopy(IT), slice=ast.Slice(lower=ast.Constant(value=1), upper=None, step=None), ctx=ast.Load())
            else:
                first, rest = init, IT
            call = ast.Call(func=F, args=[ast.Name(id=acc, ctx=ast.Load()), ast.Name(id=el, ctx=ast.Load())], keywords=[])
            new = [ast.Assign(targets=[ast.Name(id=acc, ctx=ast.Store())], value=first, lineno=st.lineno, col_offset=0),
                   ast.For(target=ast.Name(id=el, ctx=ast.Store()), iter=rest, orelse=[], lineno=st.lineno, col_offset=0,
                           body=[ast.Assign(targets=[ast.Name(id=acc, ctx=ast.Store())], value=call, lineno=st.lineno, col_offset=0)])]
            if isinstance(st, ast.Return):
                new.append(ast.Return(value=ast.Name(id=acc, ctx=ast.Load())))
            else:
                new.append(ast.Assign(targets=st.targets, value=ast.Name(id=acc, ctx=ast.Load()), lineno=st.lineno, col_offset=0))
            for x in new:
                ast.fix_missing_locations(x)
            out += new
            changed = True
            continue
        out.append(st)
    return out, changed


def loops_over_generator_expressions(fnode, counter):
    """for x in (E(y) for y in IT [if C]): BODY   ->   for y in IT: [if C:] x = E(y); BODY       (one generator, names of y fresh w.r.t. BODY;
    BODY without `continue` when there is a filter, so that no iteration is skipped differently)"""
    changed = False

    def rewrite(stmts):
        nonlocal changed
        out = []
        for st in stmts:
            for fld in ("body", "orelse", "finalbody"):
                sub = getattr(st, fld, None)
                if isinstance(sub, list) and sub and isinstance(sub[0], ast.stmt) and not isinstance(st, (ast.FunctionDef, ast.AsyncFunctionDef, ast.ClassDef)):
                    setattr(st, fld, rewrite(sub))
            if isinstance(st, ast.Try):
                for h in st.handlers:
                    h.body = rewrite(h.body)
            if isinstance(st, ast.For) and isinstance(st.iter, (ast.GeneratorExp, ast.ListComp)) and len(st.iter.generators) == 1 and not st.orelse and isinstance(st.target, ast.Name):
                g = st.iter.generators[0]
                inner_names = {x.id for x in ast.walk(g.target) if isinstance(x, ast.Name)}
                body_names = {x.id for b in st.body for x in ast.walk(b) if isinstance(x, ast.Name)}
                others = {x.id for x in ast.walk(fnode) if isinstance(x, ast.Name)} - inner_names
                mentioned_elsewhere = any(isinstance(x, ast.Name) and x.id in inner_names for x in ast.walk(fnode) if not any(x is y for y in ast.walk(st.iter)))
                has_continue = any(isinstance(x, ast.Continue) for b in st.body for x in ast.walk(b))
                if not g.is_async and not (g.ifs and has_continue) and st.target.id not in inner_names:
                    # the comprehension's variables become loop variables of the function: fresh names, so that nothing else is captured
                    k = counter[0]
                    counter[0] += 1
                    ren = _Sub({}, {n_: f"{n_}__l{k}" for n_ in inner_names})
                    elt = ren.visit(copy.deepcopy(st.iter.elt))
                    tgt = ren.visit(copy.deepcopy(g.target))
                    ifs = [ren.visit(copy.deepcopy(c)) for c in g.ifs]
                    bind = ast.Assign(targets=[ast.Name(id=st.target.id, ctx=ast.Store())], value=elt, lineno=st.lineno, col_offset=0)
                    body = [bind] + st.body
                    for c in reversed(ifs):
                        body = [ast.If(test=c, body=body, orelse=[], lineno=st.lineno, col_offset=0)]
                    new = ast.For(target=tgt, iter=g.iter, body=body, orelse=[], lineno=st.lineno, col_offset=0)
                    ast.fix_missing_locations(new)
                    out.append(new)
                    changed = True
                    continue
            out.append(st)
        return out
    fnode.body = rewrite(fnode.body)
    return changed


_PURE_CALL_PREFIXES = ("math.", "np.", "numpy.")
_PURE_CALL_NAMES = {"len", "int", "float", "abs", "min", "max", "round", "str", "bool", "tuple"}


def loops_over_zipped_comprehensions(fnode, counter):
    """A = [E1(p) for p in IT if C]; B = [E2(q) for q in IT if C]; for a, b in zip(A, B): BODY      (A, B bound once, used in this zip only; the
    same iterable and - up to the variable's name - the same filter; E1, E2, C free of calls other than arithmetic helpers; BODY stores into
    nothing the comprehensions read)   ->   for p in IT: [if C:] a = E1(p); b = E2(p); BODY
    Lists built with different filters are left alone: their items are not those of one element of IT (the rules report that)."""
    changed = False
    binds, mentions = {}, {}
    for x in ast.walk(fnode):
        if isinstance(x, ast.Name):
            mentions[x.id] = mentions.get(x.id, 0) + 1
            if isinstance(x.ctx, (ast.Store, ast.Del)):
                binds[x.id] = binds.get(x.id, 0) + 1
    params = {a_.arg for a_ in fnode.args.posonlyargs + fnode.args.args + fnode.args.kwonlyargs}

    def pure(e):
        for x in ast.walk(e):
            if isinstance(x, ast.Call):
                fn_ = U(x.func)
                if not (fn_ in _PURE_CALL_NAMES or fn_.startswith(_PURE_CALL_PREFIXES)):
                    return False
            if isinstance(x, (ast.NamedExpr, ast.Await, ast.Yield, ast.YieldFrom, ast.Lambda)):
                return False
        return True

    def rewrite(stmts):
        nonlocal changed
        for st in stmts:
            for fld in ("body", "orelse", "finalbody"):
                sub = getattr(st, fld, None)
                if isinstance(sub, list) and sub and isinstance(sub[0], ast.stmt) and not isinstance(st, (ast.FunctionDef, ast.AsyncFunctionDef, ast.ClassDef)):
                    setattr(st, fld, rewrite(sub))
        for i, st in enumerate(stmts):
            if not (isinstance(st, ast.For) and not st.orelse and isinstance(st.iter, ast.Call) and U(st.iter.func) == "zip" and len(st.iter.args) >= 2 and not st.iter.keywords
                    and all(isinstance(a_, ast.Name) for a_ in st.iter.args) and isinstance(st.target, ast.Tuple) and len(st.target.elts) == len(st.iter.args)
                    and all(isinstance(t_, ast.Name) for t_ in st.target.elts)):
                continue
            defs = []
            for a_ in st.iter.args:
                d_ = [x for x in stmts[:i] if isinstance(x, ast.Assign) and len(x.targets) == 1 and isinstance(x.targets[0], ast.Name) and x.targets[0].id == a_.id]
                if len(d_) != 1 or binds.get(a_.id) != 1 or mentions.get(a_.id) != 2 or a_.id in _CAPTURED or not isinstance(d_[0].value, ast.ListComp) \
                        or len(d_[0].value.generators) != 1 or d_[0].value.generators[0].is_async or not isinstance(d_[0].value.generators[0].target, ast.Name):
                    defs = None
                    break
                defs.append(d_[0])
            if not defs or len({a_.id for a_ in st.iter.args}) != len(st.iter.args):
                continue
            gens = [d_.value.generators[0] for d_ in defs]
            it = U(gens[0].iter)
            if any(U(g_.iter) != it for g_ in gens) or not _is_path(gens[0].iter):
                continue
            it_names = {x.id for x in ast.walk(gens[0].iter) if isinstance(x, ast.Name)}
            if any(binds.get(n_, 0) > (0 if n_ in params else 1) for n_ in it_names):
                continue
            k = counter[0]
            v = f"item__z{k}"
            parts = []
            for d_, g_ in zip(defs, gens):
                ren = _Sub({}, {g_.target.id: v})
                parts.append((ren.visit(copy.deepcopy(d_.value.elt)), [ren.visit(copy.deepcopy(c_)) for c_ in g_.ifs]))
            if any([U(c_) for c_ in ifs_] != [U(c_) for c_ in parts[0][1]] for _, ifs_ in parts):
                continue                # different filters: the lists are not aligned element by element
            if not all(pure(e_) and all(pure(c_) for c_ in ifs_) for e_, ifs_ in parts):
                continue
            read = it_names | {x.id for e_, ifs_ in parts for y in [e_] + ifs_ for x in ast.walk(y) if isinstance(x, ast.Name)} - {v}
            stored = set()
            for b_ in st.body:
                for x in ast.walk(b_):
                    if isinstance(x, (ast.Assign, ast.AugAssign, ast.AnnAssign, ast.For)):
                        for t_ in (x.targets if isinstance(x, ast.Assign) else [x.target]):
                            r_ = t_
                            while isinstance(r_, (ast.Subscript, ast.Attribute)):
                                r_ = r_.value
                            for y in ast.walk(r_ if isinstance(r_, ast.Name) else t_):
                                if isinstance(y, ast.Name):
                                    stored.add(y.id)
            if stored & read:
                continue
            counter[0] += 1
            same = [t_.id for t_, (e_, _) in zip(st.target.elts, parts) if isinstance(e_, ast.Name) and e_.id == v]
            if same and same[0] not in read and mentions.get(same[0], 0) == sum(1 for b_ in [st.target] + st.body for x in ast.walk(b_) if isinstance(x, ast.Name) and x.id == same[0]):
                # one of the lists holds the elements themselves: its loop variable is the element
                ren = _Sub({}, {v: same[0]})
                parts = [(ren.visit(e_), [ren.visit(c_) for c_ in ifs_]) for e_, ifs_ in parts]
                v = same[0]
            body = [ast.Assign(targets=[ast.Name(id=t_.id, ctx=ast.Store())], value=e_, lineno=st.lineno, col_offset=0) for t_, (e_, _) in zip(st.target.elts, parts)
                    if not (isinstance(e_, ast.Name) and e_.id == t_.id)] + st.body
            for c_ in reversed(parts[0][1]):
                body = [ast.If(test=c_, body=body, orelse=[], lineno=st.lineno, col_offset=0)]
            new = ast.For(target=ast.Name(id=v, ctx=ast.Store()), iter=copy.deepcopy(gens[0].iter), body=body, orelse=[], lineno=st.lineno, col_offset=0)
            ast.fix_missing_locations(new)
            out = [x for x in stmts[:i] if not any(x is d_ for d_ in defs)] + [new] + stmts[i + 1:]
            changed = True
            return rewrite(out)
        return stmts
    fnode.body = rewrite(fnode.body)
    return changed


def split_record_lists(repo, f):
    """L = []; .. L.append(K(a=x, b=y)) ..; [r.a for r in L]     (L bound once; K a plain record; every other mention of L is such an append,
    a projection comprehension over L without filter, or len(L))
    ->  L__a = []; L__b = []; .. L__a.append(x); L__b.append(y) ..; L__a         (a list of records read field by field is one list per field)"""
    from .normalize import record_fields
    fnode = f.node
    changed = False
    binds = {}
    for x in ast.walk(fnode):
        if isinstance(x, ast.Name) and isinstance(x.ctx, (ast.Store, ast.Del)):
            binds[x.id] = binds.get(x.id, 0) + 1
    par = {}
    for n in ast.walk(fnode):
        for c in ast.iter_child_nodes(n):
            par[c] = n
    # `L: list[K] = []` is `L = []`
    for owner in ast.walk(fnode):
        for fld in ("body", "orelse", "finalbody"):
            lst_ = getattr(owner, fld, None)
            if isinstance(lst_, list):
                for k_, st in enumerate(lst_):
                    if isinstance(st, ast.AnnAssign) and st.simple and isinstance(st.target, ast.Name) and isinstance(st.value, ast.List) and not st.value.elts:
                        lst_[k_] = ast.copy_location(ast.Assign(targets=[st.target], value=st.value), st)
                        par[lst_[k_]] = owner
    inits = [st for st in walk_own(fnode) if isinstance(st, ast.Assign) and len(st.targets) == 1 and isinstance(st.targets[0], ast.Name) and isinstance(st.value, ast.List)
             and not st.value.elts and binds.get(st.targets[0].id) == 1 and st.targets[0].id not in _CAPTURED]
    for init in inits:
        L = init.targets[0].id
        appends, projs, lens, ok = [], [], [], True
        fields = None
        for x in ast.walk(fnode):
            if not (isinstance(x, ast.Name) and x.id == L) or x is init.targets[0]:
                continue
            p_ = par.get(x)
            pp = par.get(p_)
            if isinstance(p_, ast.Attribute) and p_.attr == "append" and isinstance(pp, ast.Call) and pp.func is p_ and len(pp.args) == 1 and not pp.keywords \
                    and isinstance(par.get(pp), ast.Expr) and isinstance(pp.args[0], ast.Call) and isinstance(pp.args[0].func, ast.Name):
                rec = pp.args[0]
                fl = record_fields(repo, f.mod, rec.func.id)
                if fl is None or (fields is not None and fl != fields) or any(isinstance(a_, ast.Starred) for a_ in rec.args) or any(k_.arg is None for k_ in rec.keywords) \
                        or len(rec.args) + len(rec.keywords) != len(fl):
                    ok = False
                    break
                fields = fl
                appends.append((par.get(pp), rec))
            elif isinstance(p_, ast.comprehension) and p_.iter is x and not p_.ifs and isinstance(p_.target, ast.Name) and isinstance(pp, (ast.ListComp, ast.GeneratorExp)) \
                    and len(pp.generators) == 1 and isinstance(pp.elt, ast.Attribute) and isinstance(pp.elt.value, ast.Name) and pp.elt.value.id == p_.target.id:
                projs.append(pp)
            elif isinstance(p_, ast.Call) and U(p_.func) == "len" and len(p_.args) == 1:
                lens.append(p_)
            else:
                ok = False
                break
        if not ok or not appends or not projs or fields is None or any(pr.elt.attr not in fields for pr in projs):
            continue
        names = {fl: f"{L}__{fl}" for fl in fields}
        if any(nm in binds for nm in names.values()):
            continue
        for st_, rec in appends:
            vals = dict(zip(fields, rec.args))
            vals.update({k_.arg: k_.value for k_ in rec.keywords})
            if set(vals) != set(fields):
                ok = False
        if not ok:
            continue

        def replace_stmt(old, new_list):
            owner = par.get(old)
            for fld in ("body", "orelse", "finalbody"):
                lst = getattr(owner, fld, None)
                if isinstance(lst, list) and any(y is old for y in lst):
                    i_ = [k for k, y in enumerate(lst) if y is old][0]
                    lst[i_:i_ + 1] = new_list
                    return True
            return False
        for st_, rec in appends:
            vals = dict(zip(fields, rec.args))
            vals.update({k_.arg: k_.value for k_ in rec.keywords})
            new = [ast.Expr(value=ast.Call(func=ast.Attribute(value=ast.Name(id=names[fl], ctx=ast.Load()), attr="append", ctx=ast.Load()), args=[vals[fl]], keywords=[])) for fl in fields]
            replace_stmt(st_, new)
        replace_stmt(init, [ast.Assign(targets=[ast.Name(id=names[fl], ctx=ast.Store())], value=ast.List(elts=[], ctx=ast.Load()), lineno=init.lineno, col_offset=0) for fl in fields])

        class R(ast.NodeTransformer):
            def visit_ListComp(self, n):
                if any(n is pr for pr in projs):
                    return ast.copy_location(ast.Name(id=names[n.elt.attr], ctx=ast.Load()), n)
                return self.generic_visit(n)
            visit_GeneratorExp = visit_ListComp

            def visit_Call(self, n):
                if any(n is ln for ln in lens):
                    n.args = [ast.Name(id=names[fields[0]], ctx=ast.Load())]
                    return n
                return self.generic_visit(n)
        f.node = R().visit(fnode)
        ast.fix_missing_locations(f.node)
        return True
    return changed


def scalarise_conditional_records(repo, f):
    """t = K(a=x1, b=y1) if c else K(a=x2, b=y2)      (t bound once, read only as t.a / t.b; K a plain record; nested conditionals likewise)
    ->  if c: t__a = x1; t__b = y1  else: t__a = x2; t__b = y2       and every t.a reads t__a.
    `A if c else (B if not c else C)` is first reduced to `A if c else B`.  A display of such records that nothing reads is dropped."""
    from .normalize import record_fields
    fnode = f.node
    binds, loads = {}, {}
    par = {}
    for n in ast.walk(fnode):
        for c in ast.iter_child_nodes(n):
            par[c] = n
        if isinstance(n, ast.Name):
            if isinstance(n.ctx, (ast.Store, ast.Del)):
                binds[n.id] = binds.get(n.id, 0) + 1
            else:
                loads.setdefault(n.id, []).append(n)

    def reduce_(e):
        if isinstance(e, ast.IfExp):
            e.body, e.orelse = reduce_(e.body), reduce_(e.orelse)
            o = e.orelse
            if isinstance(o, ast.IfExp):
                t1, t2 = U(e.test), U(o.test)
                if t2 in (f"not {t1}", f"not ({t1})") or t1 in (f"not {t2}", f"not ({t2})"):
                    e.orelse = o.body           # reached only when the outer test failed: the inner `not test` holds
                elif t1 == t2 and not any(isinstance(x, (ast.Call, ast.NamedExpr)) for x in ast.walk(e.test) if not (isinstance(x, ast.Call) and U(x.func) == "len")):
                    e.orelse = o.orelse
        return e

    def leaves(e):
        if isinstance(e, ast.IfExp):
            return leaves(e.body) + leaves(e.orelse)
        return [e]
    for st in list(walk_own(fnode)):
        if not (isinstance(st, ast.Assign) and len(st.targets) == 1 and isinstance(st.targets[0], ast.Name) and isinstance(st.value, ast.IfExp)):
            continue
        t = st.targets[0].id
        if binds.get(t) != 1 or t in _CAPTURED:
            continue
        val = reduce_(copy.deepcopy(st.value))
        ls = leaves(val)
        if not all(isinstance(x, ast.Call) and isinstance(x.func, ast.Name) for x in ls) or len({x.func.id for x in ls}) != 1:
            continue
        fields = record_fields(repo, f.mod, ls[0].func.id)
        if fields is None:
            continue
        vals = []
        for x in ls:
            if any(isinstance(a_, ast.Starred) for a_ in x.args) or any(k_.arg is None for k_ in x.keywords) or len(x.args) + len(x.keywords) != len(fields):
                vals = None
                break
            d_ = dict(zip(fields, x.args))
            d_.update({k_.arg: k_.value for k_ in x.keywords})
            if set(d_) != set(fields):
                vals = None
                break
            vals.append(d_)
        if vals is None:
            continue
        dead = []
        ok = True
        for ld in loads.get(t, []):
            p_ = par.get(ld)
            if isinstance(p_, ast.Attribute) and p_.value is ld and p_.attr in fields and isinstance(p_.ctx, ast.Load):
                continue
            # an element of a display bound to a name nothing reads
            if isinstance(p_, (ast.List, ast.Tuple)) and isinstance(par.get(p_), ast.Assign) and len(par[p_].targets) == 1 and isinstance(par[p_].targets[0], ast.Name) \
                    and not loads.get(par[p_].targets[0].id) and binds.get(par[p_].targets[0].id) == 1 and par[p_].targets[0].id not in _CAPTURED \
                    and all(isinstance(e_, ast.Name) for e_ in p_.elts):
                dead.append(par[p_])
                continue
            ok = False
            break
        names = {fl: f"{t}__{fl}" for fl in fields}
        if not ok or any(nm in binds for nm in names.values()):
            continue
        it = iter(vals)
        # a field that is the same name in every arm needs no copy per arm: t.f reads that name
        # (bound once, or - a parameter - never: it cannot change between the record's construction and the read)
        params_ = {a_.arg for a_ in fnode.args.posonlyargs + fnode.args.args + fnode.args.kwonlyargs}
        common = {fl: vals[0][fl].id for fl in fields if all(isinstance(d_[fl], ast.Name) for d_ in vals) and len({d_[fl].id for d_ in vals}) == 1
                  and binds.get(vals[0][fl].id, 0) == (0 if vals[0][fl].id in params_ else 1)}
        for fl, nm in common.items():
            names[fl] = nm

        def build(e):
            if isinstance(e, ast.IfExp):
                return [ast.If(test=e.test, body=build(e.body), orelse=build(e.orelse), lineno=st.lineno, col_offset=0)]
            d_ = next(it)
            return [ast.Assign(targets=[ast.Name(id=names[fl], ctx=ast.Store())], value=d_[fl], lineno=st.lineno, col_offset=0) for fl in fields if fl not in common]
        new = build(val)

        def replace_stmt(old, new_list):
            owner = par.get(old)
            for fld in ("body", "orelse", "finalbody"):
                lst = getattr(owner, fld, None)
                if isinstance(lst, list) and any(y is old for y in lst):
                    i_ = [k for k, y in enumerate(lst) if y is old][0]
                    lst[i_:i_ + 1] = new_list
                    return True
            return False
        if not replace_stmt(st, new):
            continue
        for d_ in {id(x): x for x in dead}.values():
            replace_stmt(d_, [])

        class R(ast.NodeTransformer):
            def visit_Attribute(self, n):
                if isinstance(n.value, ast.Name) and n.value.id == t and n.attr in fields and isinstance(n.ctx, ast.Load):
                    return ast.copy_location(ast.Name(id=names[n.attr], ctx=ast.Load()), n)
                return self.generic_visit(n)
        f.node = R().visit(fnode)
        ast.fix_missing_locations(f.node)
        return True
    return False


def split_conditional_tuples(fnode, counter, repo=None, mod=None):
    """if c: ..; t = (a0, a1, ..)  else: ..; t = (b0, b1, ..)      (the only two bindings of t: one direct statement in each arm, displays of one length)
    ->  if c: ..; t__0 = a0; t__1 = a1; ..  else: ..; t__0 = b0; ..      followed by   t = (t__0, t__1, ..)
    so that t is bound once, to a display of names (what it holds is then read position by position by the tuple passes)"""
    binds = {}
    for x in ast.walk(fnode):
        if isinstance(x, ast.Name) and isinstance(x.ctx, (ast.Store, ast.Del)):
            binds[x.id] = binds.get(x.id, 0) + 1
    all_names = {x.id for x in ast.walk(fnode) if isinstance(x, ast.Name)}

    rec_of = {}

    def as_tuple(st):
        """the display a binding holds: a tuple display, or - for a construction of a plain record class - its arguments in field order"""
        v = st.value
        if isinstance(v, ast.Tuple) and v.elts and not any(isinstance(e, ast.Starred) for e in v.elts):
            return v
        if repo is not None and isinstance(v, ast.Call) and isinstance(v.func, ast.Name):
            from .normalize import record_fields, complete_record_call
            fl = record_fields(repo, mod, v.func.id)
            if fl:
                complete_record_call(repo, mod, v)
                if not any(isinstance(a_, ast.Starred) for a_ in v.args) and not any(k_.arg is None for k_ in v.keywords) and len(v.args) + len(v.keywords) == len(fl):
                    d_ = dict(zip(fl, v.args))
                    d_.update({k_.arg: k_.value for k_ in v.keywords})
                    if set(d_) == set(fl):
                        t_ = ast.Tuple(elts=[d_[x] for x in fl], ctx=ast.Load())
                        rec_of[id(t_)] = (v.func.id, fl)
                        return t_
        return None

    def tuple_binds(block):
        out = {}
        for st in block:
            if isinstance(st, ast.Assign) and len(st.targets) == 1 and isinstance(st.targets[0], ast.Name):
                t_ = as_tuple(st)
                if t_ is not None:
                    st2 = ast.Assign(targets=st.targets, value=t_, lineno=st.lineno, col_offset=0)
                    st2._orig = st
                    out[st.targets[0].id] = st2
        return out

    def rewrite(stmts):
        for st in stmts:
            for fld in ("body", "orelse", "finalbody"):
                sub = getattr(st, fld, None)
                if isinstance(sub, list) and sub and isinstance(sub[0], ast.stmt) and not isinstance(st, (ast.FunctionDef, ast.AsyncFunctionDef, ast.ClassDef)):
                    r = rewrite(sub)
                    if r is not None:
                        setattr(st, fld, r)
                        return stmts
        for i, st in enumerate(stmts):
            if not (isinstance(st, ast.If) and st.orelse):
                continue
            a, b = tuple_binds(st.body), tuple_binds(st.orelse)
            for t in sorted(set(a) & set(b)):
                if binds.get(t) != 2 or t in _CAPTURED or len(a[t].value.elts) != len(b[t].value.elts):
                    continue
                ra, rb = rec_of.get(id(a[t].value)), rec_of.get(id(b[t].value))
                if (ra is None) != (rb is None) or (ra is not None and ra != rb):
                    continue                # a record in one arm, something else in the other
                n = len(a[t].value.elts)
                k = counter[0]
                names = [f"{t}__c{k}_{j}" for j in range(n)]
                if any(nm in all_names for nm in names):
                    continue
                # every read of t follows the `if` in this statement list (or sits in a later statement of an arm, after the binding):
                # the fresh names are bound nowhere else, so the display of them can stand wherever t is read
                later_ids = {id(x) for y in stmts[i + 1:] for x in ast.walk(y)}
                for blk, asg in ((st.body, a[t]), (st.orelse, b[t])):
                    j_ = [q for q, y in enumerate(blk) if y is asg._orig][0]
                    later_ids |= {id(x) for y in blk[j_ + 1:] for x in ast.walk(y)}
                loads = [x for x in ast.walk(fnode) if isinstance(x, ast.Name) and x.id == t and isinstance(x.ctx, ast.Load)]
                if not loads or any(id(x) not in later_ids for x in loads):
                    continue
                counter[0] += 1
                # a position that holds the same once-bound name in both arms is that name
                params_ = {p_.arg for p_ in fnode.args.posonlyargs + fnode.args.args + fnode.args.kwonlyargs}
                same = {j for j, (x, y) in enumerate(zip(a[t].value.elts, b[t].value.elts)) if isinstance(x, ast.Name) and isinstance(y, ast.Name) and x.id == y.id
                        and binds.get(x.id, 0) == (0 if x.id in params_ else 1)}
                for j in same:
                    names[j] = a[t].value.elts[j].id
                for blk, asg in ((st.body, a[t]), (st.orelse, b[t])):
                    j_ = [q for q, y in enumerate(blk) if y is asg._orig][0]
                    blk[j_:j_ + 1] = [ast.Assign(targets=[ast.Name(id=nm, ctx=ast.Store())], value=e, lineno=asg.lineno, col_offset=0)
                                      for j, (nm, e) in enumerate(zip(names, asg.value.elts)) if j not in same] or [ast.Pass()]

                class R(ast.NodeTransformer):
                    def visit_Attribute(self, x):
                        # t.field of a record: the name that holds the field
                        if ra is not None and isinstance(x.value, ast.Name) and x.value.id == t and isinstance(x.ctx, ast.Load) and x.attr in ra[1]:
                            return ast.copy_location(ast.Name(id=names[ra[1].index(x.attr)], ctx=ast.Load()), x)
                        return self.generic_visit(x)

                    def visit_Name(self, x):
                        if x.id == t and isinstance(x.ctx, ast.Load):
                            if ra is not None:
                                return ast.copy_location(ast.Call(func=ast.Name(id=ra[0], ctx=ast.Load()), args=[],
                                                                  keywords=[ast.keyword(arg=fl_, value=ast.Name(id=nm, ctx=ast.Load())) for fl_, nm in zip(ra[1], names)]), x)
                            return ast.copy_location(ast.Tuple(elts=[ast.Name(id=nm, ctx=ast.Load()) for nm in names], ctx=ast.Load()), x)
                        return x
                for y in stmts:
                    R().visit(y)
                return stmts
        return None
    r = rewrite(fnode.body)
    if r is None:
        return False
    fnode.body = r
    ast.fix_missing_locations(fnode)
    return True


def drop_dead_constant_stores(fnode):
    """if c: ..; v = <constant>; ..; <exit>  else: ..; v = E; .. reads of v ..        (every read of v in the function sits in the other arm, after that
    arm's own top-level binding of v; the arm with the constant store ends in return / raise / continue / break and does not read v)
    ->  the constant store is dropped: no read can see it."""
    changed = False
    loads = {}
    for x in ast.walk(fnode):
        if isinstance(x, ast.Name) and isinstance(x.ctx, ast.Load):
            loads.setdefault(x.id, []).append(x)

    def visit(stmts):
        nonlocal changed
        for st in stmts:
            for fld in ("body", "orelse", "finalbody"):
                sub = getattr(st, fld, None)
                if isinstance(sub, list) and sub and isinstance(sub[0], ast.stmt) and not isinstance(st, (ast.FunctionDef, ast.AsyncFunctionDef, ast.ClassDef)):
                    visit(sub)
            if not (isinstance(st, ast.If) and st.orelse):
                continue
            for mine, other in ((st.body, st.orelse), (st.orelse, st.body)):
                if not mine or not isinstance(mine[-1], (ast.Return, ast.Raise, ast.Continue, ast.Break)):
                    continue
                for k, a_ in enumerate(list(mine)):
                    if not (isinstance(a_, ast.Assign) and len(a_.targets) == 1 and isinstance(a_.targets[0], ast.Name) and isinstance(a_.value, ast.Constant)):
                        continue
                    v = a_.targets[0].id
                    if v in _CAPTURED:
                        continue
                    bind_pos = [j for j, y in enumerate(other) if isinstance(y, ast.Assign) and len(y.targets) == 1 and isinstance(y.targets[0], ast.Name) and y.targets[0].id == v]
                    if not bind_pos:
                        continue
                    ok_ids = {id(x) for y in other[bind_pos[0] + 1:] for x in ast.walk(y)}
                    if all(id(x) in ok_ids for x in loads.get(v, [])):
                        mine.remove(a_)
                        changed = True
    visit(fnode.body)
    if changed:
        ast.fix_missing_locations(fnode)
    return changed


def project_comprehension_locals(fnode):
    """P = [x.a for x in L]      (P bound once; L a parameter or a local bound once; the element an attribute path of the variable)
    read only as P[c], P[a:b] (constant bounds), len(P) or iterated
    ->  P[c] is L[c].a ; P[a:b] is [x.a for x in L[a:b]] ; len(P) is len(L) ; iteration runs over the comprehension itself.
    The statements from the binding to the last read make no call (other than len / range / zip / enumerate) and store through no
    attribute or subscript, so the attribute read later is the one read at the binding."""
    binds = {}
    for x in ast.walk(fnode):
        if isinstance(x, ast.Name) and isinstance(x.ctx, (ast.Store, ast.Del)):
            binds[x.id] = binds.get(x.id, 0) + 1
    params = {p_.arg for p_ in fnode.args.posonlyargs + fnode.args.args + fnode.args.kwonlyargs}

    def blocks(stmts):
        yield stmts
        for st in stmts:
            if isinstance(st, (ast.FunctionDef, ast.AsyncFunctionDef, ast.ClassDef)):
                continue
            for fld in ("body", "orelse", "finalbody"):
                sub = getattr(st, fld, None)
                if isinstance(sub, list) and sub and isinstance(sub[0], ast.stmt):
                    yield from blocks(sub)
    for lst in blocks(fnode.body):
        for i, st in enumerate(lst):
            if not (isinstance(st, ast.Assign) and len(st.targets) == 1 and isinstance(st.targets[0], ast.Name) and isinstance(st.value, ast.ListComp)):
                continue
            P = st.targets[0].id
            comp = st.value
            if binds.get(P) != 1 or P in _CAPTURED or len(comp.generators) != 1 or comp.generators[0].ifs or comp.generators[0].is_async \
                    or not isinstance(comp.generators[0].target, ast.Name) or not isinstance(comp.generators[0].iter, ast.Name):
                continue
            xv, L = comp.generators[0].target.id, comp.generators[0].iter.id
            e = comp.elt
            root = e
            while isinstance(root, ast.Attribute):
                root = root.value
            if not (isinstance(e, ast.Attribute) and isinstance(root, ast.Name) and root.id == xv) or binds.get(L, 0) != (0 if L in params else 1):
                continue
            par = {}
            for y in lst:
                for p_ in ast.walk(y):
                    for c_ in ast.iter_child_nodes(p_):
                        par[c_] = p_
            uses = [x for x in ast.walk(fnode) if isinstance(x, ast.Name) and x.id == P and isinstance(x.ctx, ast.Load)]
            later = {id(x): j for j, y in enumerate(lst) if j > i for x in ast.walk(y)}
            if not uses or any(id(u) not in later for u in uses):
                continue
            last = max(later[id(u)] for u in uses)
            quiet = True
            for y in lst[i + 1:last + 1]:
                for x in ast.walk(y):
                    if isinstance(x, ast.Call) and not (isinstance(x.func, ast.Name) and x.func.id in ("len", "range", "zip", "enumerate") and x.func.id not in binds):
                        quiet = False
                    if isinstance(x, (ast.Attribute, ast.Subscript)) and isinstance(x.ctx, (ast.Store, ast.Del)):
                        quiet = False
            if not quiet:
                continue

            def const_int(b_):
                return b_ is None or (isinstance(b_, ast.Constant) and isinstance(b_.value, int) and not isinstance(b_.value, bool))
            plan = []
            for u in uses:
                p_ = par.get(u)
                if isinstance(p_, ast.Subscript) and p_.value is u and isinstance(p_.ctx, ast.Load):
                    sl = p_.slice
                    if isinstance(sl, ast.Constant) and isinstance(sl.value, int) and not isinstance(sl.value, bool):
                        plan.append((p_, "item"))
                        continue
                    if isinstance(sl, ast.Slice) and const_int(sl.lower) and const_int(sl.upper) and sl.step is None:
                        plan.append((p_, "slice"))
                        continue
                if isinstance(p_, ast.Call) and isinstance(p_.func, ast.Name) and p_.func.id == "len" and "len" not in binds and len(p_.args) == 1:
                    plan.append((p_, "len"))
                    continue
                if isinstance(p_, (ast.For, ast.comprehension)) and p_.iter is u:
                    plan.append((u, "iter"))
                    continue
                plan = None
                break
            if not plan:
                continue
            repl = {}
            for node, how in plan:
                if how == "item":
                    repl[id(node)] = _Sub({xv: ast.Subscript(value=ast.Name(id=L, ctx=ast.Load()), slice=copy.deepcopy(node.slice), ctx=ast.Load())}, {}).visit(copy.deepcopy(e))
                elif how == "slice":
                    c2 = copy.deepcopy(comp)
                    c2.generators[0].iter = ast.Subscript(value=ast.Name(id=L, ctx=ast.Load()), slice=copy.deepcopy(node.slice), ctx=ast.Load())
                    repl[id(node)] = c2
                elif how == "len":
                    n2 = copy.deepcopy(node)
                    n2.args = [ast.Name(id=L, ctx=ast.Load())]
                    repl[id(node)] = n2
                else:
                    repl[id(node)] = copy.deepcopy(comp)

            class R(ast.NodeTransformer):
                def visit(self, n):
                    if id(n) in repl:
                        return ast.copy_location(repl[id(n)], n)
                    return super().visit(n)
            for j in range(i + 1, len(lst)):
                lst[j] = R().visit(lst[j])
            del lst[i]
            ast.fix_missing_locations(fnode)
            return True
    return False


def fuse_collect_then_iterate(fnode):
    """L = []; for ..: ..; L.append(E)        (the append is the last statement its iteration executes; the loop otherwise only binds names
    from call-free or numpy / builtin expressions)   followed - with nothing that mentions L in between - by   for x in L: BODY
    (L mentioned nowhere else; BODY without break and without stores to a name the first loop reads)
    ->  for ..: ..; x = E; BODY      Each element is consumed right after it is produced instead of after the whole list is built;
    with a producing loop that has no effects of its own the consumer sees the same elements in the same order.
    Assumption A-consumer-does-not-reach-producer: the calls of BODY do not modify the arrays the producing loop reads."""
    binds, mentions = {}, {}
    for x in ast.walk(fnode):
        if isinstance(x, ast.Name):
            mentions[x.id] = mentions.get(x.id, 0) + 1
            if isinstance(x.ctx, (ast.Store, ast.Del)):
                binds[x.id] = binds.get(x.id, 0) + 1

    def pure_expr(e):
        for y in ast.walk(e):
            if isinstance(y, ast.Call):
                fn_ = U(y.func)
                if not (fn_ in _PURE_CALL_NAMES or fn_.startswith(_PURE_CALL_PREFIXES) or fn_ in ("logit", "expit", "range", "zip", "enumerate")
                        or (isinstance(y.func, ast.Attribute) and y.func.attr in ("astype", "tolist", "item", "copy", "sum", "any", "all"))
                        or (isinstance(y.func, ast.Name) and y.func.id[:1].isupper())):
                    return False
            if isinstance(y, (ast.NamedExpr, ast.Await, ast.Yield, ast.YieldFrom, ast.Lambda)):
                return False
        return True

    def blocks(stmts):
        yield stmts
        for st in stmts:
            if isinstance(st, (ast.FunctionDef, ast.AsyncFunctionDef, ast.ClassDef)):
                continue
            for fld in ("body", "orelse", "finalbody"):
                sub = getattr(st, fld, None)
                if isinstance(sub, list) and sub and isinstance(sub[0], ast.stmt):
                    yield from blocks(sub)
    for lst in blocks(fnode.body):
        for i, st in enumerate(lst):
            if not (isinstance(st, ast.Assign) and len(st.targets) == 1 and isinstance(st.targets[0], ast.Name) and isinstance(st.value, ast.List) and not st.value.elts):
                continue
            L = st.targets[0].id
            if binds.get(L) != 1 or L in _CAPTURED or mentions.get(L) != 3:
                continue
            prod = [j for j in range(i + 1, len(lst)) if isinstance(lst[j], ast.For) and not lst[j].orelse
                    and any(isinstance(x, ast.Name) and x.id == L for x in ast.walk(lst[j])) and not (isinstance(lst[j].iter, ast.Name) and lst[j].iter.id == L)]
            cons = [j for j in range(i + 1, len(lst)) if isinstance(lst[j], ast.For) and isinstance(lst[j].iter, ast.Name) and lst[j].iter.id == L and not lst[j].orelse
                    and isinstance(lst[j].target, ast.Name)]
            if len(prod) != 1 or len(cons) != 1 or cons[0] <= prod[0]:
                continue
            P, C = lst[prod[0]], lst[cons[0]]
            if any(isinstance(x, ast.Name) and x.id == L for y in lst[prod[0] + 1:cons[0]] for x in ast.walk(y)):
                continue
            # the append: last statement of the producing loop's body, possibly under ifs (last statement of that arm, nothing after the if)
            blk = P.body
            path_ok = True
            while True:
                if not blk:
                    path_ok = False
                    break
                last = blk[-1]
                if isinstance(last, ast.Expr) and isinstance(last.value, ast.Call) and isinstance(last.value.func, ast.Attribute) and last.value.func.attr == "append" \
                        and isinstance(last.value.func.value, ast.Name) and last.value.func.value.id == L and len(last.value.args) == 1 and not last.value.keywords:
                    break
                if isinstance(last, ast.If) and any(isinstance(x, ast.Name) and x.id == L for x in ast.walk(last)):
                    in_body = any(isinstance(x, ast.Name) and x.id == L for y in last.body for x in ast.walk(y))
                    in_else = any(isinstance(x, ast.Name) and x.id == L for y in last.orelse for x in ast.walk(y))
                    if in_body == in_else:
                        path_ok = False
                        break
                    blk = last.body if in_body else last.orelse
                    continue
                path_ok = False
                break
            if not path_ok:
                continue
            app = blk[-1]
            # the producing loop has no effects of its own
            quiet = pure_expr(P.iter)
            for y in ast.walk(ast.Module(body=P.body, type_ignores=[])):
                if isinstance(y, ast.Assign):
                    if not all(isinstance(t_, (ast.Name, ast.Tuple)) for t_ in y.targets) or not pure_expr(y.value):
                        quiet = False
                elif isinstance(y, ast.Expr):
                    if y is not app and not (isinstance(y.value, ast.Constant)):
                        quiet = False
                elif isinstance(y, (ast.AugAssign, ast.AnnAssign, ast.Delete, ast.With, ast.Try, ast.While, ast.Return, ast.Raise, ast.Break, ast.Global, ast.Nonlocal)):
                    quiet = False
            if not quiet or not pure_expr(app.value.args[0]):
                continue
            x = C.target.id
            if any(isinstance(y, ast.Break) for b_ in C.body for y in ast.walk(b_)):
                continue
            read_by_prod = {y.id for y in ast.walk(P) if isinstance(y, ast.Name) and isinstance(y.ctx, ast.Load)}
            stored_by_cons = {y.id for b_ in C.body for y in ast.walk(b_) if isinstance(y, ast.Name) and isinstance(y.ctx, (ast.Store, ast.Del))} | {x}
            if stored_by_cons & read_by_prod or x in {y.id for y in ast.walk(P) if isinstance(y, ast.Name)}:
                continue
            blk[-1:] = [ast.Assign(targets=[ast.Name(id=x, ctx=ast.Store())], value=app.value.args[0], lineno=app.lineno, col_offset=0)] + C.body
            del lst[cons[0]]
            del lst[i]
            ast.fix_missing_locations(fnode)
            return True
    return False


def star_unpack_of_lists(fnode):
    """first, *rest = L   with L a parameter annotated as a list (or a local bound once to a list display / list(..) / comprehension)
    ->  first = L[0]; rest = L[1:]        (same values for a list; an empty list raises either way, IndexError instead of ValueError)"""
    changed = False
    a = fnode.args
    listy = set()
    for p in a.posonlyargs + a.args + a.kwonlyargs:
        if p.annotation is not None and U(p.annotation).split("[")[0] in ("list", "List", "typing.List"):
            listy.add(p.arg)
    binds = {}
    for x in ast.walk(fnode):
        if isinstance(x, ast.Name) and isinstance(x.ctx, (ast.Store, ast.Del)):
            binds[x.id] = binds.get(x.id, 0) + 1
    for x in walk_own(fnode):
        if isinstance(x, ast.Assign) and len(x.targets) == 1 and isinstance(x.targets[0], ast.Name) and binds.get(x.targets[0].id) == 1 \
                and (isinstance(x.value, (ast.List, ast.ListComp)) or (isinstance(x.value, ast.Call) and U(x.value.func) in ("list", "sorted"))):
            listy.add(x.targets[0].id)
    listy = {n for n in listy if binds.get(n, 0) <= 1}

    def rewrite(stmts):
        nonlocal changed
        out = []
        for st in stmts:
            for fld in ("body", "orelse", "finalbody"):
                sub = getattr(st, fld, None)
                if isinstance(sub, list) and sub and isinstance(sub[0], ast.stmt) and not isinstance(st, (ast.FunctionDef, ast.AsyncFunctionDef, ast.ClassDef)):
                    setattr(st, fld, rewrite(sub))
            # first, *rest = self.attr / param.attr   (a stored sequence - assumption A-path-is-sequence: an attribute unpacked with a star is
            # a tuple / list, not a one-shot iterator): first = P[0]; rest = P[1:] (the same elements; `rest` is only read)
            if isinstance(st, ast.Assign) and len(st.targets) == 1 and isinstance(st.targets[0], (ast.Tuple, ast.List)) and isinstance(st.value, ast.Attribute) and _is_path(st.value) \
                    and len(st.targets[0].elts) == 2 and isinstance(st.targets[0].elts[0], ast.Name) and isinstance(st.targets[0].elts[1], ast.Starred) \
                    and isinstance(st.targets[0].elts[1].value, ast.Name) and binds.get(st.targets[0].elts[1].value.id) == 1 and binds.get(st.targets[0].elts[0].id) == 1:
                h_, r_ = st.targets[0].elts[0].id, st.targets[0].elts[1].value.id
                par_ = {}
                for n_ in ast.walk(fnode):
                    for c_ in ast.iter_child_nodes(n_):
                        par_[c_] = n_
                reads = [x for x in ast.walk(fnode) if isinstance(x, ast.Name) and x.id == r_ and isinstance(x.ctx, ast.Load)]
                if reads and all((isinstance(par_.get(x), ast.Subscript) and par_[x].value is x and isinstance(par_[x].ctx, ast.Load)) or
                                 (isinstance(par_.get(x), (ast.For, ast.comprehension)) and par_[x].iter is x) or
                                 (isinstance(par_.get(x), ast.Call) and U(par_[x].func) in ("zip", "len", "enumerate")) for x in reads):
                    out.append(ast.copy_location(ast.Assign(targets=[ast.Name(id=h_, ctx=ast.Store())], value=ast.Subscript(value=copy.deepcopy(st.value), slice=ast.Constant(value=0), ctx=ast.Load()), lineno=st.lineno), st))
                    out.append(ast.copy_location(ast.Assign(targets=[ast.Name(id=r_, ctx=ast.Store())], value=ast.Subscript(value=copy.deepcopy(st.value), slice=ast.Slice(lower=ast.Constant(value=1), upper=None, step=None), ctx=ast.Load()), lineno=st.lineno), st))
                    changed = True
                    continue
            if isinstance(st, ast.Assign) and len(st.targets) == 1 and isinstance(st.targets[0], (ast.Tuple, ast.List)) and isinstance(st.value, ast.Name) and st.value.id in listy \
                    and len(st.targets[0].elts) == 2 and isinstance(st.targets[0].elts[0], ast.Name) and isinstance(st.targets[0].elts[1], ast.Starred) \
                    and isinstance(st.targets[0].elts[1].value, ast.Name) and st.value.id not in (st.targets[0].elts[0].id, st.targets[0].elts[1].value.id):
                # guarded by a preceding refusal of the empty list? either way both forms raise on an empty list
                L = st.value.id
                h_, r_ = st.targets[0].elts[0].id, st.targets[0].elts[1].value.id
                out.append(ast.copy_location(ast.Assign(targets=[ast.Name(id=h_, ctx=ast.Store())], value=ast.Subscript(value=ast.Name(id=L, ctx=ast.Load()), slice=ast.Constant(value=0), ctx=ast.Load()), lineno=st.lineno), st))
                out.append(ast.copy_location(ast.Assign(targets=[ast.Name(id=r_, ctx=ast.Store())], value=ast.Subscript(value=ast.Name(id=L, ctx=ast.Load()), slice=ast.Slice(lower=ast.Constant(value=1), upper=None, step=None), ctx=ast.Load()), lineno=st.lineno), st))
                changed = True
                continue
            out.append(st)
        return out
    fnode.body = rewrite(fnode.body)
    if changed:
        ast.fix_missing_locations(fnode)
    return changed



_READONLY_BUILTINS = {"list", "tuple", "enumerate", "zip", "len", "sorted", "set", "frozenset", "reversed", "dict", "iter"}
_LIST_MUTATORS = {"append", "extend", "insert", "remove", "pop", "sort", "reverse", "clear", "update", "setdefault", "popitem", "__setitem__", "__delitem__"}


def propagate_readonly_displays(repo, f):
    """cols = ["a", "b"] / spec = {"a": x, "b": y}  bound once at the top level of the function and only ever *read*
    (iterated, tested with `in`, concatenated, subscript index, handed to a builtin or to a library call) is replaced by the
    display where it is read.  A use that could mutate or keep the object (a method call on it, a store through it, an
    argument of a function of the repository, a return) blocks the rewrite."""
    fnode = f.node
    counts = {}
    for x in ast.walk(fnode):
        if isinstance(x, ast.Name) and isinstance(x.ctx, (ast.Store, ast.Del)):
            counts[x.id] = counts.get(x.id, 0) + 1
    a = fnode.args
    params = {p.arg for p in a.posonlyargs + a.args + a.kwonlyargs} | ({a.vararg.arg} if a.vararg else set()) | ({a.kwarg.arg} if a.kwarg else set())
    repo_simple = getattr(repo, "_simple_names", None)
    if repo_simple is None:
        repo_simple = {q.rsplit(".", 1)[-1] for q in repo.funcs}
        repo._simple_names = repo_simple

    def top_lists():
        def rec(stmts, in_loop):
            if not in_loop:
                yield stmts
            for st in stmts:
                if isinstance(st, (ast.FunctionDef, ast.AsyncFunctionDef, ast.ClassDef)):
                    continue
                inner_loop = in_loop or isinstance(st, (ast.For, ast.AsyncFor, ast.While))
                for fld in ("body", "orelse", "finalbody"):
                    sub = getattr(st, fld, None)
                    if isinstance(sub, list) and sub and isinstance(sub[0], ast.stmt):
                        yield from rec(sub, inner_loop)
        yield from rec(fnode.body, False)

    def stable(name):
        return counts.get(name, 0) == 0 and name in params or counts.get(name, 0) == 1 and name not in params

    def candidate(v):
        if isinstance(v, (ast.List, ast.Tuple)) and v.elts and all(isinstance(x, ast.Constant) and isinstance(x.value, (str, int)) for x in v.elts):
            return "seq"
        if isinstance(v, (ast.List, ast.Tuple)) and 1 <= len(v.elts) <= 8 and all(isinstance(x, ast.Name) and stable(x.id) for x in v.elts):
            return "names"
        # [p.a, q.b]: attribute paths of parameters, read again where the display is read - accepted below only when nothing between the
        # display and its last read can change what they denote (no call, no store through an attribute / subscript)
        if isinstance(v, (ast.List, ast.Tuple)) and 1 <= len(v.elts) <= 8 and all((isinstance(x, ast.Name) and stable(x.id)) or (
                isinstance(x, ast.Attribute) and isinstance(x.value, ast.Name) and x.value.id in params and stable(x.value.id)) for x in v.elts):
            return "paths"
        def stable_value(x):
            if isinstance(x, ast.Constant):
                return True
            if isinstance(x, ast.Name):
                return stable(x.id)
            # p[0] / p.attr of a stable name: read again where the display is read (nothing in between can re-bind p; the object it
            # denotes is an input of the function that the function only reads - a mutation of p[0] in between is not looked for)
            if isinstance(x, ast.Subscript) and isinstance(x.slice, ast.Constant) and isinstance(x.value, ast.Name):
                return stable(x.value.id) and x.value.id in params
            return False
        if isinstance(v, ast.Dict) and v.keys and None not in v.keys and all(isinstance(k, ast.Constant) and isinstance(k.value, str) for k in v.keys) \
                and all(stable_value(x) for x in v.values):
            return "dict"
        return None
    imports = repo.imports.get(f.mod, {})
    defs1 = {}
    for x in walk_own(fnode):
        if isinstance(x, ast.Assign) and len(x.targets) == 1 and isinstance(x.targets[0], ast.Name) and counts.get(x.targets[0].id) == 1:
            defs1[x.targets[0].id] = x.value

    def external_root(root, depth=0):
        """the receiver is a library object: a module alias of a non-repository import, or a local bound once to a call / method
        chain rooted at one (df = pandas.DataFrame(..); u = df.drop_duplicates())"""
        if not isinstance(root, ast.Name) or depth > 6:
            return False
        if root.id not in counts and root.id not in params:
            tgt = imports.get(root.id)
            return isinstance(tgt, str) and not tgt.startswith("batchie")
        v = defs1.get(root.id)
        while isinstance(v, (ast.Call, ast.Attribute, ast.Subscript)):
            v = v.func if isinstance(v, ast.Call) else v.value
        return isinstance(v, ast.Name) and v.id != root.id and external_root(v, depth + 1)
    changed = False
    for lst in top_lists():
        for i, st in enumerate(list(lst)):
            if not (isinstance(st, ast.Assign) and len(st.targets) == 1 and isinstance(st.targets[0], ast.Name)):
                continue
            nm = st.targets[0].id
            kind = candidate(st.value)
            if kind is None or counts.get(nm) != 1 or nm in params:
                continue
            par = {}
            for later in lst:
                for p_ in ast.walk(later):
                    for c_ in ast.iter_child_nodes(p_):
                        par[c_] = p_
            uses = [x for x in ast.walk(fnode) if isinstance(x, ast.Name) and x.id == nm and isinstance(x.ctx, ast.Load)]
            after = {id(x) for later in lst[lst.index(st) + 1:] for x in ast.walk(later)}
            if not uses or any(id(u) not in after for u in uses):
                continue
            if kind == "paths":
                k0 = lst.index(st)
                last = max(j for j, later in enumerate(lst) if j > k0 and any(id(u) in {id(x) for x in ast.walk(later)} for u in uses))
                quiet = True
                for later in lst[k0 + 1:last + 1]:
                    for x in ast.walk(later):
                        if isinstance(x, ast.Call) and not (isinstance(x.func, ast.Name) and x.func.id in ("len", "range", "zip", "enumerate") and x.func.id not in counts):
                            quiet = False
                        if isinstance(x, (ast.Attribute, ast.Subscript)) and isinstance(x.ctx, (ast.Store, ast.Del)):
                            quiet = False
                        if isinstance(x, (ast.Await, ast.Yield, ast.YieldFrom)):
                            quiet = False
                if not quiet:
                    continue
                earlier = {t.id for e_ in lst[:k0] for t in ast.walk(e_) if isinstance(t, ast.Name) and isinstance(t.ctx, ast.Store)}
                if any(isinstance(x, ast.Name) and x.id not in params and x.id not in earlier for x in st.value.elts):
                    continue
                kind = "names"
            if kind == "names":
                earlier = {t.id for e_ in lst[:lst.index(st)] for t in ast.walk(e_) if isinstance(t, ast.Name) and isinstance(t.ctx, ast.Store)}
                if any(isinstance(x, ast.Name) and x.id not in params and x.id not in earlier for x in st.value.elts):
                    continue
            if kind == "dict":
                # the value names must already be bound where the display is built and never re-bound: parameters, or locals bound once
                # in an earlier statement of the same list
                earlier = {t.id for e_ in lst[:lst.index(st)] for t in ast.walk(e_) if isinstance(t, ast.Name) and isinstance(t.ctx, ast.Store)}
                if any(isinstance(y, ast.Name) and y.id not in params and y.id not in earlier for x in st.value.values for y in ast.walk(x)):
                    continue

            def ok_use(u):
                p_ = par.get(u)
                # inside a nested function / lambda: evaluated later, possibly after a re-binding
                q_ = p_
                while q_ is not None:
                    if isinstance(q_, (ast.FunctionDef, ast.AsyncFunctionDef, ast.Lambda)):
                        return False
                    q_ = par.get(q_)
                if isinstance(p_, (ast.For, ast.comprehension)) and p_.iter is u:
                    return True
                if kind == "dict" and isinstance(p_, ast.Attribute) and p_.value is u and p_.attr in ("keys", "values", "items"):
                    c_ = par.get(p_)
                    if isinstance(c_, ast.Call) and c_.func is p_ and not c_.args and not c_.keywords:
                        return True                      # a read-only view of the display
                if kind == "names":
                    # a display of objects: only positions are read (X[0], X[1:], len(X), iteration)
                    if isinstance(p_, ast.Subscript) and p_.value is u and isinstance(p_.ctx, ast.Load):
                        sl = p_.slice
                        if isinstance(sl, ast.Constant) and isinstance(sl.value, int):
                            return True
                        if isinstance(sl, ast.Slice) and all(b_ is None or (isinstance(b_, ast.Constant) and isinstance(b_.value, int)) for b_ in (sl.lower, sl.upper, sl.step)):
                            return True
                        return False
                    if isinstance(p_, ast.Call) and isinstance(p_.func, ast.Name) and p_.func.id == "len" and p_.func.id not in counts:
                        return True
                    return False
                if isinstance(p_, ast.Compare) and len(p_.ops) == 1 and isinstance(p_.ops[0], (ast.In, ast.NotIn)) and p_.comparators[0] is u:
                    return True
                if isinstance(p_, ast.BinOp) and isinstance(p_.op, ast.Add) and kind == "seq":
                    return True
                if isinstance(p_, ast.Starred):
                    return True
                if isinstance(p_, ast.Subscript) and p_.slice is u and kind == "seq":
                    return True
                if isinstance(p_, ast.keyword):
                    p_ = par.get(p_)
                    if not isinstance(p_, ast.Call) or p_.func is u:
                        return False
                if isinstance(p_, ast.Call) and p_.func is not u:
                    fn_ = p_.func
                    if isinstance(fn_, ast.Name):
                        return fn_.id in _READONLY_BUILTINS and fn_.id not in counts and fn_.id not in params
                    if isinstance(fn_, ast.Attribute):
                        root = fn_
                        while isinstance(root, ast.Attribute):
                            root = root.value
                        if kind == "dict" and isinstance(fn_.value, ast.Name) and fn_.value.id == nm and fn_.attr in ("keys", "values", "items") and not p_.args and not p_.keywords:
                            return True                  # a read-only view of the display
                        if isinstance(root, ast.Name) and root.id == nm or fn_.attr in _LIST_MUTATORS:
                            return False
                        if fn_.attr in repo_simple and not external_root(root):
                            return False
                        return True                      # a library method / function (pandas, numpy): reads its argument
                return False
            if not all(ok_use(u) for u in uses):
                continue

            class S(ast.NodeTransformer):
                def visit_Name(self, n):
                    if n.id == nm and isinstance(n.ctx, ast.Load):
                        return ast.copy_location(copy.deepcopy(st.value), n)
                    return n
            for later in lst[lst.index(st) + 1:]:
                S().visit(later)
            lst.remove(st)
            changed = True
    if changed:
        ast.fix_missing_locations(fnode)
    return changed



def ssa_straightline(fnode, counter):
    """x = A; use(x); x = B; use(x)   in one statement list, x bound nowhere else and read nowhere else (and never before its first
    binding in the list)  ->  x__s0 = A; use(x__s0); x__s1 = B; use(x__s1): every version is then a single definition that the rules
    read through.  (Left behind when a loop whose body names its own intermediate results has been unrolled or a consumer's body has
    been spliced into several yield sites.)"""
    a = fnode.args
    params = {p.arg for p in a.posonlyargs + a.args + a.kwonlyargs} | ({a.vararg.arg} if a.vararg else set()) | ({a.kwarg.arg} if a.kwarg else set())
    stores, loads, nested_loads = {}, {}, set()
    for x in ast.walk(fnode):
        if isinstance(x, ast.Name):
            if isinstance(x.ctx, (ast.Store, ast.Del)):
                stores[x.id] = stores.get(x.id, 0) + 1
            else:
                loads.setdefault(x.id, []).append(x)
        elif isinstance(x, (ast.FunctionDef, ast.AsyncFunctionDef, ast.Lambda)) and x is not fnode:
            for y in ast.walk(x):
                if isinstance(y, ast.Name):
                    nested_loads.add(y.id)
        elif isinstance(x, (ast.Global, ast.Nonlocal)):
            nested_loads |= set(x.names)
    changed = False

    def lists(stmts):
        yield stmts
        for st in stmts:
            if isinstance(st, (ast.FunctionDef, ast.AsyncFunctionDef, ast.ClassDef)):
                continue
            for fld in ("body", "orelse", "finalbody"):
                sub = getattr(st, fld, None)
                if isinstance(sub, list) and sub and isinstance(sub[0], ast.stmt):
                    yield from lists(sub)
            if isinstance(st, ast.Try):
                for h in st.handlers:
                    yield from lists(h.body)
    for L in list(lists(fnode.body)):
        defs = {}
        for i, st in enumerate(L):
            if isinstance(st, ast.Assign) and len(st.targets) == 1 and isinstance(st.targets[0], ast.Name):
                defs.setdefault(st.targets[0].id, []).append(i)
        for x, idxs in defs.items():
            if len(idxs) < 2 or stores.get(x) != len(idxs) or x in params or x in nested_loads or x.startswith("__"):
                continue
            inside = {}
            for i, st in enumerate(L):
                for y in ast.walk(st):
                    if isinstance(y, ast.Name) and y.id == x and isinstance(y.ctx, ast.Load):
                        inside[id(y)] = i
            if any(id(y) not in inside for y in loads.get(x, [])):
                continue                                    # read outside this list
            if any(i < idxs[0] or (i == idxs[0] and True) for i in inside.values() if i <= idxs[0]):
                continue                                    # read before (or in) its first binding
            k0 = counter[0]
            counter[0] += 1

            def version_at(i, in_value_of_def):
                # the binding that reaches statement i: the last def with index < i (a def's own value reads the previous version)
                v = -1
                for n_, j in enumerate(idxs):
                    if j < i:
                        v = n_
                return v
            for i, st in enumerate(L):
                v = version_at(i, False)
                for y in ast.walk(st):
                    if isinstance(y, ast.Name) and y.id == x and isinstance(y.ctx, ast.Load):
                        y.id = f"{x}__s{k0}_{v}"
            for n_, j in enumerate(idxs):
                L[j].targets[0].id = f"{x}__s{k0}_{n_}"
            changed = True
            # bookkeeping for further names of the same pass
            stores[x] = 0
    if changed:
        ast.fix_missing_locations(fnode)
    return changed



def propagate_name_aliases(fnode):
    """a = b   with a bound exactly once, b a parameter that is never re-bound or a local bound exactly once, and the copy made
    after b's binding in the same or an enclosing statement list: a is another name for the same object; its reads become reads of b"""
    a_ = fnode.args
    params = {p.arg for p in a_.posonlyargs + a_.args + a_.kwonlyargs}
    stores = {}
    for x in ast.walk(fnode):
        if isinstance(x, ast.Name) and isinstance(x.ctx, (ast.Store, ast.Del)):
            stores[x.id] = stores.get(x.id, 0) + 1
        elif isinstance(x, (ast.Global, ast.Nonlocal)):
            for nm in x.names:
                stores[nm] = stores.get(nm, 0) + 2
    done = False

    def scan(stmts, bound):
        nonlocal done
        bound = set(bound)
        for st in list(stmts):
            if isinstance(st, ast.Assign) and len(st.targets) == 1 and isinstance(st.targets[0], ast.Name) and isinstance(st.value, ast.Name):
                a, b = st.targets[0].id, st.value.id
                if a != b and stores.get(a) == 1 and a not in params and ((b in params and stores.get(b, 0) == 0) or (stores.get(b) == 1 and b in bound)):
                    for x in ast.walk(fnode):
                        if isinstance(x, ast.Name) and x.id == a and isinstance(x.ctx, ast.Load):
                            x.id = b
                    stmts.remove(st)
                    done = True
                    continue
            for x in ast.walk(st) if not isinstance(st, (ast.FunctionDef, ast.AsyncFunctionDef, ast.ClassDef)) else []:
                pass
            if isinstance(st, (ast.If, ast.For, ast.While, ast.With, ast.Try)):
                for fld in ("body", "orelse", "finalbody"):
                    sub = getattr(st, fld, None)
                    if isinstance(sub, list) and sub and isinstance(sub[0], ast.stmt):
                        scan(sub, bound)
                        if not sub:
                            sub.append(ast.Pass())
            # names bound by this statement at this level (unconditionally for plain assignments)
            if isinstance(st, ast.Assign):
                for t in st.targets:
                    for y in ast.walk(t):
                        if isinstance(y, ast.Name):
                            bound.add(y.id)
            elif isinstance(st, (ast.With, ast.AsyncWith)):
                for y in ast.walk(st):
                    if isinstance(y, ast.Name) and isinstance(y.ctx, ast.Store) and stores.get(y.id) == 1 and any(y in ast.walk(b_) for b_ in st.body if isinstance(b_, ast.Assign) and b_ in st.body):
                        bound.add(y.id)
    scan(fnode.body, set())
    if done:
        ast.fix_missing_locations(fnode)
    return done



def flatten_nested_zips(fnode, counter):
    """for a, rec in zip(A, zip(B, C)): BODY      ->   for a, rec__z0, rec__z1 in zip(A, B, C): rec = (rec__z0, rec__z1); BODY
    (the inner zip written on the spot, or a local bound once to it immediately consumed by this loop and mentioned nowhere else;
    both zips stop at the shortest column, and an inner zip is only advanced when every column before it still had an item - the
    flat zip reads the same items in the same order)"""
    changed = False
    counts, mentions = {}, {}
    for x in ast.walk(fnode):
        if isinstance(x, ast.Name):
            mentions[x.id] = mentions.get(x.id, 0) + 1
            if isinstance(x.ctx, (ast.Store, ast.Del)):
                counts[x.id] = counts.get(x.id, 0) + 1

    def is_zip(e):
        return isinstance(e, ast.Call) and isinstance(e.func, ast.Name) and e.func.id == "zip" and not e.keywords and e.args and not any(isinstance(a, ast.Starred) for a in e.args)

    def rewrite(stmts):
        nonlocal changed
        out = []
        for i, st in enumerate(stmts):
            for fld in ("body", "orelse", "finalbody"):
                sub = getattr(st, fld, None)
                if isinstance(sub, list) and sub and isinstance(sub[0], ast.stmt) and not isinstance(st, (ast.FunctionDef, ast.AsyncFunctionDef, ast.ClassDef)):
                    setattr(st, fld, rewrite(sub))
            if isinstance(st, ast.For) and not st.orelse and is_zip(st.iter) and isinstance(st.target, (ast.Tuple, ast.List)) and len(st.target.elts) == len(st.iter.args) \
                    and not any(isinstance(t, ast.Starred) for t in st.target.elts):
                new_args, new_tgts, binds, drop_prev = [], [], [], None
                hit = False
                for a, t in zip(st.iter.args, st.target.elts):
                    inner = a if is_zip(a) else None
                    if inner is None and isinstance(a, ast.Name) and counts.get(a.id) == 1 and mentions.get(a.id) == 2 and out and isinstance(out[-1], ast.Assign) \
                            and len(out[-1].targets) == 1 and isinstance(out[-1].targets[0], ast.Name) and out[-1].targets[0].id == a.id and is_zip(out[-1].value) \
                            and all(_cheap(x) or isinstance(x, ast.Subscript) for x in out[-1].value.args):
                        inner = out[-1].value
                        drop_prev = out[-1]
                    if inner is None:
                        new_args.append(a)
                        new_tgts.append(t)
                        continue
                    hit = True
                    if isinstance(t, (ast.Tuple, ast.List)) and len(t.elts) == len(inner.args):
                        new_args += list(inner.args)
                        new_tgts += list(t.elts)
                    elif isinstance(t, ast.Name):
                        k = counter[0]
                        counter[0] += 1
                        names = [f"{t.id}__z{k}_{j}" for j in range(len(inner.args))]
                        new_args += list(inner.args)
                        new_tgts += [ast.Name(id=n_, ctx=ast.Store()) for n_ in names]
                        binds.append(ast.Assign(targets=[ast.Name(id=t.id, ctx=ast.Store())], value=ast.Tuple(elts=[ast.Name(id=n_, ctx=ast.Load()) for n_ in names], ctx=ast.Load()),
                                                lineno=st.lineno, col_offset=0))
                    else:
                        hit = False
                        break
                if hit:
                    if drop_prev is not None:
                        out.pop()
                    st = copy.copy(st)
                    st.iter = ast.Call(func=ast.Name(id="zip", ctx=ast.Load()), args=new_args, keywords=[])
                    st.target = ast.Tuple(elts=new_tgts, ctx=ast.Store())
                    st.body = binds + list(st.body)
                    ast.fix_missing_locations(st)
                    changed = True
            out.append(st)
        return out
    fnode.body = rewrite(fnode.body)
    return changed



def record_defaults_exist(repo, mod, name):
    """does the record class give any field a default (then a shorter starred iterable would also construct it)"""
    from .normalize import record_defaults
    try:
        return bool(record_defaults(repo, mod, name))
    except Exception:
        return True


def unstar_record_constructions(repo, f, counter):
    """t = K(*call(..))   with K a plain NamedTuple / dataclass record of n fields   ->   t__r0, .., t__r{n-1} = call(..); t = K(t__r0, ..)
    (both forms fail unless the call returns exactly n items), so that the record's fields are the items of the call's result"""
    from .normalize import record_fields
    changed = False

    def rewrite(stmts):
        nonlocal changed
        out = []
        for st in stmts:
            for fld in ("body", "orelse", "finalbody"):
                sub = getattr(st, fld, None)
                if isinstance(sub, list) and sub and isinstance(sub[0], ast.stmt) and not isinstance(st, (ast.FunctionDef, ast.AsyncFunctionDef, ast.ClassDef)):
                    setattr(st, fld, rewrite(sub))
            if isinstance(st, ast.Assign) and len(st.targets) == 1 and isinstance(st.targets[0], ast.Name) and isinstance(st.value, ast.Call) and isinstance(st.value.func, ast.Name) \
                    and len(st.value.args) >= 1 and not st.value.keywords and isinstance(st.value.args[-1], ast.Starred) and isinstance(st.value.args[-1].value, ast.Call) \
                    and all(_cheap(a_) or _const(a_) for a_ in st.value.args[:-1]):
                # (leading plain arguments, then the starred call: K(a, b, *call(..)) - the call supplies the remaining fields)
                fields = record_fields(repo, f.mod, st.value.func.id, allow_methods=True)
                lead = list(st.value.args[:-1])
                if fields and len(lead) < len(fields) and not record_defaults_exist(repo, f.mod, st.value.func.id):
                    k = counter[0]
                    counter[0] += 1
                    names = [f"{st.targets[0].id}__r{k}_{i}" for i in range(len(fields) - len(lead))]
                    unpack = ast.Assign(targets=[ast.Tuple(elts=[ast.Name(id=n_, ctx=ast.Store()) for n_ in names], ctx=ast.Store())], value=st.value.args[-1].value, lineno=st.lineno, col_offset=0)
                    build = ast.Assign(targets=st.targets, value=ast.Call(func=st.value.func, args=lead + [ast.Name(id=n_, ctx=ast.Load()) for n_ in names], keywords=[]), lineno=st.lineno, col_offset=0)
                    ast.fix_missing_locations(unpack)
                    ast.fix_missing_locations(build)
                    out += [unpack, build]
                    changed = True
                    continue
            out.append(st)
        return out
    f.node.body = rewrite(f.node.body)
    return changed



def rename_comprehension_targets(fnode, counter):
    """a comprehension's loop variables live in a scope of their own; when the function binds the same name elsewhere (`entry` of a set
    comprehension and `entry` of a later loop) the comprehension's variable gets a name of its own, so that each is a single binding"""
    stores = {}
    for x in ast.walk(fnode):
        if isinstance(x, ast.Name) and isinstance(x.ctx, (ast.Store, ast.Del)):
            stores[x.id] = stores.get(x.id, 0) + 1
    a = fnode.args
    params = {p.arg for p in a.posonlyargs + a.args + a.kwonlyargs}
    plain_assigned = set()
    for n in walk_own(fnode):
        if isinstance(n, ast.Assign):
            for t in n.targets:
                if isinstance(t, ast.Name):
                    plain_assigned.add(t.id)
    changed = False
    for comp in [n for n in ast.walk(fnode) if isinstance(n, (ast.ListComp, ast.SetComp, ast.DictComp, ast.GeneratorExp))]:
        own = {}
        for g in comp.generators:
            for x in ast.walk(g.target):
                if isinstance(x, ast.Name):
                    own[x.id] = own.get(x.id, 0) + 1
        # only a plain assignment elsewhere makes the shared name a problem (a record / tuple local that must be a single binding);
        # loop variables and other comprehensions of the same name are left alone - rules and receiver hints know them by name
        assigned = getattr(rename_comprehension_targets, "_assigned", None)
        clash = [nm for nm, c in own.items() if nm in plain_assigned]
        if not clash:
            continue
        counter[0] += 1
        ren = {nm: f"{nm}__c{counter[0]}" for nm in clash}
        # the first generator's iterable is evaluated in the enclosing scope: it is not renamed
        first_iter = comp.generators[0].iter

        class Rn(ast.NodeTransformer):
            def visit_Name(self, n):
                if n.id in ren:
                    return ast.copy_location(ast.Name(id=ren[n.id], ctx=n.ctx), n)
                return n
        for fld in ("elt", "key", "value"):
            if hasattr(comp, fld):
                setattr(comp, fld, Rn().visit(getattr(comp, fld)))
        for i, g in enumerate(comp.generators):
            g.target = Rn().visit(g.target)
            if i > 0:
                g.iter = Rn().visit(g.iter)
            g.ifs = [Rn().visit(t) for t in g.ifs]
        comp.generators[0].iter = first_iter
        for nm, c in own.items():
            if nm in ren:
                stores[nm] -= c
        changed = True
    if changed:
        ast.fix_missing_locations(fnode)
    return changed


def comprehensions_over_simple_generators(repo, f):
    """{E(x) for x in obj.gen(args)}   with gen a NEW generator of the shape `for k in IT: yield V`   ->   {E(V') for k' in IT'}
    (primes: parameters and the receiver substituted, the generator's loop variable given a fresh name)"""
    from .astutil import resolve_helper, bind_args
    from .inliner import _bind_receiver, _is_generator
    new = set(getattr(repo, "new_functions", []) or [])
    if not new:
        return False
    changed = False
    used = {x.id for x in ast.walk(f.node) if isinstance(x, ast.Name)}
    k_ = [0]
    for comp in [n for n in ast.walk(f.node) if isinstance(n, (ast.ListComp, ast.SetComp, ast.DictComp, ast.GeneratorExp))]:
        for g in comp.generators:
            if not (isinstance(g.iter, ast.Call) and isinstance(g.target, ast.Name) and not g.is_async):
                continue
            h, skip = resolve_helper(repo, f, g.iter)
            if h is None or h.qname not in new or h.node is f.node or not _is_generator(h.node) or h.node.decorator_list:
                continue
            body = [st for st in h.node.body if not (isinstance(st, ast.Expr) and isinstance(st.value, ast.Constant))]
            if not (len(body) == 1 and isinstance(body[0], ast.For) and not body[0].orelse and len(body[0].body) == 1 and isinstance(body[0].body[0], ast.Expr)
                    and isinstance(body[0].body[0].value, ast.Yield) and body[0].body[0].value.value is not None and isinstance(body[0].target, ast.Name)):
                continue
            b = _bind_receiver(h, skip, g.iter, bind_args(h, skip, g.iter), f)
            if b is None or not all(_cheap(v) or isinstance(v, ast.Constant) for v in b.values()):
                continue
            lp = body[0]
            k_[0] += 1
            fresh = f"{lp.target.id}__y{k_[0]}"
            while fresh in used:
                k_[0] += 1
                fresh = f"{lp.target.id}__y{k_[0]}"
            used.add(fresh)
            sub = _Sub(dict(b), {lp.target.id: fresh})
            it2 = sub.visit(copy.deepcopy(lp.iter))
            val2 = sub.visit(copy.deepcopy(lp.body[0].value.value))
            x = g.target.id
            xs = _Sub({x: val2}, {})
            for fld in ("elt", "key", "value"):
                if hasattr(comp, fld):
                    setattr(comp, fld, xs.visit(getattr(comp, fld)))
            later = comp.generators[comp.generators.index(g) + 1:]
            for g2 in later:
                g2.iter = xs.visit(g2.iter)
                g2.ifs = [xs.visit(t) for t in g2.ifs]
            g.ifs = [xs.visit(t) for t in g.ifs]
            g.target = ast.Name(id=fresh, ctx=ast.Store())
            g.iter = it2
            changed = True
    if changed:
        ast.fix_missing_locations(f.node)
    return changed


# --------------------------------------------------------------------------------------------------- deferred raise
def undefer_raises(stmts):
    """problem = None; if A: problem = M1 [elif B: problem = M2 ...]; if problem is not None: raise E(problem)
       ->  if A: raise E(M1) [elif B: raise E(M2)]            (three consecutive statements of one list)"""
    changed = False
    out = []
    i = 0
    while i < len(stmts):
        st = stmts[i]
        for fld in ("body", "orelse", "finalbody"):
            sub = getattr(st, fld, None)
            if isinstance(sub, list) and sub and isinstance(sub[0], ast.stmt) and not isinstance(st, (ast.FunctionDef, ast.ClassDef)):
                new, ch = undefer_raises(sub)
                setattr(st, fld, new)
                changed = changed or ch
        if i + 2 < len(stmts) and isinstance(st, ast.Assign) and len(st.targets) == 1 and isinstance(st.targets[0], ast.Name) and isinstance(st.value, ast.Constant) and st.value.value is None:
            v = st.targets[0].id
            chain, fin = stmts[i + 1], stmts[i + 2]
            if isinstance(chain, ast.If) and isinstance(fin, ast.If) and not fin.orelse and len(fin.body) == 1 and isinstance(fin.body[0], ast.Raise) \
                    and U(fin.test).replace(" ", "") in (f"{v}isnotNone", v) and _only_sets(chain, v):
                exc = fin.body[0]
                new_chain = _replace_sets(copy.deepcopy(chain), v, exc)
                if new_chain is not None:
                    out.append(new_chain)
                    i += 3
                    changed = True
                    continue
        # the same without a separate initialisation: the chain ends in `else: problem = None`
        if i + 1 < len(stmts) and isinstance(st, ast.If) and isinstance(stmts[i + 1], ast.If):
            fin = stmts[i + 1]
            if not fin.orelse and len(fin.body) == 1 and isinstance(fin.body[0], ast.Raise):
                t_ = U(fin.test).replace(" ", "")
                v = t_[:-len("isnotNone")] if t_.endswith("isnotNone") else (t_ if t_.isidentifier() else None)
                if v and v.isidentifier():
                    # find the last else arm
                    n_, prev = st, None
                    arms_ok = True
                    while True:
                        if not (len(n_.body) == 1 and isinstance(n_.body[0], ast.Assign) and len(n_.body[0].targets) == 1 and U(n_.body[0].targets[0]) == v):
                            arms_ok = False
                            break
                        if len(n_.orelse) == 1 and isinstance(n_.orelse[0], ast.If):
                            n_ = n_.orelse[0]
                            continue
                        break
                    tail_none = arms_ok and len(n_.orelse) == 1 and isinstance(n_.orelse[0], ast.Assign) and U(n_.orelse[0].targets[0]) == v \
                        and isinstance(n_.orelse[0].value, ast.Constant) and n_.orelse[0].value.value is None
                    # v is not read anywhere after the deferred raise
                    later = any(isinstance(x, ast.Name) and x.id == v for s_ in stmts[i + 2:] for x in ast.walk(s_))
                    none_values = any(isinstance(a_.body[0].value, ast.Constant) and a_.body[0].value.value is None for a_ in [st] if arms_ok)
                    if tail_none and not later and not none_values:
                        chain = copy.deepcopy(st)
                        m_ = chain
                        while len(m_.orelse) == 1 and isinstance(m_.orelse[0], ast.If):
                            m_ = m_.orelse[0]
                        m_.orelse = []
                        new_chain = _replace_sets(chain, v, fin.body[0])
                        if new_chain is not None:
                            out.append(new_chain)
                            i += 2
                            changed = True
                            continue
        out.append(st)
        i += 1
    return out, changed


def _only_sets(iff, v):
    """every arm of the if/elif chain is exactly `v = <expr>` (no else arm other than a further if)"""
    n = iff
    while True:
        if not (len(n.body) == 1 and isinstance(n.body[0], ast.Assign) and len(n.body[0].targets) == 1 and U(n.body[0].targets[0]) == v):
            return False
        if not n.orelse:
            return True
        if len(n.orelse) == 1 and isinstance(n.orelse[0], ast.If):
            n = n.orelse[0]
            continue
        return False


def _replace_sets(iff, v, exc):
    n = iff
    while True:
        val = n.body[0].value
        r = copy.deepcopy(exc)
        r = _Sub({v: val}, {}).visit(r)
        n.body = [r]
        if not n.orelse:
            return iff
        n = n.orelse[0]


# --------------------------------------------------------------------------------------------------- driver
def drop_unused_closures(fnode):
    """nested function definitions that nothing refers to any more (all their calls were replaced by their value)"""
    used = {x.id for x in ast.walk(fnode) if isinstance(x, ast.Name)}
    dropped = [False]

    def strip(stmts):
        out = []
        for st in stmts:
            if isinstance(st, ast.FunctionDef) and st.name not in used and not st.decorator_list:
                dropped[0] = True
                continue
            for fld in ("body", "orelse", "finalbody"):
                sub = getattr(st, fld, None)
                if isinstance(sub, list) and sub and isinstance(sub[0], ast.stmt) and not isinstance(st, (ast.FunctionDef, ast.ClassDef)):
                    new = strip(sub)
                    setattr(st, fld, new or ([ast.Pass()] if fld == "body" else []))
            out.append(st)
        return out
    fnode.body = strip(fnode.body)
    return dropped[0]


def _calls_new_helper(repo, f):
    from .astutil import resolve_helper
    new = set(getattr(repo, "new_functions", []) or [])
    if not new:
        return False
    for n in ast.walk(f.node):
        if isinstance(n, ast.Call):
            h, _ = resolve_helper(repo, f, n)
            if h is not None and h.qname in new and h.node is not f.node:
                return True
    return False


def has_constant_structure(repo, f):
    """cheap trigger: the function contains a closure, a lambda bound to a name, a loop / comprehension over a constant
    iterable, a `**name` call argument or a constant-key dict local"""
    for n in ast.walk(f.node):
        if isinstance(n, ast.FunctionDef) and n is not f.node:
            return True
        if isinstance(n, ast.Assign) and isinstance(n.value, ast.Lambda):
            return True
        if isinstance(n, (ast.For, ast.comprehension)) and _rows(repo, f, n.iter) is not None:
            return True
        if isinstance(n, ast.For) and isinstance(n.iter, (ast.List, ast.Tuple)):
            return True
        if isinstance(n, ast.Assign) and len(n.targets) == 1 and isinstance(n.targets[0], (ast.Tuple, ast.List)) and any(isinstance(t, ast.Starred) for t in n.targets[0].elts):
            return True
        if isinstance(n, ast.keyword) and n.arg is None and isinstance(n.value, ast.Name):
            return True
        if isinstance(n, ast.If) and len(n.body) == 1 and isinstance(n.body[0], ast.Raise) and isinstance(n.test, ast.Compare) and isinstance(n.test.left, ast.Name) \
                and isinstance(n.test.ops[0], ast.IsNot) and U(n.test.comparators[0]) == "None":
            return True
        if isinstance(n, ast.Call) and isinstance(n.func, (ast.Lambda,)):
            return True
        if isinstance(n, ast.Subscript) and isinstance(n.slice, ast.Constant) and isinstance(n.value, (ast.Name, ast.Attribute)) and _const_dict(repo, f, n.value) is not None:
            return True
        if isinstance(n, ast.Call) and U(n.func) in ("functools.reduce", "reduce", "slice"):
            return True
        # D = {"a": .., "b": ..} read as D["a"]: a dict local with constant keys
        if isinstance(n, ast.Assign) and len(n.targets) == 1 and isinstance(n.targets[0], ast.Name) and isinstance(n.value, ast.Dict) and n.value.keys and None not in n.value.keys \
                and all(isinstance(k_, ast.Constant) and isinstance(k_.value, str) for k_ in n.value.keys) \
                and any(isinstance(x, ast.Subscript) and isinstance(x.value, ast.Name) and x.value.id == n.targets[0].id and isinstance(x.slice, ast.Constant) for x in ast.walk(f.node)):
            return True
        if isinstance(n, ast.Call) and isinstance(n.func, ast.Name) and n.func.id[:1].isupper() or (isinstance(n, ast.Call) and isinstance(n.func, ast.Name) and n.func.id.startswith("_") and n.func.id[1:2].isupper()):
            from .normalize import record_fields
            if record_fields(repo, f.mod, n.func.id, allow_methods=True) is not None:
                return True
        if isinstance(n, ast.Call) and isinstance(n.func, ast.Attribute) and n.func.attr == "update" and isinstance(n.func.value, ast.Attribute) and n.func.value.attr == "__dict__":
            return True
        if isinstance(n, ast.Compare) and len(n.ops) == 1 and isinstance(n.ops[0], (ast.In, ast.NotIn)) and isinstance(n.left, ast.Constant) \
                and isinstance(n.comparators[0], (ast.Name, ast.Attribute)) and _table(repo, f, n.comparators[0]) is not None:
            return True
    return False


def _loops_over_generator_expression(fnode):
    return any(isinstance(x, ast.For) and isinstance(x.iter, ast.GeneratorExp) for x in walk_own(fnode))


def _zips_comprehension_locals(fnode):
    comp_locals = {x.targets[0].id for x in walk_own(fnode) if isinstance(x, ast.Assign) and len(x.targets) == 1 and isinstance(x.targets[0], ast.Name) and isinstance(x.value, ast.ListComp)}
    return bool(comp_locals) and any(isinstance(x, ast.For) and isinstance(x.iter, ast.Call) and U(x.iter.func) == "zip" and len(x.iter.args) >= 2
                                     and all(isinstance(a_, ast.Name) and a_.id in comp_locals for a_ in x.iter.args) for x in walk_own(fnode))


def split_boolean_keyed_dicts(fnode, counter):
    """D = {True: a, False: b}  (bound once, only ever subscripted, by True / False / bool(E) / not E)   ->   two scalars:
           D[True] -> D__t ;  D[bool(E)] op= v  ->  if E: D__t op= v  else: D__f op= v ;  a read D[bool(E)] -> (D__t if E else D__f)
    bool(E) and the test of an `if` both ask E for its truth value once, in the same place in the evaluation order."""
    par = {}
    for n in ast.walk(fnode):
        for c in ast.iter_child_nodes(n):
            par[c] = n
    a = fnode.args
    params = {p.arg for p in a.posonlyargs + a.args + a.kwonlyargs} | ({a.vararg.arg} if a.vararg else set()) | ({a.kwarg.arg} if a.kwarg else set())
    cands = {}
    for st in walk_own(fnode):
        if isinstance(st, ast.Assign) and len(st.targets) == 1 and isinstance(st.targets[0], ast.Name) and isinstance(st.value, ast.Dict) and len(st.value.keys) == 2 \
                and all(isinstance(k, ast.Constant) and isinstance(k.value, bool) for k in st.value.keys) and {k.value for k in st.value.keys} == {True, False}:
            cands.setdefault(st.targets[0].id, []).append(st)
    changed = False
    for name, defs in cands.items():
        if len(defs) != 1 or name in params or name in _CAPTURED:
            continue
        occ = [x for x in ast.walk(fnode) if isinstance(x, ast.Name) and x.id == name]
        uses = [x for x in occ if x is not defs[0].targets[0]]

        def key_kind(k):
            if isinstance(k, ast.Constant) and isinstance(k.value, bool):
                return "const"
            if isinstance(k, ast.Call) and isinstance(k.func, ast.Name) and k.func.id == "bool" and len(k.args) == 1 and not k.keywords:
                return "bool"
            if isinstance(k, ast.UnaryOp) and isinstance(k.op, ast.Not):
                return "not"
            return None
        if not uses or any(not (isinstance(par.get(u), ast.Subscript) and par[u].value is u and key_kind(par[u].slice)) for u in uses):
            continue
        if any(isinstance(x, (ast.FunctionDef, ast.AsyncFunctionDef, ast.Lambda)) and x is not fnode and any(isinstance(y, ast.Name) and y.id == name for y in ast.walk(x)) for x in ast.walk(fnode)):
            continue
        counter[0] += 1
        tn, fn_ = f"{name}__t{counter[0]}", f"{name}__f{counter[0]}"

        def test_of(k):
            kk = key_kind(k)
            return k.args[0] if kk == "bool" else k          # `not E` is its own test

        ok = True
        # statement-level stores first
        plan = []
        for u in uses:
            sub = par[u]
            kk = key_kind(sub.slice)
            if isinstance(sub.ctx, ast.Load):
                continue
            stt = par.get(sub)
            if kk == "const":
                continue
            if not (isinstance(stt, (ast.AugAssign, ast.Assign)) and ((isinstance(stt, ast.AugAssign) and stt.target is sub) or (isinstance(stt, ast.Assign) and stt.targets == [sub]))):
                ok = False
                break
            if any(isinstance(y, ast.Name) and y.id == name for y in ast.walk(stt.value)):
                ok = False
                break
            plan.append((stt, sub))
        if not ok:
            continue

        class RW(ast.NodeTransformer):
            def visit_Subscript(self, n):
                self.generic_visit(n)
                if isinstance(n.value, ast.Name) and n.value.id == name:
                    kk = key_kind(n.slice)
                    if kk == "const":
                        return ast.copy_location(ast.Name(id=tn if n.slice.value else fn_, ctx=n.ctx), n)
                    if isinstance(n.ctx, ast.Load):
                        return ast.copy_location(ast.IfExp(test=test_of(n.slice), body=ast.Name(id=tn, ctx=ast.Load()), orelse=ast.Name(id=fn_, ctx=ast.Load())), n)
                return n

        def rewrite_block(stmts):
            out = []
            for st in stmts:
                hit = next((p_ for p_ in plan if p_[0] is st), None)
                if hit is not None:
                    sub = hit[1]
                    arms = []
                    for nm in (tn, fn_):
                        c_ = copy.deepcopy(st)
                        tgt = ast.Name(id=nm, ctx=ast.Store())
                        if isinstance(c_, ast.AugAssign):
                            c_.target = tgt
                        else:
                            c_.targets = [tgt]
                        c_.value = RW().visit(c_.value)
                        arms.append(c_)
                    out.append(ast.copy_location(ast.If(test=copy.deepcopy(test_of(sub.slice)), body=[arms[0]], orelse=[arms[1]]), st))
                    continue
                if st is defs[0]:
                    d = dict((k.value, v) for k, v in zip(st.value.keys, st.value.values))
                    # values in display order (evaluation order kept)
                    for k, v in zip(st.value.keys, st.value.values):
                        out.append(ast.copy_location(ast.Assign(targets=[ast.Name(id=tn if k.value else fn_, ctx=ast.Store())], value=v, lineno=st.lineno), st))
                    continue
                for fld in ("body", "orelse", "finalbody"):
                    subl = getattr(st, fld, None)
                    if isinstance(subl, list) and subl and isinstance(subl[0], ast.stmt) and not isinstance(st, (ast.FunctionDef, ast.AsyncFunctionDef, ast.ClassDef)):
                        setattr(st, fld, rewrite_block(subl))
                if isinstance(st, ast.Try):
                    for h in st.handlers:
                        h.body = rewrite_block(h.body)
                # expression parts of this statement (not nested statement lists, which were handled above)
                for fld, val in ast.iter_fields(st):
                    if fld in ("body", "orelse", "finalbody", "handlers"):
                        continue
                    if isinstance(val, ast.AST):
                        setattr(st, fld, RW().visit(val))
                    elif isinstance(val, list):
                        setattr(st, fld, [RW().visit(x) if isinstance(x, ast.AST) else x for x in val])
                out.append(st)
            return out
        fnode.body = rewrite_block(fnode.body)
        changed = True
    if changed:
        ast.fix_missing_locations(fnode)
    return changed


def inline_new_self_properties(repo, f):
    """self.NAME  with NAME a @property that is NEW (outside the baseline table), defined by the enclosing class (or a base) with a body of one
    `return E` over `self` only   ->   E.   (A property introduced by a later change is read where it is used, like a new helper.)"""
    new = set(getattr(repo, "new_functions", []) or [])
    if not new or not f.cls:
        return False
    changed = [False]

    class T(ast.NodeTransformer):
        def visit_Attribute(self, n):
            self.generic_visit(n)
            if isinstance(n.ctx, ast.Load) and isinstance(n.value, ast.Name) and n.value.id == "self":
                m = repo.lookup_method(f.class_q, n.attr)
                g = repo.funcs.get(m) if m else None
                if g is not None and m in new and g.is_property and g.node is not f.node and g.params == ["self"]:
                    body_ = [st for st in g.node.body if not (isinstance(st, ast.Expr) and isinstance(st.value, ast.Constant))]
                    if len(body_) == 1 and isinstance(body_[0], ast.Return) and body_[0].value is not None \
                            and all(not isinstance(x, ast.Name) or x.id == "self" or repo.chase(g.mod, x.id) is not None or x.id in ("np", "len", "tuple", "list") for x in ast.walk(body_[0].value)) \
                            and g.mod == f.mod:
                        changed[0] = True
                        return ast.copy_location(copy.deepcopy(body_[0].value), n)
            return n
    f.node = T().visit(f.node)
    return changed[0]


def propagate_nonzero_locals(fnode):
    """rows = M.nonzero() / np.nonzero(M)   (M a plain name / attribute path; rows bound once and used only as a whole index `X[rows]`)
    ->  X[M]: the tuple of index arrays of a mask selects what the mask selects, in the same order"""
    stores = {}
    for x in ast.walk(fnode):
        if isinstance(x, ast.Name) and isinstance(x.ctx, (ast.Store, ast.Del)):
            stores[x.id] = stores.get(x.id, 0) + 1
    par = {}
    for n in ast.walk(fnode):
        for c in ast.iter_child_nodes(n):
            par[c] = n
    changed = False
    for st in list(walk_own(fnode)):
        if not (isinstance(st, ast.Assign) and len(st.targets) == 1 and isinstance(st.targets[0], ast.Name) and isinstance(st.value, ast.Call) and not st.value.keywords):
            continue
        v, name = st.value, st.targets[0].id
        mask = None
        if isinstance(v.func, ast.Attribute) and v.func.attr == "nonzero" and not v.args and _cheap(v.func.value) and not (isinstance(v.func.value, ast.Name) and v.func.value.id in ("np", "numpy")):
            mask = v.func.value
        elif U(v.func) in ("np.nonzero", "numpy.nonzero") and len(v.args) == 1 and _cheap(v.args[0]):
            mask = v.args[0]
        if mask is None or stores.get(name) != 1 or name in _CAPTURED:
            continue
        uses = [x for x in ast.walk(fnode) if isinstance(x, ast.Name) and x.id == name and isinstance(x.ctx, ast.Load)]
        if not uses or not all(isinstance(par.get(u), ast.Subscript) and par[u].slice is u and isinstance(par[u].ctx, ast.Load) for u in uses):
            continue
        # the mask must not be re-bound or written between the definition and the uses: require that nothing stores into its root at all
        root = mask
        while isinstance(root, ast.Attribute):
            root = root.value
        if not isinstance(root, ast.Name) or stores.get(root.id, 0) > (0 if root.id in {p.arg for p in fnode.args.args} else 1):
            continue
        mtxt = U(mask)
        if any(isinstance(x, (ast.Subscript, ast.Attribute)) and isinstance(x.ctx, (ast.Store, ast.Del)) and U(x.value if isinstance(x, ast.Subscript) else x) == mtxt for x in ast.walk(fnode)):
            continue
        for u in uses:
            par[u].slice = copy.deepcopy(mask)
        changed = True
    if changed:
        drop_dead = [st for st in walk_own(fnode) if isinstance(st, ast.Assign) and len(st.targets) == 1 and isinstance(st.targets[0], ast.Name)
                     and not any(isinstance(x, ast.Name) and x.id == st.targets[0].id and isinstance(x.ctx, ast.Load) for x in ast.walk(fnode))
                     and isinstance(st.value, ast.Call) and ((isinstance(st.value.func, ast.Attribute) and st.value.func.attr == "nonzero"))]

        def strip(stmts):
            out = []
            for s_ in stmts:
                if any(s_ is d for d in drop_dead):
                    continue
                for fld in ("body", "orelse", "finalbody"):
                    sub = getattr(s_, fld, None)
                    if isinstance(sub, list) and sub and isinstance(sub[0], ast.stmt) and not isinstance(s_, (ast.FunctionDef, ast.AsyncFunctionDef, ast.ClassDef)):
                        setattr(s_, fld, strip(sub) or [ast.Pass()])
                out.append(s_)
            return out
        fnode.body = strip(fnode.body) or [ast.Pass()]
        ast.fix_missing_locations(fnode)
    return changed


def partial_evaluate(repo, max_rounds=8):
    from .inliner import simplify
    from .normalize import simplify_lists
    report = {}
    counter = [0]
    for q, f in list(repo.funcs.items()):
        if not has_constant_structure(repo, f) and not _calls_new_helper(repo, f) and q not in getattr(repo, "inlined", {}) and not _zips_comprehension_locals(f.node) \
                and not _loops_over_generator_expression(f.node):
            continue
        steps = []
        for _ in range(max_rounds):
            ch = False
            _CAPTURED.clear()
            _CAPTURED.update(captured_names(f.node))
            body, c0 = unfold_reduce(f.node.body, counter)
            f.node.body = body
            if c0:
                ch = True
                steps.append("reduce")
                from .normalize import _Synonyms
                f.node = _Synonyms().visit(f.node)          # acc = operator.add(acc, x)  ->  acc = acc + x
            if (steps or _loops_over_generator_expression(f.node)) and loops_over_generator_expressions(f.node, counter):
                ch = True
                steps.append("genexp-loops")
            if (steps or q in getattr(repo, "inlined", {}) or _zips_comprehension_locals(f.node)) and loops_over_zipped_comprehensions(f.node, counter):
                ch = True
                steps.append("zipped-comprehensions")
            if star_unpack_of_lists(f.node):
                ch = True
                steps.append("star-unpack")
            if inline_expression_helpers(repo, f):
                ch = True
                steps.append("helpers")
            if inline_new_self_properties(repo, f):
                ch = True
                steps.append("new-properties")
            if inline_closures(f.node):
                ch = True
                steps.append("closures")
            if splice_statement_closures(f.node, counter):
                ch = True
                steps.append("procedures")
            if (steps or q in getattr(repo, "inlined", {})) and propagate_path_aliases(repo, f):
                ch = True
                steps.append("aliases")
            if (steps or q in getattr(repo, "inlined", {})) and scalarise_display_locals(f, counter):
                ch = True
                steps.append("displays")
            if (steps or q in getattr(repo, "inlined", {}) or _calls_new_helper(repo, f)) and comprehensions_over_simple_generators(repo, f):
                ch = True
                steps.append("comprehension-generators")
            if (steps or q in getattr(repo, "inlined", {})) and rename_comprehension_targets(f.node, counter):
                ch = True
                steps.append("comprehension-scopes")
            if unstar_record_constructions(repo, f, counter):
                ch = True
                steps.append("unstar-records")
            if (steps or q in getattr(repo, "inlined", {})) and fuse_collect_then_iterate(f.node):
                ch = True
                steps.append("collect-then-iterate")
            if (steps or q in getattr(repo, "inlined", {})) and project_comprehension_locals(f.node):
                ch = True
                steps.append("comprehension-projections")
            if (steps or q in getattr(repo, "inlined", {})) and drop_dead_constant_stores(f.node):
                ch = True
                steps.append("dead-stores")
            if (steps or q in getattr(repo, "inlined", {})) and split_conditional_tuples(f.node, counter, repo, f.mod):
                ch = True
                steps.append("conditional-tuples")
            if (steps or q in getattr(repo, "inlined", {})) and scalarise_conditional_records(repo, f):
                ch = True
                steps.append("conditional-records")
            if (steps or q in getattr(repo, "inlined", {})) and split_boolean_keyed_dicts(f.node, counter):
                ch = True
                steps.append("boolean-keyed-dicts")
            if (steps or q in getattr(repo, "inlined", {})) and split_record_lists(repo, f):
                ch = True
                steps.append("record-lists")
            if propagate_record_locals(repo, f):
                ch = True
                steps.append("records")
            if unroll_loops(repo, f, counter):
                ch = True
                steps.append("unroll")
            if steps and sink_appends(f.node, counter):
                ch = True
                steps.append("sink-appends")
                fold_append_sequences(f.node)
            if steps and setdefault_groups(f.node):
                ch = True
                steps.append("groups")
                fold_append_sequences(f.node)
            if propagate_constant_locals(f.node):
                ch = True
                steps.append("constants")
            if (steps or q in getattr(repo, "inlined", {})) and drop_unused_closures(f.node):
                ch = True
                steps.append("unused-closures")
            if (steps or q in getattr(repo, "inlined", {})) and propagate_readonly_displays(repo, f):
                ch = True
                steps.append("readonly-displays")
            if (steps or q in getattr(repo, "inlined", {})) and flatten_nested_zips(f.node, counter):
                ch = True
                steps.append("nested-zips")
            if (steps or q in getattr(repo, "inlined", {})) and propagate_name_aliases(f.node):
                ch = True
                steps.append("name-aliases")
            if steps and ssa_straightline(f.node, counter):
                ch = True
                steps.append("ssa")
            if steps and propagate_constants_straightline(f.node):
                ch = True
                steps.append("constants-in-order")
            if (steps or q in getattr(repo, "inlined", {})) and sink_optional_uses_into_arms(f.node, counter):
                ch = True
                steps.append("optionals-per-arm")
            if q in getattr(repo, "inlined", {}) and "exit-test-per-arm" not in steps and sink_exit_test_into_arms(f.node):
                ch = True
                steps.append("exit-test-per-arm")
            if sink_callable_uses_into_arms(f.node, counter):
                ch = True
                steps.append("callables-per-arm")
            if steps and propagate_callable_locals(f.node):
                ch = True
                steps.append("callables")
            if propagate_slice_locals(f.node):
                ch = True
                steps.append("slices")
            if (steps or q in getattr(repo, "inlined", {})) and propagate_nonzero_locals(f.node):
                ch = True
                steps.append("nonzero-locals")
            if steps and propagate_tuple_locals(f.node):
                ch = True
                steps.append("tuples")
            fo = Fold(repo, f)
            fo._fold_keys = bool(steps) or q in getattr(repo, "inlined", {})
            f.node = fo.visit(f.node)
            body, c2 = fold_if_statements(f.node.body)
            f.node.body = body
            if fo.changed or c2:
                ch = True
                steps.append("fold")
            if steps or q in getattr(repo, "inlined", {}):           # only in functions being specialised / with expanded helpers: decide `x is None` tests on straight-line code
                body, c4 = forward_none_tests(f.node.body)
                f.node.body = body
                if c4:
                    ch = True
                    steps.append("none-tests")
            if "exit-test-per-arm" in steps and "none-tests" in steps and merge_duplicated_tails(f.node):
                ch = True
                steps.append("merge-tails")
            body, c3 = undefer_raises(f.node.body)
            f.node.body = body
            if c3:
                ch = True
                steps.append("undefer-raise")
            f.node = _Getattr().visit(f.node)
            if expand_constant_dicts(f.node):
                ch = True
                steps.append("dicts")
            ast.fix_missing_locations(f.node)
            if not ch:
                break
            simplify_lists(f.node, simplify)        # split tuple assignments / merge re-definitions before the next round
        if steps:
            drop_unused_closures(f.node)
            simplify_lists(f.node, simplify)
            fold_append_sequences(f.node)
            f.node = _Getattr().visit(f.node)
            ast.fix_missing_locations(f.node)
            report[q] = steps
    return report


def fuse_comprehensions(e):
    """[E(x) for x in [F(i) for i in IT]]  ->  [E(F(i)) for i in IT]   (single generators, no conditions), then constant folding
    (so that `[x[0] for x in [(a[:, i], b[:, i]) for i in R]]` becomes `[a[:, i] for i in R]`)"""
    e = copy.deepcopy(e)

    class F(ast.NodeTransformer):
        def _fuse(self, n):
            self.generic_visit(n)
            # [E(a, b) for a, b in [(X(i), Y(i)) for i in IT]]  ->  [E(X(i), Y(i)) for i in IT]      (a tuple target against a tuple element)
            if len(n.generators) == 1 and not n.generators[0].ifs and isinstance(n.generators[0].target, ast.Tuple) \
                    and all(isinstance(t_, ast.Name) for t_ in n.generators[0].target.elts):
                inner = n.generators[0].iter
                if isinstance(inner, (ast.ListComp, ast.GeneratorExp)) and len(inner.generators) == 1 and not inner.generators[0].ifs and isinstance(inner.elt, ast.Tuple) \
                        and len(inner.elt.elts) == len(n.generators[0].target.elts) and all(_cheap(x_) or isinstance(x_, ast.Subscript) for x_ in inner.elt.elts):
                    names_ = [t_.id for t_ in n.generators[0].target.elts]
                    if len(set(names_) - {"_"}) == len([x_ for x_ in names_ if x_ != "_"]):
                        n.elt = _Sub({nm_: v_ for nm_, v_ in zip(names_, inner.elt.elts) if nm_ != "_"}, {}).visit(n.elt)
                        n.generators = inner.generators
                        return n
            if len(n.generators) == 1 and not n.generators[0].ifs and isinstance(n.generators[0].target, ast.Name):
                inner = n.generators[0].iter
                if isinstance(inner, (ast.ListComp, ast.GeneratorExp)) and len(inner.generators) == 1 and not inner.generators[0].ifs:
                    x = n.generators[0].target.id
                    uses = sum(1 for y in ast.walk(n.elt) if isinstance(y, ast.Name) and y.id == x)
                    if uses <= 1 or _cheap(inner.elt) or isinstance(inner.elt, ast.Tuple):
                        n.elt = _Sub({x: inner.elt}, {}).visit(n.elt)
                        n.generators = inner.generators
            return n
        visit_ListComp = _fuse
        visit_GeneratorExp = _fuse
    e = F().visit(e)
    fo = Fold()
    e = fo.visit(e)
    return e
