"""E1 - repository model: parsed modules, import resolution, class hierarchy.

Everything is computed from the source text of the tree under ``root``
(default /repo, override with VERIF_REPO_ROOT) with the stdlib ``ast`` module.
No repository code is imported or executed.
"""
import ast
import collections
import hashlib
import os


class AnalysisError(Exception):
    """An anchor vanished or a construct is outside the fragment a rule can
    normalise.  The driver turns this into exit code 2 (never a silent pass,
    never a VIOLATION)."""


def repo_root():
    return os.environ.get("VERIF_REPO_ROOT", "/repo")


class Func:
    __slots__ = ("mod", "cls", "node", "name", "qname", "is_property", "is_static",
                 "is_classmethod", "is_abstract", "path")

    def __init__(self, mod, cls, node, path):
        self.mod, self.cls, self.node, self.path = mod, cls, node, path
        self.name = node.name
        self.qname = f"{mod}.{cls + '.' if cls else ''}{node.name}"
        decos = [ast.unparse(d) for d in node.decorator_list]
        self.is_property = "property" in decos
        self.is_static = "staticmethod" in decos
        self.is_classmethod = "classmethod" in decos
        self.is_abstract = "abstractmethod" in decos

    @property
    def params(self):
        a = self.node.args
        return [p.arg for p in a.posonlyargs + a.args + a.kwonlyargs]

    @property
    def class_q(self):
        return f"{self.mod}.{self.cls}" if self.cls else None

    def site(self):
        """stable, position-free name used in reports"""
        short = self.mod[len("batchie."):] if self.mod.startswith("batchie.") else self.mod
        return f"{short}.{self.cls + '.' if self.cls else ''}{self.name}"

    def __repr__(self):
        return f"<Func {self.qname}>"


ORCH_MOD = "orchestrator"  # module name given to nextflow/scripts/batchie.py


class Repo:
    def __init__(self, root=None, overrides=None):
        self.root = root or repo_root()
        self._text_overrides = overrides or {}
        self.modules = {}       # modname -> ast.Module
        self.paths = {}         # modname -> path
        self.sources = {}       # modname -> text
        self.funcs = {}         # qname -> Func
        self.classes = {}       # "mod.Class" -> ClassDef
        self.imports = collections.defaultdict(dict)
        self.consts = collections.defaultdict(dict)  # mod -> name -> value node (module-level simple assigns)
        src = os.path.join(self.root, "src")
        pkg = os.path.join(src, "batchie")
        if not os.path.isdir(pkg):
            raise AnalysisError(f"package directory missing: {pkg}")
        files = []
        for dp, dn, fn in os.walk(pkg):
            dn.sort()
            for f in sorted(fn):
                if f.endswith(".py") and not f.endswith("_test.py") and f != "conftest.py":
                    p = os.path.join(dp, f)
                    rel = os.path.relpath(p, src)[:-3].replace(os.sep, ".")
                    if rel.endswith(".__init__"):
                        rel = rel[:-9]
                    files.append((rel, p))
        orch = os.path.join(self.root, "nextflow", "scripts", "batchie.py")
        if os.path.exists(orch):
            files.append((ORCH_MOD, orch))
        for rel, p in files:
            text = self._text_overrides.get(rel)
            if text is None:
                text = open(p, encoding="utf-8").read()
            try:
                tree = ast.parse(text, p)
            except SyntaxError as e:
                raise AnalysisError(f"cannot parse {p}: {e}")
            self.modules[rel] = tree
            self.paths[rel] = p
            self.sources[rel] = text
        for m, tree in self.modules.items():
            for n in tree.body:
                self._top(m, n)
        self._properties_from_factories()
        self._mro = {}
        self.inlined = {}
        self.absorbed = []
        self.new_functions = []
        self.unrolled = {}
        self.partially_evaluated = {}
        from . import inliner as _inl
        _inl.NONNULL_REPO_FUNCTIONS.clear()
        _simple = {}
        for q_, f_ in self.funcs.items():
            _simple.setdefault(q_.rsplit(".", 1)[-1], []).append(f_)
        for nm_, fs_ in _simple.items():
            if len(fs_) == 1 and fs_[0].cls is None and _inl.never_returns_none(fs_[0].node):
                _inl.NONNULL_REPO_FUNCTIONS.add(nm_)
        _cls = {}
        for cq_, c_ in self.classes.items():
            _cls.setdefault(cq_.rsplit(".", 1)[-1], []).append(c_)
        for nm_, cs_ in _cls.items():
            # K(..) with K a class of the repository (one class of that name, no function of that name, no __new__): an instance, never None
            if len(cs_) == 1 and nm_ not in _simple and not any(isinstance(x, ast.FunctionDef) and x.name == "__new__" for x in getattr(cs_[0], "node", cs_[0]).body):
                _inl.NONNULL_REPO_FUNCTIONS.add(nm_)
        _inl.NONNULL_ATTRIBUTES.clear()
        _inl.NONNULL_ATTRIBUTES.update(_inl.nonnull_attributes(self))
        self._restore_pulled_up_methods()
        self._inline_new_helpers()
        if not os.environ.get("VERIF_NO_INLINE"):
            from .normalize import apply_synonyms
            self.synonym_rewrites = apply_synonyms(self)
            from .peval import partial_evaluate
            self.partially_evaluated = partial_evaluate(self)
            if self.partially_evaluated:
                apply_synonyms(self)
                # specialisation can expose further helper calls in statement position (star-args expanded, closures
                # resolved): one more round of splicing and specialisation
                if self.new_functions:
                    before = {k: list(v) for k, v in self.inlined.items()}
                    self._inline_new_helpers(merge=True)
                    if self.inlined != before:
                        more = partial_evaluate(self)
                        for k, v in more.items():
                            self.partially_evaluated.setdefault(k, []).extend(v)
                        apply_synonyms(self)
            from .normalize import tuple_view_of_record_results
            self.record_results = tuple_view_of_record_results(self)
            from .normalize import renumber
            for q in set(self.inlined) | set(self.partially_evaluated):
                if q in self.funcs:
                    renumber(self.funcs[q].node)

    def _restore_pulled_up_methods(self):
        """a method of the reviewed tree (tables/baseline_functions.json) that its class no longer defines but now inherits from a base class
        of the same module - pulled up, typically as a template method calling `self._hook(..)` - is analysed as what the class runs: a
        copy of the inherited method in the class's own context, where `self._hook` resolves to the class's override.  Nothing is added
        on the reviewed tree."""
        import copy
        import json
        table = os.path.join(os.path.dirname(os.path.dirname(os.path.abspath(__file__))), "tables", "baseline_functions.json")
        self.pulled_up = {}
        if os.environ.get("VERIF_NO_INLINE") or not os.path.exists(table):
            return
        for q in json.load(open(table))["functions"]:
            if q in self.funcs or q.count(".") < 2:
                continue
            cq, meth = q.rsplit(".", 1)
            if cq not in self.classes:
                continue
            m = self.lookup_method(cq, meth)
            if not m or m not in self.funcs:
                continue
            g = self.funcs[m]
            mod, cls = cq.rsplit(".", 1)
            if g.is_abstract:
                continue
            if g.mod != mod:
                # inherited from another module: only when every global the method reads means the same thing in both modules
                import builtins
                a = g.node.args
                local = {p.arg for p in a.posonlyargs + a.args + a.kwonlyargs} | {x.id for x in ast.walk(g.node) if isinstance(x, ast.Name) and isinstance(x.ctx, (ast.Store, ast.Del))}
                if a.vararg:
                    local.add(a.vararg.arg)
                if a.kwarg:
                    local.add(a.kwarg.arg)
                free = {x.id for x in ast.walk(g.node) if isinstance(x, ast.Name) and isinstance(x.ctx, ast.Load)} - local
                if any(not hasattr(builtins, nm) and (self.chase(g.mod, nm) is None or self.chase(g.mod, nm) != self.chase(mod, nm)) for nm in free):
                    continue
            self.funcs[q] = Func(mod, cls, copy.deepcopy(g.node), g.path)
            self.pulled_up[q] = m

    def _inline_new_helpers(self, merge=False):
        """functions that are not in the reviewed baseline table (helpers introduced by a later change) are analysed at
        their call sites: their bodies are spliced into the callers (see engine/inliner.py)"""
        import json
        table = os.path.join(os.path.dirname(os.path.dirname(os.path.abspath(__file__))), "tables", "baseline_functions.json")
        if os.environ.get("VERIF_NO_INLINE") or not os.path.exists(table):
            return
        base = set(json.load(open(table))["functions"])
        new = {q for q in self.funcs if q not in base}
        if not new:
            return
        from .astutil import resolve_helper, bind_args
        from .inliner import inline_new_helpers
        self.new_functions = sorted(new)
        rep = inline_new_helpers(self, new, resolve_helper, bind_args)
        if merge:
            for k, v in rep.items():
                self.inlined.setdefault(k, []).extend(v)
        else:
            self.inlined = rep
        # a new helper is *absorbed* when it was spliced somewhere and no call to it remains anywhere in the analysed program:
        # its statements are then judged where they run (in the callers), not a second time out of context
        spliced = {h for hs in self.inlined.values() for h in hs}
        remaining = set()
        for f in self.funcs.values():
            for n in ast.walk(f.node):
                if isinstance(n, ast.Call):
                    h, _ = resolve_helper(self, f, n)
                    if h is not None and h.qname in new and h.node is not f.node:
                        remaining.add(h.qname)
        for m, tree in self.trees.items() if hasattr(self, "trees") else []:
            pass
        self.absorbed = sorted(spliced - remaining)

    def _top(self, m, n):
        if isinstance(n, ast.ImportFrom) and n.module:
            for a in n.names:
                self.imports[m][a.asname or a.name] = f"{n.module}.{a.name}"
        elif isinstance(n, ast.Import):
            for a in n.names:
                self.imports[m][a.asname or a.name.split(".")[0]] = a.name if a.asname else a.name.split(".")[0]
        elif isinstance(n, (ast.FunctionDef, ast.AsyncFunctionDef)):
            f = Func(m, None, n, self.paths[m])
            self.funcs[f.qname] = f
        elif isinstance(n, ast.ClassDef):
            self.classes[f"{m}.{n.name}"] = n
            for b in n.body:
                if isinstance(b, (ast.FunctionDef, ast.AsyncFunctionDef)):
                    f = Func(m, n.name, b, self.paths[m])
                    self.funcs[f.qname] = f
        elif isinstance(n, ast.Assign) and len(n.targets) == 1 and isinstance(n.targets[0], ast.Name):
            self.consts[m][n.targets[0].id] = n.value
        elif isinstance(n, ast.AnnAssign) and isinstance(n.target, ast.Name) and n.value is not None:
            self.consts[m][n.target.id] = n.value          # NAME: T = value
        elif isinstance(n, (ast.If, ast.Try)):
            for b in n.body:
                self._top(m, b)

    def _properties_from_factories(self):
        """class body `name = make_property("const")` with make_property a module-level function of the shape
               def make_property(p): def fget(self): BODY(p);  [fget.__name__ = ..];  return property(fget)
        is read as `@property def name(self): BODY("const")` (getattr with a constant name written as an attribute)"""
        import copy
        from .normalize import _Getattr, _Sub
        self.synthesised_properties = []
        for cq, cnode in list(self.classes.items()):
            m = cq.rsplit(".", 1)[0]
            for b in list(cnode.body):
                if not (isinstance(b, ast.Assign) and len(b.targets) == 1 and isinstance(b.targets[0], ast.Name) and isinstance(b.value, ast.Call)
                        and isinstance(b.value.func, ast.Name) and not b.value.keywords and b.value.args and all(isinstance(a, ast.Constant) for a in b.value.args)):
                    continue
                fac = self.funcs.get(f"{m}.{b.value.func.id}")
                if fac is None or fac.cls is not None:
                    continue
                body = [st for st in fac.node.body if not (isinstance(st, ast.Expr) and isinstance(st.value, ast.Constant))]
                inner = [st for st in body if isinstance(st, ast.FunctionDef)]
                if len(inner) != 1 or not body or not isinstance(body[-1], ast.Return):
                    continue
                g = inner[0]
                rv = body[-1].value
                if not (isinstance(rv, ast.Call) and isinstance(rv.func, ast.Name) and rv.func.id == "property" and len(rv.args) == 1 and not rv.keywords
                        and isinstance(rv.args[0], ast.Name) and rv.args[0].id == g.name):
                    continue
                others = [st for st in body[:-1] if st is not g]
                if not all(isinstance(st, ast.Assign) and len(st.targets) == 1 and isinstance(st.targets[0], ast.Attribute) and isinstance(st.targets[0].value, ast.Name)
                           and st.targets[0].value.id == g.name and st.targets[0].attr in ("__name__", "__doc__", "__qualname__") for st in others):
                    continue
                fa = fac.node.args
                ps = [p_.arg for p_ in fa.posonlyargs + fa.args]
                if fa.vararg or fa.kwarg or fa.kwonlyargs or len(ps) != len(b.value.args):
                    continue
                if any(isinstance(x, ast.Name) and isinstance(x.ctx, ast.Store) and x.id in ps for x in ast.walk(g)):
                    continue
                new = copy.deepcopy(g)
                new.name = b.targets[0].id
                new.decorator_list = [ast.Name(id="property", ctx=ast.Load())]
                sub = dict(zip(ps, b.value.args))
                new.body = [_Getattr().visit(_Sub(sub, {}).visit(st)) for st in new.body]
                # the getter's receiver is spelled `self` like every hand-written property (its name is the author's choice)
                recv = (new.args.posonlyargs + new.args.args)
                if len(recv) == 1 and recv[0].arg != "self" and not any(isinstance(x, ast.Name) and x.id == "self" for x in ast.walk(new)):
                    old_ = recv[0].arg
                    recv[0].arg = "self"
                    recv[0].annotation = None
                    for x in ast.walk(new):
                        if isinstance(x, ast.Name) and x.id == old_:
                            x.id = "self"
                ast.copy_location(new, b)
                ast.fix_missing_locations(new)
                for x in ast.walk(new):
                    if hasattr(x, "lineno"):
                        x.lineno = b.lineno
                        x.end_lineno = getattr(b, "end_lineno", b.lineno)
                f = Func(m, cnode.name, new, self.paths[m])
                if f.qname not in self.funcs:
                    self.funcs[f.qname] = f
                    cnode.body.append(new)
                    self.synthesised_properties.append(f.qname)

    # ---------------------------------------------------------------- lookup
    def digest(self):
        h = hashlib.sha256()
        for m in sorted(self.sources):
            h.update(m.encode()); h.update(self.sources[m].encode())
        return h.hexdigest()[:16]

    def fn(self, qname) -> Func:
        """anchor lookup: a vanished anchor is an analysis error"""
        if not qname.startswith(("batchie.", ORCH_MOD)):
            qname = "batchie." + qname
        f = self.funcs.get(qname)
        if f is None:
            raise AnalysisError(f"anchor function vanished: {qname}")
        return f

    def has_fn(self, qname):
        if not qname.startswith(("batchie.", ORCH_MOD)):
            qname = "batchie." + qname
        return qname in self.funcs

    def cls(self, qname):
        if not qname.startswith(("batchie.", ORCH_MOD)):
            qname = "batchie." + qname
        c = self.classes.get(qname)
        if c is None:
            raise AnalysisError(f"anchor class vanished: {qname}")
        return c

    def methods(self, classq):
        if not classq.startswith("batchie."):
            classq = "batchie." + classq
        self.cls(classq)
        return {f.name: f for f in self.funcs.values() if f.class_q == classq}

    def resolve_name(self, mod, name):
        if f"{mod}.{name}" in self.classes or f"{mod}.{name}" in self.funcs:
            return f"{mod}.{name}"
        return self.imports[mod].get(name)

    def chase(self, mod, name):
        """resolve a module-local name through re-exports to a repo class/func
        qname, or an external dotted name; None if unknown"""
        seen = set()
        cur = self.resolve_name(mod, name)
        while cur and cur not in self.classes and cur not in self.funcs and cur not in seen:
            seen.add(cur)
            if "." in cur:
                m, n = cur.rsplit(".", 1)
                if m in self.modules:
                    nxt = self.resolve_name(m, n)
                    if nxt is None:
                        break
                    cur = nxt
                    continue
            break
        return cur

    def const_value(self, mod, name):
        """module-level constant through imports (e.g. CONTROL_SENTINEL_VALUE)"""
        seen = set()
        while (mod, name) not in seen:
            seen.add((mod, name))
            if name in self.consts.get(mod, {}):
                return self.consts[mod][name]
            t = self.imports[mod].get(name)
            if t and "." in t:
                mod, name = t.rsplit(".", 1)
                continue
            break
        return None

    def bases(self, cq):
        mod = cq.rsplit(".", 1)[0]
        out = []
        for b in self.classes[cq].bases:
            if isinstance(b, ast.Name):
                r = self.chase(mod, b.id)
                if r in self.classes:
                    out.append(r)
        return out

    def mro(self, cq):
        if cq in self._mro:
            return self._mro[cq]
        out = [cq]
        for b in self.bases(cq):
            for x in self.mro(b):
                if x not in out:
                    out.append(x)
        self._mro[cq] = out
        return out

    def subclasses(self, cq):
        return [c for c in self.classes if cq in self.mro(c)]

    def lookup_method(self, cq, name):
        for c in self.mro(cq):
            q = f"{c}.{name}"
            if q in self.funcs:
                return q
        return None

    def methods_named(self, name):
        return [q for q, f in self.funcs.items() if f.cls and f.name == name]

    def overrides(self, base_q, name):
        """all definitions of method ``name`` in subclasses of base (incl. base)"""
        out = []
        for c in self.subclasses(base_q):
            q = f"{c}.{name}"
            if q in self.funcs:
                out.append(q)
        return out


_REPO = None


def get_repo():
    global _REPO
    if _REPO is None or _REPO.root != repo_root():
        _REPO = Repo()
    return _REPO
