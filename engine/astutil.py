"""Small AST helpers shared by the rules."""
import ast
import copy

from .repo import AnalysisError

FUNC_TYPES = (ast.FunctionDef, ast.AsyncFunctionDef, ast.Lambda)


def U(n):
    return ast.unparse(n) if n is not None else None


def D(n):
    return ast.dump(n)


def same(a, b):
    return a is not None and b is not None and ast.dump(a) == ast.dump(b)


def walk_own(root, skip_nested=True):
    """ast.walk that does not descend into nested function/class definitions"""
    todo = [root]
    while todo:
        n = todo.pop()
        yield n
        for c in ast.iter_child_nodes(n):
            if skip_nested and isinstance(c, (ast.FunctionDef, ast.AsyncFunctionDef, ast.ClassDef)) and c is not root:
                continue
            todo.append(c)


def call_name(c):
    """dotted name of a call's callee, or None"""
    if not isinstance(c, ast.Call):
        return None
    try:
        return ast.unparse(c.func)
    except Exception:
        return None


def attr_tail(c):
    """last attribute / name of the callee"""
    f = c.func if isinstance(c, ast.Call) else c
    if isinstance(f, ast.Attribute):
        return f.attr
    if isinstance(f, ast.Name):
        return f.id
    return None


def calls(root, pred=None, tail=None, name=None):
    out = []
    for n in walk_own(root):
        if isinstance(n, ast.Call):
            if tail is not None and attr_tail(n) != tail:
                continue
            if name is not None and call_name(n) != name:
                continue
            if pred is not None and not pred(n):
                continue
            out.append(n)
    out.sort(key=lambda n: (n.lineno, n.col_offset))
    return out


def kwargs(c):
    return {k.arg: k.value for k in c.keywords if k.arg is not None}


def arg(c, pos, name, default=None):
    """argument passed positionally at pos or by keyword name"""
    kw = kwargs(c)
    if name in kw:
        return kw[name]
    if pos is not None and len(c.args) > pos and not any(isinstance(a, ast.Starred) for a in c.args[:pos + 1]):
        return c.args[pos]
    return default


def assigns(root, name):
    """simple assignments ``name = expr`` (own scope)"""
    out = []
    for n in walk_own(root):
        if isinstance(n, ast.Assign):
            for t in n.targets:
                if isinstance(t, ast.Name) and t.id == name:
                    out.append(n)
        elif isinstance(n, ast.AnnAssign) and isinstance(n.target, ast.Name) and n.target.id == name and n.value is not None:
            out.append(n)
    out.sort(key=lambda n: (n.lineno, n.col_offset))
    return out


def names_in(e):
    return {n.id for n in ast.walk(e) if isinstance(n, ast.Name)}


def _attr_path(e):
    """self.a.b (an attribute chain on a name, at least one attribute)"""
    if not isinstance(e, ast.Attribute):
        return False
    while isinstance(e, ast.Attribute):
        e = e.value
    return isinstance(e, ast.Name)


def single_defs(fn):
    """{name: value expr} for locals bound exactly once by a plain assignment
    (and never augmented / re-bound by a loop, with, walrus or tuple target)"""
    count = {}
    val = {}

    def bump(t, v=None):
        if isinstance(t, ast.Name):
            count[t.id] = count.get(t.id, 0) + 1
            if v is not None:
                val[t.id] = v
            else:
                val.pop(t.id, None)
        elif isinstance(t, (ast.Tuple, ast.List)):
            for i, e in enumerate(t.elts):
                bump(e, None)
        elif isinstance(t, ast.Starred):
            bump(t.value)

    a = fn.args
    for p in a.posonlyargs + a.args + a.kwonlyargs:
        count[p.arg] = 1
    for n in walk_own(fn):
        if isinstance(n, ast.Assign):
            for t in n.targets:
                if isinstance(t, (ast.Tuple, ast.List)) and isinstance(n.value, (ast.Tuple, ast.List)) and len(t.elts) == len(n.value.elts) \
                        and all(isinstance(x, ast.Name) for x in t.elts):
                    for tt, vv in zip(t.elts, n.value.elts):      # a, b = x, y
                        bump(tt, vv)
                    continue
                if isinstance(t, (ast.Tuple, ast.List)) and all(isinstance(x, ast.Name) for x in t.elts) and _attr_path(n.value) and len(n.targets) == 1:
                    for i, tt in enumerate(t.elts):                # a, b = self.pair   ->   a = self.pair[0], b = self.pair[1]
                        bump(tt, ast.Subscript(value=n.value, slice=ast.Constant(value=i), ctx=ast.Load()))
                    continue
                bump(t, n.value if isinstance(t, ast.Name) else None)
        elif isinstance(n, ast.AnnAssign) and n.value is not None:
            bump(n.target, n.value)
        elif isinstance(n, ast.AugAssign):
            bump(n.target)
            if isinstance(n.target, ast.Name):
                count[n.target.id] = count.get(n.target.id, 0) + 1
        elif isinstance(n, (ast.For, ast.AsyncFor)):
            bump(n.target)
        elif isinstance(n, ast.comprehension):
            pass
        elif isinstance(n, (ast.With, ast.AsyncWith)):
            for i in n.items:
                if i.optional_vars is not None:
                    bump(i.optional_vars)
        elif isinstance(n, ast.NamedExpr):
            bump(n.target)
    # a name whose object is mutated in place after its definition does not denote its defining expression
    mutated = set()
    for n in walk_own(fn):
        if isinstance(n, (ast.Assign, ast.AugAssign)):
            for t in (n.targets if isinstance(n, ast.Assign) else [n.target]):
                for tt in (t.elts if isinstance(t, (ast.Tuple, ast.List)) else [t]):
                    if isinstance(tt, ast.Subscript) and isinstance(tt.value, ast.Name):
                        mutated.add(tt.value.id)
        elif isinstance(n, ast.Call) and isinstance(n.func, ast.Attribute) and isinstance(n.func.value, ast.Name) \
                and n.func.attr in ("append", "extend", "update", "add", "insert", "pop", "remove", "clear", "fill", "sort", "setdefault"):
            mutated.add(n.func.value.id)
    return {k: v for k, v in val.items() if count.get(k) == 1 and k not in mutated}


def inline(e, env, depth=12):
    """substitute single-definition locals (recursively) into a copy of e"""
    class Sub(ast.NodeTransformer):
        def __init__(self, d):
            self.d = d

        def visit_Name(self, n):
            if isinstance(n.ctx, ast.Load) and n.id in env and self.d > 0:
                return Sub(self.d - 1).visit(copy.deepcopy(env[n.id]))
            return n

    return Sub(depth).visit(copy.deepcopy(e))


def strip_copy(e):
    """strip value-preserving wrappers: .copy(), np.copy(x), np.array(x) (no dtype), np.asarray(x)"""
    while True:
        if isinstance(e, ast.Call) and isinstance(e.func, ast.Attribute) and e.func.attr == "copy" and not e.args and not e.keywords:
            e = e.func.value
            continue
        if isinstance(e, ast.Call) and call_name(e) in ("np.copy", "np.asarray", "np.array", "numpy.copy") and len(e.args) == 1 and not e.keywords:
            e = e.args[0]
            continue
        return e


def returns(fn):
    return sorted([n for n in walk_own(fn) if isinstance(n, ast.Return)], key=lambda n: n.lineno)


def raises_in(stmts):
    for st in stmts:
        for n in ast.walk(st):
            if isinstance(n, ast.Raise):
                return True
    return False


def body_ends_in_raise(stmts):
    return bool(stmts) and isinstance(stmts[-1], ast.Raise)


def const(e):
    """python constant value of an expression or raise"""
    if isinstance(e, ast.Constant):
        return e.value
    if isinstance(e, ast.UnaryOp) and isinstance(e.op, ast.USub) and isinstance(e.operand, ast.Constant):
        return -e.operand.value
    raise AnalysisError(f"not a constant: {U(e)}")


def is_const(e, v=None):
    try:
        c = const(e)
    except AnalysisError:
        return False
    return v is None or (c == v and type(c) is type(v)) or (isinstance(v, (int, float)) and not isinstance(v, bool) and isinstance(c, (int, float)) and not isinstance(c, bool) and c == v)


def find_class_method(cls_node, name):
    for b in cls_node.body:
        if isinstance(b, (ast.FunctionDef, ast.AsyncFunctionDef)) and b.name == name:
            return b
    return None


def enclosing_map(root):
    """child -> parent map"""
    par = {}
    for n in ast.walk(root):
        for c in ast.iter_child_nodes(n):
            par[c] = n
    return par


def stmt_text(n):
    """normalised text of a construct, used as position-free key"""
    return " ".join(ast.unparse(n).split())[:160]


# --------------------------------------------------------------------------- helper inlining
def simple_body(fnode):
    """(params, defaults, return expr with its local single definitions inlined) for a function whose
    body is straight-line: optional docstring, plain single assignments, one final return.  Else None."""
    if fnode.decorator_list:
        return None          # memoised / wrapped helpers are not equal to their body
    body = list(fnode.body)
    if body and isinstance(body[0], ast.Expr) and isinstance(body[0].value, ast.Constant) and isinstance(body[0].value.value, str):
        body = body[1:]
    if not body or not isinstance(body[-1], ast.Return) or body[-1].value is None:
        return None
    env = {}
    for st in body[:-1]:
        if isinstance(st, ast.Assign) and len(st.targets) == 1 and isinstance(st.targets[0], ast.Name) and st.targets[0].id not in env:
            env[st.targets[0].id] = st.value
        else:
            return None
    a = fnode.args
    if a.vararg or a.kwarg:
        return None
    params = [p.arg for p in a.posonlyargs + a.args]
    defaults = dict(zip(params[len(params) - len(a.defaults):], a.defaults))
    for p, d in zip(a.kwonlyargs, a.kw_defaults):
        params.append(p.arg)
        if d is not None:
            defaults[p.arg] = d
    # names assigned in the body must not shadow parameters that are also read
    ret = inline(body[-1].value, env)
    return params, defaults, ret


def inline_calls(e, R, mod, depth=3, class_q=None, scope=None, keep=()):
    """replace calls to straight-line repository helpers (module-level functions, and `self.m()` methods /
    `self.p` properties of class_q) by their return expression"""
    if depth <= 0:
        return e

    class Inl(ast.NodeTransformer):
        def visit_Attribute(self, n):
            self.generic_visit(n)
            if class_q and isinstance(n.value, ast.Name) and n.value.id == "self" and isinstance(n.ctx, ast.Load):
                q = R.lookup_method(class_q, n.attr)
                f = R.funcs.get(q) if q else None
                if f is not None and f.is_property and f.name.startswith("_"):
                    sb = simple_body(ast.FunctionDef(name=f.node.name, args=f.node.args, body=f.node.body, decorator_list=[], returns=None, type_params=[]))
                    if sb is not None:
                        return inline_calls(sb[2], R, f.mod, depth - 1, class_q, None, keep)
            return n

        def visit_Call(self, n):
            self.generic_visit(n)
            if class_q and isinstance(n.func, ast.Attribute) and isinstance(n.func.value, ast.Name) and n.func.value.id == "self":
                q = R.lookup_method(class_q, n.func.attr)
                f = R.funcs.get(q) if q else None
                if f is None or f.is_property:
                    return n
                sb = simple_body(f.node)
                if sb is None:
                    return n
                params, defaults, ret = sb
                params = params[1:]
                if any(isinstance(a, ast.Starred) for a in n.args) or any(k.arg is None for k in n.keywords):
                    return n
                binding = dict(zip(params, n.args))
                for k in n.keywords:
                    binding[k.arg] = k.value
                for p in params:
                    if p not in binding:
                        if p in defaults:
                            binding[p] = defaults[p]
                        else:
                            return n
                return inline_calls(inline(ret, binding, depth=1), R, f.mod, depth - 1, class_q, scope, keep)
            if not isinstance(n.func, ast.Name) or n.func.id in keep:
                return n
            q = R.chase(mod, n.func.id)
            f = R.funcs.get(q) if q else None
            if f is None and scope is not None:
                for x in ast.walk(scope):        # a closure defined inside the analysed function
                    if isinstance(x, ast.FunctionDef) and x.name == n.func.id and x is not scope:
                        from .repo import Func
                        f = Func(mod, None, x, "")
            if f is None or f.cls is not None:
                return n
            sb = simple_body(f.node)
            if sb is None:
                return n
            params, defaults, ret = sb
            if any(isinstance(a, ast.Starred) for a in n.args) or any(k.arg is None for k in n.keywords):
                return n
            binding = {}
            for p, a in zip(params, n.args):
                binding[p] = a
            for k in n.keywords:
                binding[k.arg] = k.value
            for p in params:
                if p not in binding:
                    if p in defaults:
                        binding[p] = defaults[p]
                    else:
                        return n
            out = inline(ret, binding, depth=1)
            return inline_calls(out, R, f.mod, depth - 1, class_q, scope, keep)

    return Inl().visit(copy.deepcopy(e))


# --------------------------------------------------------------------------- guards, also through helpers
def _attr_chain(e):
    """a.b.c : plain attribute chain rooted at a name"""
    while isinstance(e, ast.Attribute):
        e = e.value
    return isinstance(e, ast.Name)


import builtins as _builtins
_BUILTIN_NAMES = frozenset(dir(_builtins))


def resolve_helper(R, f, call):
    """repository function called by `call` inside Func f: module function by name, nested def, self./cls./Class. method"""
    from .repo import Func
    fn = call.func
    if isinstance(fn, ast.Name):
        q = R.chase(f.mod, fn.id)
        if q in R.funcs and R.funcs[q].cls is None:
            return R.funcs[q], 0
        if fn.id in _BUILTIN_NAMES:
            return None, 0
        for n in ast.walk(f.node):
            if isinstance(n, ast.FunctionDef) and n.name == fn.id and n is not f.node:
                return Func(f.mod, None, n, f.path), 0
        return None, 0
    if isinstance(fn, ast.Attribute) and isinstance(fn.value, ast.Name):
        base = fn.value.id
        cq = None
        if base in ("self", "cls") and f.cls:
            cq = f"{f.mod}.{f.cls}"
        else:
            c = R.chase(f.mod, base)
            if c in R.classes:
                cq = c
        if cq:
            q = R.lookup_method(cq, fn.attr)
            if q in R.funcs:
                h = R.funcs[q]
                skip = 0 if h.is_static else 1
                return h, skip
        # (no class of the repository defines a method of this name: nothing below can resolve it)
        mnames = getattr(R, "_method_names", None)
        if mnames is None or getattr(R, "_method_names_n", -1) != len(R.funcs):
            mnames = {g.name for g in R.funcs.values() if g.cls}
            R._method_names, R._method_names_n = mnames, len(R.funcs)
        if fn.attr not in mnames:
            return None, 0
        # t.m(...) with t a local bound once to a construction K(..) of a repository class: the method of K
        if cq is None and base not in ("self", "cls"):
            binds = [n for n in ast.walk(f.node) if isinstance(n, ast.Name) and n.id == base and isinstance(n.ctx, (ast.Store, ast.Del))]
            if len(binds) == 1 and base not in f.params:
                for n in ast.walk(f.node):
                    if isinstance(n, ast.Assign) and len(n.targets) == 1 and n.targets[0] is binds[0] and isinstance(n.value, ast.Call) and isinstance(n.value.func, ast.Name):
                        kq = R.chase(f.mod, n.value.func.id)
                        if kq in R.classes:
                            q = R.lookup_method(kq, fn.attr)
                            if q in R.funcs and not R.funcs[q].is_static and not R.funcs[q].is_classmethod and not R.funcs[q].is_property:
                                return R.funcs[q], 1
        # other.m(...) inside a method of class K where m is a (private) method that only K's hierarchy defines: `other` is a K
        if cq is None and f.cls and fn.attr.startswith("_") and not fn.attr.startswith("__"):
            kq = f"{f.mod}.{f.cls}"
            q = R.lookup_method(kq, fn.attr)
            if q in R.funcs:
                owners = {g.class_q for g in R.funcs.values() if g.name == fn.attr and g.cls}
                fam = set(R.mro(kq)) | set(R.subclasses(kq))
                if owners and owners <= fam:
                    h = R.funcs[q]
                    return h, (0 if h.is_static else 1)
    # <path>.m(...) with m a NEW method (outside the baseline table) that exactly one class family of the repository defines:
    # whatever object the path denotes, a call that succeeds runs that method
    if isinstance(fn, ast.Attribute) and ((isinstance(fn.value, ast.Attribute) and _attr_chain(fn.value))
                                          or (isinstance(fn.value, ast.Name) and fn.value.id not in ("self", "cls") and fn.value.id not in R.imports.get(f.mod, {}))):
        new = set(getattr(R, "new_functions", []) or [])
        owners = [g for g in R.funcs.values() if g.name == fn.attr and g.cls]
        if owners and all(g.qname in new for g in owners):
            fams = {frozenset(set(R.mro(g.class_q)) | set(R.subclasses(g.class_q))) for g in owners}
            if len(owners) == 1 or all(g.class_q in fam for fam in fams for g in owners):
                h = owners[0] if len(owners) == 1 else None
                if h is not None and not h.is_static and not h.is_classmethod:
                    return h, 1
    return None, 0


def bind_args(h, skip, call):
    """{param: arg expr} for a call of helper h (skip = number of implicit leading params)"""
    a = h.node.args
    params = [p.arg for p in a.posonlyargs + a.args][skip:]
    defaults = dict(zip([p.arg for p in a.posonlyargs + a.args][len(a.posonlyargs + a.args) - len(a.defaults):], a.defaults))
    for p, d in zip(a.kwonlyargs, a.kw_defaults):
        params.append(p.arg)
        if d is not None:
            defaults[p.arg] = d
    if any(isinstance(x, ast.Starred) for x in call.args) or any(k.arg is None for k in call.keywords):
        return None
    npos = len([p for p in a.posonlyargs + a.args][skip:])
    rest_pos = None
    if len(call.args) > npos:
        if a.vararg is None:
            return None
        rest_pos = list(call.args[npos:])          # *names collects the remaining positional arguments: a tuple display
    b = dict(zip(params[:npos], call.args[:npos]))
    if a.vararg is not None:
        b[a.vararg.arg] = ast.Tuple(elts=rest_pos or [], ctx=ast.Load())
    extra = []
    for k in call.keywords:
        if k.arg in params and k.arg not in b:
            b[k.arg] = k.value
        elif a.kwarg is not None and k.arg not in params:
            extra.append(k)
        else:
            return None
    if a.kwarg is not None:
        # **name collects the remaining keywords: bound to a display with constant keys (call order)
        b[a.kwarg.arg] = ast.Dict(keys=[ast.Constant(value=k.arg) for k in extra], values=[k.value for k in extra])
    for p in params:
        if p not in b:
            if p in defaults:
                b[p] = defaults[p]
            else:
                return None
    return b


def path_conditions(par, node, stop=None):
    """[(test expr, polarity)] of the if-statements enclosing `node` (elif chains contribute their negated predecessors
    because an elif is nested in the else-arm of its predecessor)"""
    out = []
    n = node
    while n in par and par[n] is not stop:
        p = par[n]
        if isinstance(p, ast.If):
            if any(n is b for b in p.body):
                out.append((p.test, True))
            elif any(n is b for b in p.orelse):
                out.append((p.test, False))
        n = p
    return out


def in_loop(par, node, stop=None):
    n = node
    while n in par and par[n] is not stop:
        n = par[n]
        if isinstance(n, (ast.For, ast.While, ast.AsyncFor)):
            return True
    return False


def raise_guards(R, f, N, through_helpers=True):
    """refusals visible in function f: [(frozenset of normalised conditions, anchor statement in f, description)].
    Direct `raise` statements contribute the conjunction of their enclosing if-tests; a statement-level call of a
    repository helper whose body raises (outside loops) contributes the helper's conditions with the call's arguments
    substituted for its parameters, anchored at the call statement."""
    out = []
    par = enclosing_map(f.node)
    env = single_defs(f.node)

    def conj(conds, binding=None, henv=None):
        items = set()
        for t, pol in conds:
            e = t
            if henv:
                e = inline(e, henv)
            if binding:
                e = inline(e, binding, depth=1)
            b = N.b(inline(e, env), neg=not pol)
            if b[0] == "and":
                items |= set(b[1])
            else:
                items.add(b)
        return frozenset(items)

    for n in walk_own(f.node):
        if isinstance(n, ast.Raise):
            conds = path_conditions(par, n)
            if not conds:
                continue
            # anchor: the outermost enclosing If
            a = n
            top = None
            while a in par:
                a = par[a]
                if isinstance(a, ast.If):
                    top = a
            out.append((conj(conds), top, "direct", in_loop(par, n)))
    if through_helpers:
        for st in walk_own(f.node):
            call = None
            if isinstance(st, ast.Expr) and isinstance(st.value, ast.Call):
                call = st.value
            elif isinstance(st, ast.Assign) and isinstance(st.value, ast.Call):
                call = st.value
            if call is None:
                continue
            h, skip = resolve_helper(R, f, call)
            if h is None or h.node is f.node:
                continue
            binding = bind_args(h, skip, call)
            if binding is None:
                continue
            hpar = enclosing_map(h.node)
            henv = single_defs(h.node)
            for n in walk_own(h.node):
                if isinstance(n, ast.Raise) and not in_loop(hpar, n):
                    conds = path_conditions(hpar, n)
                    if conds:
                        out.append((conj(conds, binding, henv), st, f"via {h.site()}", in_loop(par, st)))
    return out


# --------------------------------------------------------------------------- per-path return expressions
def path_returns(fnode, max_paths=64):
    """[(conditions [(test, polarity)], return expression with the path's local single assignments inlined)] for a
    function whose body is assignments / if-elif-else / returns / raises (no loops, no try).  None if outside that fragment."""
    out = []

    def run(stmts, conds, env):
        for i, st in enumerate(stmts):
            if isinstance(st, ast.Expr) and isinstance(st.value, ast.Constant):
                continue
            if isinstance(st, ast.Assign) and len(st.targets) == 1 and isinstance(st.targets[0], ast.Name) and isinstance(st.value, ast.IfExp):
                # t = a if c else b   ==   if c: t = a  else: t = b
                mk = lambda v: ast.Assign(targets=st.targets, value=v, lineno=st.lineno, col_offset=0)
                split = ast.If(test=st.value.test, body=[mk(st.value.body)], orelse=[mk(st.value.orelse)], lineno=st.lineno, col_offset=0)
                return run([split] + stmts[i + 1:], conds, env)
            if isinstance(st, ast.Assign) and len(st.targets) == 1 and isinstance(st.targets[0], ast.Name):
                env = dict(env)
                env[st.targets[0].id] = inline(st.value, env, depth=1)
                continue
            if isinstance(st, ast.Assign) and len(st.targets) == 1 and isinstance(st.targets[0], ast.Tuple) and isinstance(st.value, ast.Tuple) \
                    and len(st.targets[0].elts) == len(st.value.elts) and all(isinstance(t, ast.Name) for t in st.targets[0].elts) \
                    and not any(isinstance(v, ast.Starred) for v in st.value.elts):
                # a, b = x, y: all values are evaluated (with the environment before the statement) before any target is bound
                vals = [inline(v, env, depth=1) for v in st.value.elts]
                env = dict(env)
                for t, v in zip(st.targets[0].elts, vals):
                    env[t.id] = v
                continue
            if isinstance(st, ast.AugAssign) and isinstance(st.target, ast.Name):
                env = dict(env)
                cur = env.get(st.target.id, ast.Name(id=st.target.id, ctx=ast.Load()))
                env[st.target.id] = ast.BinOp(left=cur, op=st.op, right=inline(st.value, env, depth=1))
                continue
            if isinstance(st, ast.Return):
                out.append((list(conds), inline(st.value, env, depth=1) if st.value is not None else None))
                return True
            if isinstance(st, ast.Raise):
                return True
            if isinstance(st, ast.If):
                t = inline(st.test, env, depth=1)
                a = run(st.body + stmts[i + 1:], conds + [(t, True)], env)
                b = run(st.orelse + stmts[i + 1:], conds + [(t, False)], env)
                if a is None or b is None:
                    return None
                return True
            if isinstance(st, (ast.Expr, ast.Pass, ast.Assert)):
                continue
            return None
        out.append((list(conds), None))
        return True

    body = fnode.body
    ok = run(body, [], {})
    if ok is None or len(out) > max_paths:
        return None
    return out


# --------------------------------------------------------------------------- statement conditions with early exits
def stmt_conditions(stmts, base=None):
    """{id(stmt): [(test, polarity)]} for every statement reachable through if-arms (and with/try bodies) of the list:
    the enclosing if-tests plus the negation of every earlier sibling `if c: ...; continue|return|raise|break`"""
    out = {}

    def ends_exit(body):
        if not body:
            return False
        last = body[-1]
        if isinstance(last, (ast.Continue, ast.Return, ast.Raise, ast.Break)):
            return True
        return isinstance(last, ast.If) and ends_exit(last.body) and ends_exit(last.orelse)

    def go(lst, conds):
        conds = list(conds)
        for st in lst:
            out[id(st)] = list(conds)
            if isinstance(st, ast.If):
                go(st.body, conds + [(st.test, True)])
                go(st.orelse, conds + [(st.test, False)])
                if ends_exit(st.body) and not ends_exit(st.orelse):
                    conds.append((st.test, False))
                elif ends_exit(st.orelse) and not ends_exit(st.body):
                    conds.append((st.test, True))
            elif isinstance(st, (ast.With, ast.AsyncWith)):
                go(st.body, conds)
            elif isinstance(st, ast.Try):
                go(st.body, conds)
                go(st.finalbody, conds)
    go(stmts, base or [])
    return out


# --------------------------------------------------------------------------- path expressions
def norm_path(e, env=None):
    """text of a filesystem path expression with locals read through, nested os.path.join flattened and placeholder-free
    f-strings reduced to plain strings"""
    import copy as _copy
    e = inline(e, env) if env else _copy.deepcopy(e)

    class T(ast.NodeTransformer):
        def visit_JoinedStr(self, n):
            self.generic_visit(n)
            if all(isinstance(v, ast.Constant) for v in n.values):
                return ast.Constant(value="".join(str(v.value) for v in n.values))
            return n

        def visit_Call(self, n):
            self.generic_visit(n)
            if U(n.func) == "os.path.join" and n.args and isinstance(n.args[0], ast.Call) and U(n.args[0].func) == "os.path.join" and not n.keywords:
                return ast.Call(func=n.func, args=list(n.args[0].args) + list(n.args[1:]), keywords=[])
            return n
    e = T().visit(e)
    return U(e).replace(" ", "")


def canon_eq(e):
    """a copy of the expression in which the two operands of every single `==` / `!=` are in textual order and every `>` / `>=` is written
    as `<` / `<=` with the operands exchanged (call-free operands only): one spelling for the same comparison"""
    import copy as _copy

    def plain(x):
        return not any(isinstance(y, (ast.Call, ast.Await, ast.Yield, ast.YieldFrom, ast.NamedExpr, ast.Lambda)) for y in ast.walk(x))

    class T(ast.NodeTransformer):
        def visit_Compare(self, n):
            self.generic_visit(n)
            if len(n.ops) == 1 and plain(n.left) and plain(n.comparators[0]):
                l, r = n.left, n.comparators[0]
                if isinstance(n.ops[0], (ast.Eq, ast.NotEq)) and ast.unparse(l) > ast.unparse(r):
                    return ast.copy_location(ast.Compare(left=r, ops=n.ops, comparators=[l]), n)
                if isinstance(n.ops[0], ast.Gt):
                    return ast.copy_location(ast.Compare(left=r, ops=[ast.Lt()], comparators=[l]), n)
                if isinstance(n.ops[0], ast.GtE):
                    return ast.copy_location(ast.Compare(left=r, ops=[ast.LtE()], comparators=[l]), n)
            return n
    return ast.fix_missing_locations(T().visit(_copy.deepcopy(e)))


def UC(e):
    """comparison-canonical text of an expression (or of source text): see canon_eq; whitespace removed"""
    if isinstance(e, str):
        e = ast.parse(e, mode="eval").body
    return ast.unparse(canon_eq(e)).replace(" ", "")


def alpha_canon(e):
    """a copy of e in which every variable bound by a comprehension / generator expression is called v__0, v__1, .. in binding order (a
    comprehension's variables are its own: what they are called cannot matter).  The first iterable belongs to the enclosing scope."""
    import copy
    e = copy.deepcopy(e)
    counter = [0]

    class Ren(ast.NodeTransformer):
        def __init__(self, m):
            self.m = m

        def visit_Name(self, n):
            if n.id in self.m:
                return ast.copy_location(ast.Name(id=self.m[n.id], ctx=n.ctx), n)
            return n

    class T(ast.NodeTransformer):
        def _comp(self, n):
            if any(isinstance(y, (ast.Lambda, ast.NamedExpr)) for y in ast.walk(n)):
                return self.generic_visit(n)
            m = {}
            for g in n.generators:
                for x in ast.walk(g.target):
                    if isinstance(x, ast.Name) and x.id not in m and x.id != "_":
                        m[x.id] = f"v__{counter[0]}"
                        counter[0] += 1
            r = Ren(m)
            first_iter = n.generators[0].iter
            for fld in ("elt", "key", "value"):
                if hasattr(n, fld):
                    setattr(n, fld, r.visit(getattr(n, fld)))
            for i, g in enumerate(n.generators):
                g.target = r.visit(g.target)
                g.ifs = [r.visit(c) for c in g.ifs]
                if i > 0:
                    g.iter = r.visit(g.iter)
            n.generators[0].iter = first_iter
            return self.generic_visit(n)          # then the comprehensions inside (their own variables shadow)
        visit_ListComp = visit_SetComp = visit_DictComp = visit_GeneratorExp = _comp
    return T().visit(e)


def UA(e):
    """text of an expression (or of source text) with comprehension variables called by position (see alpha_canon); whitespace removed"""
    if isinstance(e, str):
        e = ast.parse(e, mode="eval").body
    return ast.unparse(alpha_canon(e)).replace(" ", "")


def conditional_defs(stmts):
    """{name: value} for the plain-name assignments of a statement list, where a name bound in both arms of one `if c: x = A  else: x = B`
    (each arm that single assignment, possibly among other assignments to other names) is given the conditional value `A if c else B` - the
    expression form of the same definition, for rules that read definitions through"""
    out = {}
    for st in stmts:
        if isinstance(st, ast.Assign) and len(st.targets) == 1 and isinstance(st.targets[0], ast.Name):
            out[st.targets[0].id] = st.value
        elif isinstance(st, ast.If) and st.orelse:
            a = {x.targets[0].id: x.value for x in st.body if isinstance(x, ast.Assign) and len(x.targets) == 1 and isinstance(x.targets[0], ast.Name)}
            b = {x.targets[0].id: x.value for x in st.orelse if isinstance(x, ast.Assign) and len(x.targets) == 1 and isinstance(x.targets[0], ast.Name)}
            if all(isinstance(x, ast.Assign) for x in st.body + st.orelse):
                for k in set(a) & set(b):
                    out[k] = ast.IfExp(test=st.test, body=a[k], orelse=b[k])
    return out


def with_conditional_values(fnode):
    """a copy of the function in which  `if c: x = A  else: x = B`  (each arm that one plain assignment to the same name) is written
    `x = A if c else B` - the expression form, for rules whose readers work on values (the engine's canonical form is the statement)"""
    import copy
    fnode = copy.deepcopy(fnode)

    class T(ast.NodeTransformer):
        def visit_If(self, n):
            self.generic_visit(n)
            if len(n.body) == 1 and len(n.orelse) == 1:
                a, b = n.body[0], n.orelse[0]
                if isinstance(a, ast.Assign) and isinstance(b, ast.Assign) and len(a.targets) == 1 and len(b.targets) == 1 and isinstance(a.targets[0], ast.Name) \
                        and isinstance(b.targets[0], ast.Name) and a.targets[0].id == b.targets[0].id:
                    return ast.copy_location(ast.Assign(targets=[a.targets[0]], value=ast.IfExp(test=n.test, body=a.value, orelse=b.value), lineno=n.lineno), n)
            return n
    fnode.body = [T().visit(st) for st in fnode.body]
    return ast.fix_missing_locations(fnode)


def argv(c):
    """the arguments of a call in written order, positional ones first then keyword values.  After engine.normalize.keywordise_calls a call
    of a known repository callable carries its former positional arguments as leading keywords in parameter order, so argv(c)[i] is what
    c.args[i] was."""
    return list(c.args) + [k.value for k in c.keywords if k.arg is not None]
