"""E3 - canonical forms.

* polynomial normal form over opaque atoms (rational coefficients),
* relational / boolean normal form,
* helpers for symmetry checks (rename + renormalise).

This is expression rewriting, one expression at a time: no path conditions and
no solver.  An expression outside the fragment raises AnalysisError (exit 2),
it is never reported as a violation.
"""
import ast
import copy
from fractions import Fraction

from .repo import AnalysisError


def _k(x):
    return repr(x)


class Poly:
    __slots__ = ("t",)

    def __init__(self, t=None):
        self.t = {k: v for k, v in (t or {}).items() if v != 0}

    @staticmethod
    def const(c):
        return Poly({(): Fraction(c)})

    @staticmethod
    def atom(a, p=1):
        return Poly({((a, p),): Fraction(1)})

    def __add__(self, o):
        t = dict(self.t)
        for k, v in o.t.items():
            t[k] = t.get(k, 0) + v
        return Poly(t)

    def __neg__(self):
        return Poly({k: -v for k, v in self.t.items()})

    def __sub__(self, o):
        return self + (-o)

    def __mul__(self, o):
        t = {}
        for k1, v1 in self.t.items():
            for k2, v2 in o.t.items():
                d = dict(k1)
                for a, p in k2:
                    d[a] = d.get(a, 0) + p
                k = tuple(sorted(((a, p) for a, p in d.items() if p != 0), key=_k))
                t[k] = t.get(k, 0) + v1 * v2
        return Poly(t)

    def scale(self, c):
        return Poly({k: v * c for k, v in self.t.items()})

    def key(self):
        return tuple(sorted(((k, v) for k, v in self.t.items()), key=_k))

    def __eq__(self, o):
        return isinstance(o, Poly) and self.key() == o.key()

    def __hash__(self):
        return hash(self.key())

    def is_const(self):
        return all(k == () for k in self.t)

    def const_value(self):
        return self.t.get((), Fraction(0)) if self.is_const() else None

    def is_zero(self):
        return not self.t

    def atoms(self):
        out = set()
        for k in self.t:
            for a, p in k:
                out.add(a)
        return out

    def all_atoms(self):
        """atoms including those nested inside atom keys"""
        out = set()

        def rec(x):
            if isinstance(x, tuple):
                if x and isinstance(x[0], str):
                    out.add(x)
                for y in x:
                    rec(y)
        rec(self.key())
        return out

    def mentions(self, pred):
        """does any (nested) atom satisfy pred"""
        return any(pred(a) for a in self.all_atoms())

    def __repr__(self):
        def mono(k):
            return "*".join(f"{fmt_atom(a)}" + (f"^{p}" if p != 1 else "") for a, p in k) or "1"
        return " + ".join(f"{v}*{mono(k)}" if v != 1 or not k else mono(k) for k, v in self.key()) or "0"


def fmt_atom(a):
    if isinstance(a, tuple) and a and a[0] in ("var", "path"):
        return str(a[1])
    return repr(a)


ELEMENTWISE_FUNCS = {
    "np.log": "log", "np.exp": "exp", "np.sqrt": "sqrt", "expit": "expit", "logit": "logit",
    "np.abs": "abs", "np.isnan": "isnan", "np.log1p": "log1p", "np.floor": "floor", "np.ceil": "ceil",
    "math.sqrt": "sqrt", "math.log": "log", "math.exp": "exp", "math.ceil": "ceil", "math.floor": "floor",
    "scipy.special.expit": "expit", "scipy.special.logit": "logit", "float": "float", "int": "int",
}
LINEAR_REDUCTIONS = {"np.sum": "sum", "np.mean": "mean", "np.nansum": "nansum"}
LINEAR_METHODS = {"sum": "sum", "mean": "mean"}
OTHER_REDUCTIONS = {"np.var": "var", "np.std": "std", "np.prod": "prod", "np.product": "prod", "np.max": "max",
                    "np.min": "min", "np.all": "all", "np.any": "any", "logsumexp": "logsumexp",
                    "np.median": "median", "np.count_nonzero": "count_nonzero", "np.argmin": "argmin", "np.argmax": "argmax"}
OTHER_METHODS = {"var": "var", "std": "std", "prod": "prod", "max": "max", "min": "min", "all": "all", "any": "any",
                 "argmin": "argmin", "argmax": "argmax", "item": "item"}


class Norm:
    """Normaliser.  env: {local name -> defining expression} inlined on use.
    atomizer(expr, norm) -> Poly|None lets a rule override the treatment of a
    construct.  scalar(atom) -> bool marks atoms that commute out of matmul."""

    def __init__(self, env=None, atomizer=None, scalar=None, strict=True, consts=None):
        self.consts = consts or {}      # module-level constants: name -> value expression
        self.env = env or {}
        self.atomizer = atomizer
        self.scalar = scalar or (lambda a: False)
        self.strict = strict
        self._stack = []

    # ------------------------------------------------------------------ api
    def n(self, e) -> Poly:
        if self.atomizer is not None:
            a = self.atomizer(e, self)
            if a is not None:
                return a
        m = getattr(self, "n_" + type(e).__name__, None)
        if m is None:
            return self.opaque(e)
        return m(e)

    def key(self, e):
        return self.n(e).key()

    def opaque(self, e):
        if self.strict:
            raise AnalysisError(f"expression outside the normalisable fragment: {ast.unparse(e)[:120]}")
        from .astutil import alpha_canon
        return Poly.atom(("opaque", ast.dump(alpha_canon(e))))

    # ------------------------------------------------------------- leaves
    def n_Constant(self, e):
        v = e.value
        if isinstance(v, bool):
            return Poly.atom(("bool", v))
        if isinstance(v, (int, float)):
            if v != v or v in (float("inf"), float("-inf")):
                return Poly.atom(("const", repr(v)))
            return Poly.const(Fraction(str(v)))
        if v is None:
            return Poly.atom(("none",))
        return Poly.atom(("str", v))

    def n_Name(self, e):
        if e.id in self.consts and e.id not in self.env:
            return self.n(self.consts[e.id])
        if e.id in self.env and e.id not in self._stack:
            self._stack.append(e.id)
            try:
                return self.n(self.env[e.id])
            finally:
                self._stack.pop()
        return Poly.atom(("var", e.id))

    def n_Attribute(self, e):
        if e.attr == "T":
            return self.transpose(self.n(e.value))
        b = self.n(e.value)
        bk = single_atom(b)
        if bk is not None and bk[0] in ("var", "path"):
            return Poly.atom(("path", f"{bk[1]}.{e.attr}"))
        return Poly.atom(("attr", b.key(), e.attr))

    def n_Tuple(self, e):
        return Poly.atom(("tuple",) + tuple(self.key(x) for x in e.elts))

    def n_List(self, e):
        return Poly.atom(("list",) + tuple(self.key(x) for x in e.elts))

    def slice_key(self, s):
        if isinstance(s, ast.Slice):
            lo = s.lower
            if isinstance(lo, ast.Constant) and lo.value == 0:
                lo = None          # a[0:n] == a[:n]
            st = s.step
            if isinstance(st, ast.Constant) and st.value == 1:
                st = None
            return ("slice", self.key(lo) if lo else None, self.key(s.upper) if s.upper else None, self.key(st) if st else None)
        if isinstance(s, ast.Tuple):
            return tuple(self.slice_key(x) for x in s.elts)
        if isinstance(s, ast.Constant) and s.value is Ellipsis:
            return ("ellipsis",)
        if isinstance(s, ast.Constant) and s.value is None:
            return ("newaxis",)
        if isinstance(s, ast.Attribute) and ast.unparse(s) == "np.newaxis":
            return ("newaxis",)
        return self.key(s)

    @staticmethod
    def rows_mask_expr(idx):
        """M if idx enumerates the rows where the boolean array M holds: np.flatnonzero(M) / np.where(M)[0] / np.nonzero(M)[0]"""
        if isinstance(idx, ast.Call) and ast.unparse(idx.func) == "np.flatnonzero" and len(idx.args) == 1 and not idx.keywords:
            return idx.args[0]
        if isinstance(idx, ast.Subscript) and isinstance(idx.value, ast.Call) and ast.unparse(idx.value.func) in ("np.where", "np.nonzero") and len(idx.value.args) == 1 \
                and isinstance(idx.slice, ast.Constant) and idx.slice.value == 0:
            return idx.value.args[0]
        return None

    def n_Subscript(self, e):
        v = e.value
        sl = e.slice
        if isinstance(sl, ast.Name) and sl.id in self.env and sl.id not in self._stack:
            sl_def = self.env[sl.id]
        else:
            sl_def = sl
        # X[A[k]] == X[A][k] for an index vector A that enumerates rows
        if isinstance(sl_def, ast.Subscript) and not isinstance(sl_def.slice, (ast.Slice, ast.Tuple)):
            a = sl_def.value
            a_def = self.env.get(a.id, a) if isinstance(a, ast.Name) and a.id not in self._stack else a
            if self.rows_mask_expr(a_def) is not None or (isinstance(a_def, ast.Call) and ast.unparse(a_def.func) == "np.arange" and len(a_def.args) == 1):
                return self.n(ast.Subscript(value=ast.Subscript(value=v, slice=a_def, ctx=ast.Load()), slice=sl_def.slice, ctx=ast.Load()))
        # X[np.flatnonzero(M)] == X[M]
        m = self.rows_mask_expr(sl_def)
        if m is not None:
            return Poly.atom(("idx", self.key(v), self.slice_key(m)))
        # X[np.arange(len(X))] == X
        if isinstance(sl_def, ast.Call) and ast.unparse(sl_def.func) == "np.arange" and len(sl_def.args) == 1 and not sl_def.keywords:
            L = ast.unparse(sl_def.args[0]).replace(" ", "")
            xv = ast.unparse(v).replace(" ", "")
            if L in (f"{xv}.size", f"len({xv})", f"{xv}.shape[0]"):
                return self.n(v)
        if isinstance(v, ast.Call):
            nm = ast.unparse(v.func)
            if nm == "np.arange" and len(v.args) == 1 and not isinstance(e.slice, (ast.Slice, ast.Tuple, ast.Constant)):
                return Poly.atom(("rows", self.bool_key(e.slice)))          # np.arange(n)[mask]
            if nm in ("np.where", "np.nonzero") and len(v.args) == 1 and isinstance(e.slice, ast.Constant) and e.slice.value == 0:
                return Poly.atom(("rows", self.bool_key(v.args[0])))        # np.where(mask)[0]
        return Poly.atom(("idx", self.key(e.value), self.slice_key(e.slice)))

    def bool_key(self, e):
        """key of a boolean-array expression (comparison/logical forms normalised, plain arrays as their key)"""
        if isinstance(e, (ast.Compare, ast.BoolOp)) or (isinstance(e, ast.UnaryOp) and isinstance(e.op, (ast.Not, ast.Invert))) \
                or (isinstance(e, ast.BinOp) and isinstance(e.op, (ast.BitAnd, ast.BitOr))):
            return ("b", self.b(e))
        return ("k", self.key(e))

    # ------------------------------------------------------------- arithmetic
    def n_UnaryOp(self, e):
        if isinstance(e.op, ast.USub):
            return -self.n(e.operand)
        if isinstance(e.op, ast.UAdd):
            return self.n(e.operand)
        if isinstance(e.op, (ast.Not, ast.Invert)):
            return Poly.atom(("bexpr", self.b(e)))
        return self.opaque(e)

    def n_BinOp(self, e):
        op = e.op
        if isinstance(op, (ast.BitAnd, ast.BitOr)):
            return Poly.atom(("bexpr", self.b(e)))
        l, r = self.n(e.left), self.n(e.right)
        if isinstance(op, ast.Add):
            return l + r
        if isinstance(op, ast.Sub):
            return l - r
        if isinstance(op, ast.Mult):
            return l * r
        if isinstance(op, ast.Div):
            return l * self.inv(r)
        if isinstance(op, ast.Pow):
            c = r.const_value()
            if c is not None and c.denominator == 1 and abs(c) <= 8:
                out = Poly.const(1)
                base = l if c >= 0 else self.inv(l)
                for _ in range(abs(int(c))):
                    out = out * base
                return out
            return Poly.atom(("pow", l.key(), r.key()))
        if isinstance(op, ast.MatMult):
            return self.matmul(l, r)
        if isinstance(op, ast.FloorDiv):
            return Poly.atom(("floordiv", l.key(), r.key()))
        if isinstance(op, ast.Mod):
            return Poly.atom(("mod", l.key(), r.key()))
        return self.opaque(e)

    def inv(self, p):
        if len(p.t) == 1:
            (k, v), = p.t.items()
            return Poly({tuple(sorted(((a, -pw) for a, pw in k), key=_k)): 1 / v})
        if not p.t:
            raise AnalysisError("division by a form that normalises to zero")
        return Poly.atom(("poly", p.key()), -1)

    def split_scalar(self, mono):
        sc = tuple((a, p) for a, p in mono if self.scalar(a))
        ns = tuple((a, p) for a, p in mono if not self.scalar(a))
        return sc, ns

    def matmul(self, l, r):
        out = Poly()
        for k1, v1 in l.t.items():
            s1, n1 = self.split_scalar(k1)
            for k2, v2 in r.t.items():
                s2, n2 = self.split_scalar(k2)
                term = Poly({((("mm", n1, n2), 1),): v1 * v2})
                term = term * Poly({tuple(sorted(s1, key=_k)): Fraction(1)}) * Poly({tuple(sorted(s2, key=_k)): Fraction(1)})
                out = out + term
        return out

    def transpose(self, p):
        out = Poly()
        for k, v in p.t.items():
            sc, ns = self.split_scalar(k)
            if len(ns) == 1 and ns[0][1] == 1 and ns[0][0][0] == "T":
                inner = ns[0][0][1]        # T(T(x)) = x
                term = Poly({inner: v})
            elif not ns:
                term = Poly({(): v})
            else:
                term = Poly({((("T", ns), 1),): v})
            out = out + term * Poly({tuple(sorted(sc, key=_k)): Fraction(1)})
        return out

    def linear(self, name, inner, extra):
        out = Poly()
        for k, v in inner.t.items():
            sc, ns = self.split_scalar(k)
            term = Poly({(((name, extra, ns), 1),): v}) * Poly({tuple(sorted(sc, key=_k)): Fraction(1)})
            out = out + term
        return out

    # ------------------------------------------------------------- calls
    def kw_key(self, c, skip=()):
        return tuple(sorted((k.arg, self.key(k.value)) for k in c.keywords if k.arg is not None and k.arg not in skip))

    def axis_of(self, c, pos=1):
        for k in c.keywords:
            if k.arg == "axis":
                return self.key(k.value)
        if len(c.args) > pos:
            return self.key(c.args[pos])
        return None

    def n_Call(self, e):
        f = e.func
        name = ast.unparse(f)
        if name == "np.square" and len(e.args) == 1:
            x = self.n(e.args[0])
            return x * x
        if name == "np.sort" and len(e.args) == 1 and not e.keywords and isinstance(e.args[0], ast.Call) and ast.unparse(e.args[0].func) == "np.unique":
            return self.n(e.args[0])          # np.unique already returns sorted values
        if name == "np.flatnonzero" and len(e.args) == 1:
            return Poly.atom(("rows", self.bool_key(e.args[0])))
        if name == "np.column_stack" and len(e.args) == 1:
            vs = ast.Call(func=ast.Attribute(value=ast.Name(id="np", ctx=ast.Load()), attr="vstack", ctx=ast.Load()), args=[e.args[0]], keywords=[])
            return self.transpose(self.n(vs))
        if name in ("np.all", "np.any", "all", "any") and e.args:
            return Poly.atom(("bexpr", self.b(e)))
        if isinstance(f, ast.Attribute) and f.attr in ("all", "any") and not (isinstance(f.value, ast.Name) and f.value.id in ("np", "numpy")):
            return Poly.atom(("bexpr", self.b(e)))
        if isinstance(f, ast.Attribute) and f.attr in ("ravel", "flatten") and not e.args and not e.keywords:
            return Poly.atom(("fn", "flatten", self.key(f.value)))
        if name in ("np.ravel",) and len(e.args) == 1:
            return Poly.atom(("fn", "flatten", self.key(e.args[0])))
        if name in ("np.negative",) and len(e.args) == 1:
            return -self.n(e.args[0])
        if name in ELEMENTWISE_FUNCS and len(e.args) == 1 and not e.keywords:
            return Poly.atom(("fn", ELEMENTWISE_FUNCS[name], self.key(e.args[0])))
        if name in LINEAR_REDUCTIONS and e.args:
            extra = (self.axis_of(e),) + self.kw_key(e, skip=("axis",))
            return self.linear(LINEAR_REDUCTIONS[name], self.n(e.args[0]), extra)
        if name in OTHER_REDUCTIONS and e.args:
            extra = (self.axis_of(e),) + self.kw_key(e, skip=("axis",))
            return Poly.atom(("fn", OTHER_REDUCTIONS[name], self.key(e.args[0]), extra))
        if isinstance(f, ast.Attribute):
            if f.attr in LINEAR_METHODS:
                extra = (self.axis_of(e, 0),) + self.kw_key(e, skip=("axis",))
                return self.linear(LINEAR_METHODS[f.attr], self.n(f.value), extra)
            if f.attr in OTHER_METHODS:
                extra = (self.axis_of(e, 0),) + self.kw_key(e, skip=("axis",))
                return Poly.atom(("fn", OTHER_METHODS[f.attr], self.key(f.value), extra))
            if f.attr == "transpose" and not e.args:
                return self.transpose(self.n(f.value))
            if f.attr == "copy" and not e.args and not e.keywords:
                return self.n(f.value)
            if f.attr == "reshape" and len(e.args) == 1 and isinstance(e.args[0], ast.Attribute) and e.args[0].attr == "shape":
                return self.n(f.value)      # x.reshape(y.shape): element order is kept; rules compare element-wise content
            if f.attr == "astype" and len(e.args) == 1:
                return Poly.atom(("astype", self.key(f.value), ast.unparse(e.args[0])))
        if name in ("np.clip",):
            a_min = self._arg(e, 1, "a_min")
            a_max = self._arg(e, 2, "a_max")
            return Poly.atom(("clip", self.key(e.args[0]), self.key(a_min) if a_min is not None else None,
                              self.key(a_max) if a_max is not None else None))
        if name in ("np.concatenate", "np.hstack", "np.vstack", "np.stack") and e.args and isinstance(e.args[0], (ast.List, ast.Tuple)):
            return Poly.atom(("stack", name.split(".")[1], tuple(self.key(x) for x in e.args[0].elts), self.kw_key(e)))
        if name == "len" and len(e.args) == 1:
            return Poly.atom(("len", self.key(e.args[0])))
        # generic call atom: callee text + normalised args
        try:
            args = tuple(self.key(a) for a in e.args)
            kws = self.kw_key(e)
        except AnalysisError:
            if self.strict:
                raise
            return self.opaque(e)
        if isinstance(f, ast.Attribute):
            recv = self.key(f.value)
            return Poly.atom(("call", ("method", recv, f.attr), args, kws))
        return Poly.atom(("call", name, args, kws))

    @staticmethod
    def _arg(c, pos, name):
        for k in c.keywords:
            if k.arg == name:
                return k.value
        if len(c.args) > pos:
            return c.args[pos]
        return None

    def n_IfExp(self, e):
        return Poly.atom(("ifexp", self.b(e.test), self.key(e.body), self.key(e.orelse)))

    def n_Compare(self, e):
        return Poly.atom(("bexpr", self.b(e)))

    def n_BoolOp(self, e):
        return Poly.atom(("bexpr", self.b(e)))

    def n_JoinedStr(self, e):
        parts = []
        for v in e.values:
            if isinstance(v, ast.Constant):
                parts.append(("s", v.value))
            else:
                parts.append(("v", self.key(v.value)))
        return Poly.atom(("fstr", tuple(parts)))

    def n_Starred(self, e):
        return Poly.atom(("star", self.key(e.value)))

    def n_Lambda(self, e):
        return Poly.atom(("lambda", ast.dump(e)))

    def n_ListComp(self, e):
        from .astutil import alpha_canon
        return Poly.atom(("comp", ast.dump(alpha_canon(e))))          # a comprehension's variables are its own: called by position

    n_GeneratorExp = n_ListComp
    n_SetComp = n_ListComp
    n_DictComp = n_ListComp

    def n_Dict(self, e):
        return Poly.atom(("dict", tuple((self.key(k) if k is not None else None, self.key(v)) for k, v in zip(e.keys, e.values))))

    def n_Set(self, e):
        return Poly.atom(("set", tuple(sorted((self.key(x) for x in e.elts), key=_k))))

    # ------------------------------------------------------------- booleans
    def b(self, e, neg=False, integer=False):
        """relational / boolean normal form (a hashable tuple).
        comparisons become ('cmp', op, key(lhs-rhs)) with op in < <= == !=."""
        if isinstance(e, ast.UnaryOp) and isinstance(e.op, (ast.Not, ast.Invert)):
            return self.b(e.operand, not neg, integer)
        if isinstance(e, ast.BoolOp) or (isinstance(e, ast.BinOp) and isinstance(e.op, (ast.BitAnd, ast.BitOr))):
            if isinstance(e, ast.BoolOp):
                is_and = isinstance(e.op, ast.And)
                parts = e.values
            else:
                is_and = isinstance(e.op, ast.BitAnd)
                parts = [e.left, e.right]
            if neg:
                is_and = not is_and
            items = set()
            for p in parts:
                x = self.b(p, neg, integer)
                if x[0] == ("and" if is_and else "or"):
                    items |= set(x[1])
                else:
                    items.add(x)
            if len(items) == 1:
                return next(iter(items))
            return ("and" if is_and else "or", tuple(sorted(items, key=_k)))
        if isinstance(e, ast.Compare) and len(e.ops) == 1:
            op = e.ops[0]
            l, r = e.left, e.comparators[0]
            # X.size - np.count_nonzero(X) == 0  /  np.count_nonzero(X) == X.size   <=>  np.all(X)   ("no entry is unset")
            if isinstance(op, (ast.Eq, ast.NotEq)):
                def _size_of(x):
                    if isinstance(x, ast.Attribute) and x.attr == "size":
                        return ast.unparse(x.value)
                    if isinstance(x, ast.Call) and ast.unparse(x.func) == "len" and len(x.args) == 1:
                        return ast.unparse(x.args[0])
                    if isinstance(x, ast.Subscript) and isinstance(x.value, ast.Attribute) and x.value.attr == "shape" and ast.unparse(x.slice) == "0":
                        return ast.unparse(x.value.value)
                    return None

                def _count_of(x):
                    if isinstance(x, ast.Call) and ast.unparse(x.func) == "np.count_nonzero" and len(x.args) == 1 and not x.keywords:
                        return x.args[0]
                    return None
                pairs = []
                for a_, b_ in ((l, r), (r, l)):
                    if isinstance(b_, ast.Constant) and b_.value == 0 and isinstance(a_, ast.BinOp) and isinstance(a_.op, ast.Sub):
                        pairs.append((a_.left, a_.right))
                pairs.append((l, r))
                pairs.append((r, l))
                for s_, c_ in pairs:
                    cx = _count_of(c_)
                    if cx is not None and _size_of(s_) is not None and _size_of(s_) == ast.unparse(cx):
                        allx = ast.Call(func=ast.Attribute(value=ast.Name(id="np", ctx=ast.Load()), attr="all", ctx=ast.Load()), args=[cx], keywords=[])
                        return self.b(allx, neg != isinstance(op, ast.NotEq), integer)
            # np.count_nonzero(x) == 0  <=>  all(x == 0)   (NaN counts as non-zero on both sides);  != 0 / > 0  <=>  any(x != 0)
            for a_, b_ in ((l, r), (r, l)):
                if isinstance(a_, ast.Call) and ast.unparse(a_.func) == "np.count_nonzero" and len(a_.args) == 1 and not a_.keywords \
                        and isinstance(b_, ast.Constant) and b_.value == 0 and isinstance(op, (ast.Eq, ast.NotEq, ast.Gt)) and (a_ is l or not isinstance(op, ast.Gt)):
                    x_ = a_.args[0]
                    boolean = isinstance(x_, (ast.Compare, ast.BoolOp)) or (isinstance(x_, ast.UnaryOp) and isinstance(x_.op, (ast.Invert, ast.Not))) \
                        or (isinstance(x_, ast.BinOp) and isinstance(x_.op, (ast.BitAnd, ast.BitOr))) \
                        or (isinstance(x_, ast.Call) and ast.unparse(x_.func) in ("np.logical_not", "np.logical_and", "np.logical_or", "np.isnan", "np.isin", "np.isfinite", "np.isinf"))
                    if boolean:      # no element of a boolean array is set:  not any(X)
                        anyx = ast.Call(func=ast.Attribute(value=ast.Name(id="np", ctx=ast.Load()), attr="any", ctx=ast.Load()), args=[x_], keywords=[])
                        return self.b(anyx, neg != isinstance(op, ast.Eq), integer)
                    allz = ast.Call(func=ast.Attribute(value=ast.Name(id="np", ctx=ast.Load()), attr="all", ctx=ast.Load()),
                                    args=[ast.Compare(left=x_, ops=[ast.Eq()], comparators=[ast.Constant(value=0)])], keywords=[])
                    return self.b(allz, neg != (not isinstance(op, ast.Eq)), integer)
            if isinstance(op, (ast.In, ast.NotIn)):
                n = isinstance(op, ast.NotIn) != neg
                return ("notin" if n else "in", self.key(l), self.key(r))
            if isinstance(op, (ast.Is, ast.IsNot)):
                n = isinstance(op, ast.IsNot) != neg
                return ("isnot" if n else "is", self.key(l), self.key(r))
            d = self.n(l) - self.n(r)
            name = {ast.Lt: "<", ast.LtE: "<=", ast.Gt: ">", ast.GtE: ">=", ast.Eq: "==", ast.NotEq: "!="}[type(op)]
            if neg:
                name = {"<": ">=", "<=": ">", ">": "<=", ">=": "<", "==": "!=", "!=": "=="}[name]
            if name in (">", ">="):
                d = -d
                name = "<" if name == ">" else "<="
            if integer and name == "<":      # a < b  <=>  a + 1 <= b  over integers
                d = d + Poly.const(1)
                name = "<="
            if name in ("==", "!="):
                d = canon_sign(d)
            return ("cmp", name, d.key())
        if isinstance(e, ast.Compare):
            parts = []
            left = e.left
            for op, c in zip(e.ops, e.comparators):
                parts.append(ast.Compare(left=left, ops=[op], comparators=[c]))
                left = c
            return self.b(ast.BoolOp(op=ast.And(), values=parts), neg, integer)
        if isinstance(e, ast.Call) and ast.unparse(e.func) in ("np.count_nonzero", "len") and len(e.args) == 1 and not e.keywords:
            # truthiness of a count: it holds iff the count is not 0
            return self.b(ast.Compare(left=e, ops=[ast.NotEq()], comparators=[ast.Constant(value=0)]), neg, integer)
        if isinstance(e, ast.Call):
            nm = ast.unparse(e.func)
            # all / any over a boolean array, function or method form:  any(P) == not all(not P)
            red = None
            if nm in ("np.all", "np.any", "all", "any") and e.args:
                red, inner, pos = nm.split(".")[-1], e.args[0], 1
            elif isinstance(e.func, ast.Attribute) and e.func.attr in ("all", "any") and not (isinstance(e.func.value, ast.Name) and e.func.value.id in ("np", "numpy")):
                red, inner, pos = e.func.attr, e.func.value, 0
            if red is not None:
                ax = None
                for k in e.keywords:
                    if k.arg == "axis":
                        ax = self.key(k.value)
                if ax is None and len(e.args) > pos:
                    ax = self.key(e.args[pos])
                # explicit element-wise negations of an ORDER comparison: any(~C) == not all(C), all(~C) == not any(C) exactly
                # (also for NaN), whereas flipping the comparison inside would not be
                peeled, nneg = inner, 0
                while True:
                    if isinstance(peeled, ast.UnaryOp) and isinstance(peeled.op, (ast.Invert, ast.Not)):
                        peeled, nneg = peeled.operand, nneg + 1
                    elif isinstance(peeled, ast.Call) and ast.unparse(peeled.func) == "np.logical_not" and len(peeled.args) == 1:
                        peeled, nneg = peeled.args[0], nneg + 1
                    else:
                        break
                if nneg % 2 == 1 and not integer and isinstance(peeled, ast.Compare) and len(peeled.ops) == 1 and isinstance(peeled.ops[0], (ast.Lt, ast.LtE, ast.Gt, ast.GtE)):
                    pc = self.b(peeled, False, integer)
                    form = ("not", ("all", pc, ax)) if red == "any" else ("not", ("any", pc, ax))
                    return negate(form) if neg else form
                p = self.b(inner, False, integer)
                # any(P) == not all(not P) is exact for equality tests and plain boolean arrays; for ORDER comparisons
                # on floats `not (x < 0)` differs from `x >= 0` when x is NaN, so those keep a distinct ('any', ..) form
                ordering = p[0] == "cmp" and p[1] in ("<", "<=")
                if red == "all":
                    form = ("all", p, ax)
                elif ordering:
                    form = ("any", p, ax)
                else:
                    form = ("not", ("all", negate(p), ax))
                return negate(form) if neg else form
            if nm in ("np.logical_not",) and len(e.args) == 1:
                return self.b(e.args[0], not neg, integer)
            if nm in ("np.isin", "np.in1d") and len(e.args) >= 2:
                inv = any(k.arg == "invert" and ast.unparse(k.value) == "True" for k in e.keywords)
                form = ("isin", self.key(e.args[0]), self.key(e.args[1]))
                return negate(form) if (neg != inv) else form
            if nm in ("np.logical_or.reduce", "np.logical_and.reduce", "np.bitwise_or.reduce", "np.bitwise_and.reduce") and e.args and isinstance(e.args[0], (ast.List, ast.Tuple)) \
                    and len(e.args[0].elts) >= 1 and all(k.arg == "axis" and ast.unparse(k.value) == "0" for k in e.keywords) and len(e.args) == 1:
                op = ast.BitAnd() if "and" in nm else ast.BitOr()       # element-wise over the listed (boolean) arrays
                cur = e.args[0].elts[0]
                for nxt in e.args[0].elts[1:]:
                    cur = ast.BinOp(left=cur, op=op, right=nxt)
                return self.b(cur, neg, integer)
            if nm in ("np.logical_and", "np.logical_or") and len(e.args) == 2:
                op = ast.BitAnd() if nm.endswith("and") else ast.BitOr()
                return self.b(ast.BinOp(left=e.args[0], op=op, right=e.args[1]), neg, integer)
        if isinstance(e, ast.Name) and e.id in self.env and e.id not in self._stack:
            self._stack.append(e.id)
            try:
                return self.b(self.env[e.id], neg, integer)
            finally:
                self._stack.pop()
        if isinstance(e, ast.Constant) and isinstance(e.value, bool):
            return ("const", e.value != neg)
        k = self.key(e)
        # key of a ('bexpr', x) atom alone -> unwrap
        if len(k) == 1 and k[0][1] == 1 and len(k[0][0]) == 1 and k[0][0][0][0][0] == "bexpr" and k[0][0][0][1] == 1:
            inner = k[0][0][0][0][1]
            return negate(inner) if neg else inner
        return ("not", ("truthy", k)) if neg else ("truthy", k)


def negate(b):
    if b[0] == "not":
        return b[1]
    if b[0] == "const":
        return ("const", not b[1])
    if b[0] in ("and", "or"):
        return ("or" if b[0] == "and" else "and", tuple(sorted((negate(x) for x in b[1]), key=_k)))
    if b[0] == "cmp":
        op, k = b[1], b[2]
        p = Poly(dict(k))
        if op == "==":
            return ("cmp", "!=", k)
        if op == "!=":
            return ("cmp", "==", k)
        if op == "<":      # not(d < 0) -> -d <= 0
            return ("cmp", "<=", (-p).key())
        if op == "<=":
            return ("cmp", "<", (-p).key())
    if b[0] == "isin":
        return ("not", b)
    if b[0] in ("in", "notin"):
        return ("notin" if b[0] == "in" else "in",) + b[1:]
    if b[0] in ("is", "isnot"):
        return ("isnot" if b[0] == "is" else "is",) + b[1:]
    return ("not", b)


def canon_sign(p):
    k = p.key()
    if k and k[0][1] < 0:
        return -p
    return p


def single_atom(p):
    """the atom if p is exactly 1*atom^1, else None"""
    if len(p.t) == 1:
        (k, v), = p.t.items()
        if v == 1 and len(k) == 1 and k[0][1] == 1:
            return k[0][0]
    return None


class Rename(ast.NodeTransformer):
    def __init__(self, m):
        self.m = m

    def visit_Name(self, n):
        return ast.copy_location(ast.Name(id=self.m.get(n.id, n.id), ctx=n.ctx), n)


def renamed(e, m):
    return Rename(m).visit(copy.deepcopy(e))


KNOWN_SIGNATURES = {}      # simple name of a repository function / class (unique) -> parameter names ; filled by normalize.keywordise_calls


def keywordise_expr(e):
    """the rule's own expression templates in the engine's canonical call spelling: f(a, b) -> f(x=a, y=b) for repository callables known by
    their (unique) simple name, and self.m(..) left alone (templates name free functions)"""
    class K(ast.NodeTransformer):
        def visit_Call(self, c):
            self.generic_visit(c)
            if isinstance(c.func, ast.Name) and c.func.id in KNOWN_SIGNATURES and c.args and not any(isinstance(a, ast.Starred) for a in c.args) \
                    and len(c.args) <= len(KNOWN_SIGNATURES[c.func.id]) and not any(k.arg is None for k in c.keywords):
                names = KNOWN_SIGNATURES[c.func.id][:len(c.args)]
                if not set(names) & {k.arg for k in c.keywords}:
                    c.keywords = [ast.keyword(arg=nm, value=a) for nm, a in zip(names, c.args)] + c.keywords
                    c.args = []
            return c
    return ast.fix_missing_locations(K().visit(e))


def parse_expr(src):
    return ast.parse(src, mode="eval").body
