"""Canonical form of collection-building code: loops that fill a list / set / dict / counter and the equivalent
comprehensions are mapped to one representation, path by path.

    c = defaultdict(int) | Counter() ; for x in IT: [locals]; c[K] += 1          ->  Counter(K for x in IT)
    s = set()  ; for x in IT: [locals]; if C: s.add(E)                            ->  {E for x in IT if C}
    r = []     ; for x in IT: [locals]; if C: r.append(E)                         ->  [E for x in IT if C]
    d = {}     ; for x in IT: d[K] = V                                            ->  {K: V for x in IT}
    v = None   ; for x in IT: if C: v = E                                         ->  __last__([E for x in IT if C])
    L[-1] if L else None          (L a list comprehension)                        ->  __last__(L)
    Counter(G) / set(G) / list(G) with G a generator expression                   ->  the comprehension

`if C: continue` guards inside the loop body are read as negated conditions.  Comprehension variables are renamed to
_0, _1, .. so that two spellings of the same comprehension unparse identically.

`paths(fnode)` enumerates the paths through the function's top-level `if` statements (loops stay whole), building the
environment of canonical values along each path, and returns [(conditions, returned expression, env)].
"""
import ast
import copy

from .astutil import U, inline, walk_own


class Unsupported(Exception):
    pass


def _empty_kind(e):
    t = U(e).replace(" ", "")
    if t == "[]" or t == "list()":
        return "list"
    if t == "set()":
        return "set"
    if t in ("{}", "dict()"):
        return "dict"
    if t in ("defaultdict(int)", "collections.defaultdict(int)", "Counter()", "collections.Counter()", "defaultdict(lambda:0)"):
        return "counter"
    if t == "None":
        return "none"
    if t in ("0", "0.0"):
        return "sum"
    return None


def _names_stored(node):
    return {x.id for x in ast.walk(node) if isinstance(x, ast.Name) and isinstance(x.ctx, ast.Store)}


class _Sub(ast.NodeTransformer):
    def __init__(self, env):
        self.env = env

    def visit_Name(self, n):
        if isinstance(n.ctx, ast.Load) and n.id in self.env:
            return copy.deepcopy(self.env[n.id])
        return n


def subst(e, env):
    return _Sub(env).visit(copy.deepcopy(e)) if env else copy.deepcopy(e)


def _loop_mutations(loop, refusals=None):
    """[(kind, collection name, payload, conditions)] for a loop whose body is: local single assignments, `if c: continue`
    guards, and mutations of distinct collections, each possibly under if / elif / else arms; None if the loop has another shape"""
    lenv = {}
    muts = []

    def mut_of(st):
        if isinstance(st, ast.Expr) and isinstance(st.value, ast.Call) and isinstance(st.value.func, ast.Attribute) and isinstance(st.value.func.value, ast.Name) \
                and st.value.func.attr in ("append", "add") and len(st.value.args) == 1 and not st.value.keywords:
            return ("list" if st.value.func.attr == "append" else "set", st.value.func.value.id, st.value.args[0])
        if isinstance(st, ast.AugAssign) and isinstance(st.op, ast.Add) and isinstance(st.target, ast.Subscript) and isinstance(st.target.value, ast.Name) and U(st.value) == "1":
            return ("counter", st.target.value.id, st.target.slice)
        if isinstance(st, ast.Assign) and len(st.targets) == 1 and isinstance(st.targets[0], ast.Subscript) and isinstance(st.targets[0].value, ast.Name):
            # d[K] = d.get(K, 0) + 1: the counting idiom on a plain dict
            d_, k_, v_ = st.targets[0].value.id, st.targets[0].slice, st.value
            if isinstance(v_, ast.BinOp) and isinstance(v_.op, ast.Add):
                for a_, b_ in ((v_.left, v_.right), (v_.right, v_.left)):
                    if U(b_) == "1" and isinstance(a_, ast.Call) and isinstance(a_.func, ast.Attribute) and a_.func.attr == "get" and U(a_.func.value) == d_ \
                            and len(a_.args) == 2 and not a_.keywords and U(a_.args[0]) == U(k_) and U(a_.args[1]) == "0":
                        return ("counter", d_, k_)
            return ("dict", st.targets[0].value.id, (st.targets[0].slice, st.value))
        if isinstance(st, ast.AugAssign) and isinstance(st.op, ast.Add) and isinstance(st.target, ast.Name):
            return ("sum", st.target.id, st.value)
        return None

    def sub_payload(kind, payload):
        if kind == "dict":
            return (subst(payload[0], lenv), subst(payload[1], lenv))
        return subst(payload, lenv)

    def go(stmts, conds_here):
        conds_here = list(conds_here)
        for st in stmts:
            if isinstance(st, ast.Expr) and isinstance(st.value, ast.Constant):
                continue
            if isinstance(st, ast.Pass):
                continue
            if isinstance(st, ast.Expr) and isinstance(st.value, ast.Call) and U(st.value.func).split(".")[0] in ("logger", "logging", "warnings", "print"):
                continue
            m = mut_of(st)
            if m is not None:
                if any(x[1] == m[1] for x in muts):
                    return False
                muts.append((m[0], m[1], sub_payload(m[0], m[2]), list(conds_here)))
                continue
            if isinstance(st, ast.Assign) and len(st.targets) == 1 and isinstance(st.targets[0], ast.Name):
                nm = st.targets[0].id
                if nm in lenv:
                    return False
                lenv[nm] = subst(st.value, lenv)
                continue
            if isinstance(st, ast.If):
                t = subst(st.test, lenv)
                if refusals is not None and len(st.body) == 1 and isinstance(st.body[0], ast.Raise):
                    # `if C: raise ..` [else: REST]: a refusal - a loop that completes passed it for every element, so it does not
                    # restrict what is collected; recorded (under the conditions that reach it) for the caller to judge
                    refusals.append((t, list(conds_here)))
                    if st.orelse and not go(st.orelse, conds_here):
                        return False
                    continue
                if st.body and isinstance(st.body[-1], ast.Continue) and not st.orelse:
                    if not go(st.body[:-1], conds_here + [(t, True)]):
                        return False
                    conds_here.append((t, False))
                    continue
                if not go(st.body, conds_here + [(t, True)]):
                    return False
                if st.orelse and not go(st.orelse, conds_here + [(t, False)]):
                    return False
                continue
            return False
        return True

    if loop.orelse or not go(loop.body, []):
        return None
    return muts or None


def _last_assignment(loop):
    """`for x in IT: [locals]; if C: v = E`  ->  (v, E, conds)"""
    lenv = {}
    found = None
    for st in loop.body:
        if isinstance(st, ast.Assign) and len(st.targets) == 1 and isinstance(st.targets[0], ast.Name) and found is None and not isinstance(st.value, ast.Constant):
            # a local, unless it is the only statement
            lenv[st.targets[0].id] = subst(st.value, lenv)
            continue
        if isinstance(st, ast.If) and not st.orelse and len(st.body) == 1 and isinstance(st.body[0], ast.Assign) and len(st.body[0].targets) == 1 \
                and isinstance(st.body[0].targets[0], ast.Name) and found is None:
            a = st.body[0]
            found = (a.targets[0].id, subst(a.value, lenv), [(subst(st.test, lenv), True)])
            continue
        return None
    return found


def _conj(conds):
    out = []
    for t, pol in conds:
        out.append(t if pol else ast.UnaryOp(op=ast.Not(), operand=t))
    return out


def _comp(kind, payload, target, it, conds):
    gen = ast.comprehension(target=copy.deepcopy(target), iter=copy.deepcopy(it), ifs=_conj(conds), is_async=0)
    if kind == "list":
        return ast.ListComp(elt=payload, generators=[gen])
    if kind == "set":
        return ast.SetComp(elt=payload, generators=[gen])
    if kind == "dict":
        return ast.DictComp(key=payload[0], value=payload[1], generators=[gen])
    if kind == "sum":
        return ast.Call(func=ast.Name(id="sum", ctx=ast.Load()), args=[ast.GeneratorExp(elt=payload, generators=[gen])], keywords=[])
    if kind == "counter":
        return ast.Call(func=ast.Name(id="Counter", ctx=ast.Load()), args=[ast.GeneratorExp(elt=payload, generators=[gen])], keywords=[])
    raise Unsupported(kind)


def last_of(lc):
    return ast.Call(func=ast.Name(id="__last__", ctx=ast.Load()), args=[lc], keywords=[])


def canon_expr(e, env):
    """canonical value of an expression given the environment of canonical collection values"""
    # L[-1] if L else None
    if isinstance(e, ast.IfExp) and isinstance(e.test, ast.Name) and isinstance(env.get(e.test.id), ast.ListComp) \
            and U(e.body).replace(" ", "") == f"{e.test.id}[-1]" and U(e.orelse) == "None":
        return last_of(copy.deepcopy(env[e.test.id]))
    # filter(pred, it) with pred a lambda (or a one-line local function) -> generator expression
    if isinstance(e, ast.Call) and U(e.func) == "filter" and len(e.args) == 2 and not e.keywords:
        pred = e.args[0]
        if isinstance(pred, ast.Name) and isinstance(env.get(pred.id), ast.Lambda):
            pred = env[pred.id]
        if isinstance(pred, ast.Lambda) and len(pred.args.args) == 1:
            v = pred.args.args[0].arg
            return ast.GeneratorExp(elt=ast.Name(id=v, ctx=ast.Load()), generators=[ast.comprehension(target=ast.Name(id=v, ctx=ast.Store()), iter=e.args[1], ifs=[copy.deepcopy(pred.body)], is_async=0)])
    if isinstance(e, ast.Call) and U(e.func) in ("sorted", "list", "tuple") and e.args:
        inner = canon_expr(e.args[0], env)
        if inner is not e.args[0]:
            return ast.Call(func=e.func, args=[inner] + e.args[1:], keywords=e.keywords)
    if isinstance(e, ast.Call) and isinstance(e.func, (ast.Name, ast.Attribute)) and len(e.args) == 1 and not e.keywords and isinstance(e.args[0], (ast.GeneratorExp, ast.ListComp)):
        g = e.args[0]
        fn = U(e.func).split(".")[-1]
        if fn == "Counter":
            return ast.Call(func=ast.Name(id="Counter", ctx=ast.Load()), args=[ast.GeneratorExp(elt=g.elt, generators=g.generators)], keywords=[])
        if fn in ("set", "frozenset"):
            return ast.SetComp(elt=g.elt, generators=g.generators)
        if fn == "list":
            return ast.ListComp(elt=g.elt, generators=g.generators)
    return e


def alpha(e):
    """rename comprehension variables to _0, _1, .. (in order of binding) throughout expression e"""
    e = copy.deepcopy(e)
    counter = [0]

    def rename_in(node, mapping):
        class R(ast.NodeTransformer):
            def visit_Name(self, n):
                if n.id in mapping:
                    return ast.copy_location(ast.Name(id=mapping[n.id], ctx=n.ctx), n)
                return n
        return R().visit(node)

    def go(node):
        if isinstance(node, (ast.ListComp, ast.SetComp, ast.GeneratorExp, ast.DictComp)):
            mapping = {}
            for g in node.generators:
                for nm in sorted(_names_stored(g.target), key=lambda s: [x.id for x in ast.walk(g.target) if isinstance(x, ast.Name)].index(s)):
                    mapping[nm] = f"_{counter[0]}"
                    counter[0] += 1
            for g in node.generators:
                g.target = rename_in(g.target, mapping)
                g.ifs = [rename_in(c, mapping) for c in g.ifs]
            # iter of the first generator is evaluated outside; later ones inside
            for g in node.generators[1:]:
                g.iter = rename_in(g.iter, mapping)
            if isinstance(node, ast.DictComp):
                node.key = rename_in(node.key, mapping)
                node.value = rename_in(node.value, mapping)
            else:
                node.elt = rename_in(node.elt, mapping)
        for ch in ast.iter_child_nodes(node):
            go(ch)
    go(e)
    return e


def text(e):
    return U(alpha(e)).replace(" ", "")


def paths(fnode, max_paths=64, stop_at_raise=True):
    """[(conds, return expr (canonical) or None, env, refusal loops)] over the paths through top-level ifs"""
    out = []
    body = [st for st in fnode.body if not (isinstance(st, ast.Expr) and isinstance(st.value, ast.Constant))]

    def run(stmts, conds, env, checks):
        env = dict(env)
        checks = list(checks)
        for i, st in enumerate(stmts):
            if len(out) > max_paths:
                raise Unsupported("too many paths")
            if isinstance(st, ast.Expr):
                c = st.value
                if isinstance(c, ast.Call) and isinstance(c.func, ast.Attribute) and isinstance(c.func.value, ast.Name) and c.func.value.id in env:
                    nm = c.func.value.id
                    if c.func.attr == "sort" and not c.args:
                        env[nm] = ast.Call(func=ast.Name(id="sorted", ctx=ast.Load()), args=[env[nm]], keywords=c.keywords)
                        continue
                    if c.func.attr == "update" and len(c.args) == 1 and not c.keywords and (isinstance(env[nm], (ast.SetComp, ast.Set, ast.BinOp)) or
                                                                                           (isinstance(env[nm], ast.Call) and U(env[nm].func) in ("set", "frozenset"))):
                        env[nm] = ast.BinOp(left=env[nm], op=ast.BitOr(), right=ast.Call(func=ast.Name(id="set", ctx=ast.Load()), args=[c.args[0]], keywords=[]))
                        continue
                    if c.func.attr in ("append", "extend", "add", "update", "pop", "remove", "clear", "insert", "discard", "reverse", "setdefault", "popitem"):
                        raise Unsupported(f"`{U(st)[:60]}` mutates a collection outside a recognised idiom")
                continue
            if isinstance(st, (ast.Pass, ast.Assert, ast.Import, ast.ImportFrom)):
                continue
            if isinstance(st, ast.FunctionDef):
                b = [x for x in st.body if not (isinstance(x, ast.Expr) and isinstance(x.value, ast.Constant))]
                a = st.args
                if not (a.vararg or a.kwarg or a.kwonlyargs or a.defaults) and not st.decorator_list:
                    if len(b) == 1 and isinstance(b[0], ast.Return) and b[0].value is not None:
                        env[st.name] = ast.Lambda(args=a, body=b[0].value)
                    else:
                        pred = _predicate_body(st)
                        if pred is not None:
                            env[st.name] = ast.Lambda(args=a, body=pred)
                continue
            if isinstance(st, ast.AnnAssign) and isinstance(st.target, ast.Name) and st.value is not None:
                st = ast.Assign(targets=[st.target], value=st.value, lineno=st.lineno, col_offset=0)      # `x: T = v` binds like `x = v`
            elif isinstance(st, ast.AnnAssign):
                continue
            if isinstance(st, ast.Assign) and len(st.targets) == 1 and isinstance(st.targets[0], ast.Name):
                nm = st.targets[0].id
                v = st.value
                if nm in env and any(isinstance(x, ast.Name) and x.id == nm for x in ast.walk(v)):
                    v = subst(v, {nm: env[nm]})          # x = sorted(x, ...): the new value is in terms of the old one
                env[nm] = canon_expr(v, env)
                continue
            if isinstance(st, ast.Assign) and len(st.targets) == 1 and isinstance(st.targets[0], ast.Tuple) and isinstance(st.value, ast.Tuple) \
                    and len(st.targets[0].elts) == len(st.value.elts) and all(isinstance(x, ast.Name) for x in st.targets[0].elts):
                for t, v in zip(st.targets[0].elts, st.value.elts):
                    env[t.id] = canon_expr(v, env)
                continue
            if isinstance(st, ast.AugAssign) and isinstance(st.target, ast.Name):
                env[st.target.id] = ast.BinOp(left=env.get(st.target.id, ast.Name(id=st.target.id, ctx=ast.Load())), op=st.op, right=st.value)
                continue
            if isinstance(st, ast.Return):
                v = st.value
                if isinstance(v, ast.Name) and v.id in env:
                    v = env[v.id]
                elif v is not None:
                    v = canon_expr(v, env)
                out.append((list(conds), v, env, checks))
                return
            if isinstance(st, ast.Raise):
                return
            if isinstance(st, ast.If):
                if st.body and isinstance(st.body[-1], ast.Raise) and not st.orelse:
                    continue        # a refusal: the surviving path carries no condition worth recording
                run(st.body + stmts[i + 1:], conds + [(st.test, True)], env, checks)
                run(st.orelse + stmts[i + 1:], conds + [(st.test, False)], env, checks)
                return
            if isinstance(st, ast.For):
                ms = _loop_mutations(st)
                if ms is not None:
                    grown = set()
                    for kind, name, payload, cs in ms:
                        cur = env.get(name)
                        ek = _empty_kind(cur) if cur is not None else None
                        if ek != kind:
                            if kind == "counter" and ek == "dict":
                                continue                 # a plain dict filled by `d[k] = d.get(k, 0) + 1`: the same table of counts
                            if kind == "list" and isinstance(cur, (ast.ListComp, ast.BinOp)):
                                grown.add(name)          # a second loop appending to the same list: concatenation
                                continue
                            raise Unsupported(f"loop at line {st.lineno} fills `{name}`, which is not an empty {kind} at that point")
                    for kind, name, payload, cs in ms:
                        c = _comp(kind, payload, st.target, st.iter, cs)
                        env[name] = ast.BinOp(left=env[name], op=ast.Add(), right=c) if name in grown else c
                    continue
                la = _last_assignment(st)
                if la is not None:
                    name, val, cs = la
                    cur = env.get(name)
                    if cur is not None and _empty_kind(cur) == "none":
                        env[name] = last_of(_comp("list", val, st.target, st.iter, cs))
                        continue
                    raise Unsupported(f"loop at line {st.lineno} re-binds `{name}`, which is not None before the loop")
                # a pure check loop: body is ifs that raise
                if all(isinstance(x, ast.If) and not x.orelse and x.body and isinstance(x.body[-1], ast.Raise) and len(x.body) == 1 for x in st.body):
                    checks.append(st)
                    continue
                raise Unsupported(f"loop at line {st.lineno} is not a recognised collection-building idiom")
            if isinstance(st, ast.Expr):
                continue
            # in-place sort of a known list
            raise Unsupported(f"statement `{U(st)[:60]}` at line {getattr(st, 'lineno', 0)}")
        out.append((list(conds), None, env, checks))

    run(body, [], {}, [])
    return out


def _predicate_body(fdef):
    """boolean expression equal to the result of a local predicate whose body is ifs and returns:  OR over returning
    paths of (path conditions AND returned expression)"""
    from .astutil import path_returns
    ps = path_returns(fdef)
    if ps is None or any(r is None for _, r in ps):
        return None
    terms = []
    for conds, ret in ps:
        if isinstance(ret, ast.Constant) and ret.value is False:
            continue
        parts = [t if pol else ast.UnaryOp(op=ast.Not(), operand=t) for t, pol in conds]
        if not (isinstance(ret, ast.Constant) and ret.value is True):
            parts.append(ret)
        if not parts:
            return ast.Constant(value=True)
        terms.append(parts[0] if len(parts) == 1 else ast.BoolOp(op=ast.And(), values=parts))
    if not terms:
        return ast.Constant(value=False)
    return terms[0] if len(terms) == 1 else ast.BoolOp(op=ast.Or(), values=terms)


def resolve(e, env, depth=8):
    """follow plain name aliases (`a = b`) to the canonical value"""
    while isinstance(e, ast.Name) and e.id in env and depth > 0 and not (isinstance(env[e.id], ast.Name) and env[e.id].id == e.id):
        e = env[e.id]
        depth -= 1
    return e


def flatten_filter(e, env):
    """a (possibly sorted / nested) selection `[p for p in [q for q in ROOT if A] if B]` -> (ROOT expr, [conditions over variable P], sort keys);
    None if e is not a selection of elements"""
    keys = []
    conds = []
    e = resolve(e, env)
    while True:
        e = resolve(e, env)
        if isinstance(e, ast.Call) and U(e.func) in ("sorted", "list", "tuple") and e.args:
            if U(e.func) == "sorted":
                keys.append({k.arg: U(k.value).replace(" ", "") for k in e.keywords})
            e = e.args[0]
            continue
        if isinstance(e, (ast.ListComp, ast.GeneratorExp)) and len(e.generators) == 1 and isinstance(e.generators[0].target, ast.Name) and U(e.elt) == e.generators[0].target.id:
            g = e.generators[0]
            v = g.target.id

            class R(ast.NodeTransformer):
                def visit_Name(self, n):
                    return ast.copy_location(ast.Name(id="P", ctx=n.ctx), n) if n.id == v else n
            conds += [R().visit(copy.deepcopy(c)) for c in g.ifs]
            e = g.iter
            continue
        break
    if not conds and not keys:
        return None
    return e, conds, keys
