"""Rule-instance bookkeeping, evidence and verdict codes."""
import json
import os
import time

from .repo import AnalysisError, Repo, get_repo
from .types import Types

VERIF = os.path.dirname(os.path.dirname(os.path.abspath(__file__)))

RECEIVER_HINTS = {
    # fold variables in the two concat() class methods: element of a list of the
    # declaring class (confirmed by reading); without the hint name-CHA links
    # them to every method called `combine`.
    ("batchie.core.ThetaHolder.concat", "first"): "batchie.core.ThetaHolder",
    ("batchie.distance_calculation.ChunkedDistanceMatrix.concat", "accumulator"):
        "batchie.distance_calculation.ChunkedDistanceMatrix",
    # the same fact independent of what the fold variable is called: in these two class methods a receiver whose type cannot be
    # inferred is an element of the list being folded, i.e. an instance of the declaring class
    ("batchie.core.ThetaHolder.concat", "*"): "batchie.core.ThetaHolder",
    ("batchie.distance_calculation.ChunkedDistanceMatrix.concat", "*"): "batchie.distance_calculation.ChunkedDistanceMatrix",
}


class Inst:
    __slots__ = ("rule", "site", "verdict", "detail", "facts")

    def __init__(self, rule, site, verdict, detail, facts=None):
        self.rule, self.site, self.verdict, self.detail, self.facts = rule, site, verdict, detail, facts or {}

    @property
    def key(self):
        return f"{self.rule}:{self.site}"

    def as_dict(self):
        d = {"rule": self.rule, "site": self.site, "verdict": self.verdict, "detail": self.detail}
        if self.facts:
            d["facts"] = self.facts
        return d


class Ctx:
    def __init__(self, prop, tier="quick", seed=0, repo=None, hints=True):
        self.prop = prop
        self.tier = tier
        self.seed = seed
        self.R: Repo = repo or get_repo()
        self._T = None
        self._Twide = None
        self.hints = hints
        self.insts = []
        self.notes = []
        self.undecided = []
        self.functions = set()

    @property
    def T(self) -> Types:
        if self._T is None:
            self._T = Types(self.R, RECEIVER_HINTS if self.hints else {})
        return self._T

    def fn(self, q):
        f = self.R.fn(q)
        self.functions.add(f.qname)
        return f

    def rid(self, r):
        forced = getattr(self, "_forced_rule", None)
        return f"{self.prop}.{forced or r}"

    def borrow(self, fn, as_rule, *args, **kw):
        """run a rule function of another property here: the clause it decides is also a necessary condition of this property.
        Every instance it records is filed under this property's rule `as_rule`."""
        prev = getattr(self, "_forced_rule", None)
        self._forced_rule = as_rule
        try:
            return fn(self, *args, **kw)
        finally:
            self._forced_rule = prev

    def ok(self, rule, site, detail="", **facts):
        self.insts.append(Inst(self.rid(rule), site, "holds", detail, facts))
        return True

    def bad(self, rule, site, detail, **facts):
        self.insts.append(Inst(self.rid(rule), site, "violated", detail, facts))
        return False

    def check(self, rule, site, cond, ok="", bad="", **facts):
        if cond:
            return self.ok(rule, site, ok, **facts)
        return self.bad(rule, site, bad or ("not: " + ok), **facts)

    def note(self, s):
        self.notes.append(s)

    def need(self, cond, msg):
        """structural precondition of a rule: failing it is an analysis error"""
        if not cond:
            raise AnalysisError(msg)

    def count(self, rule):
        return sum(1 for i in self.insts if i.rule == self.rid(rule))


def load_known():
    p = os.path.join(VERIF, "known_findings.json")
    if not os.path.exists(p):
        return {"known": [], "fixed": []}
    return json.load(open(p))


def finish(prop, tier, seed, t0, ctx, explanation, rule_texts, min_counts, trusted, extra_cov=None):
    """apply min-instance counts and known findings, write evidence, print verdict.
    Returns exit code."""
    for r, m in ([] if ctx.undecided else min_counts.items()):
        c = ctx.count(r)
        if any(i.verdict == "violated" and i.rule == ctx.rid(r) for i in ctx.insts):
            continue   # a violated instance may legitimately cut the rule's remaining instances short
        if c < m:
            raise AnalysisError(f"rule {prop}.{r} matched {c} instance(s), fewer than the {m} confirmed by hand - "
                                f"the rule would pass vacuously")
    known = {k["key"]: k for k in load_known().get("known", []) if k.get("property") == prop}
    viol = [i for i in ctx.insts if i.verdict == "violated"]
    new = [i for i in viol if i.key not in known]
    listed = [i for i in viol if i.key in known]
    holds = [i for i in ctx.insts if i.verdict == "holds"]
    OUT = os.environ.get("VERIF_OUT_DIR", VERIF)   # selftests redirect evidence/replay files of scratch runs
    os.makedirs(os.path.join(OUT, "evidence"), exist_ok=True)
    os.makedirs(os.path.join(OUT, "violations"), exist_ok=True)
    distinct = len({i.key for i in ctx.insts})
    per_rule = {}
    for i in ctx.insts:
        d = per_rule.setdefault(i.rule, {"instances": 0, "holds": 0, "violated": 0})
        d["instances"] += 1
        d[i.verdict] += 1
    samples = [i.as_dict() for i in (viol + holds)[:40]]
    cov = {
        "explanation": explanation,
        "evaluations": len(ctx.insts),
        "distinct_nontrivial": distinct,
        "rule": "one evaluation = one rule instance (rule id, construct found in the current tree); an instance is "
                "non-trivial iff the rule's pattern matched a concrete construct (site) in the parsed source; "
                "distinct = distinct (rule, site) pairs",
        "obligations": len(ctx.insts),
        "discharged": len(holds),
        "known_findings": len(listed),
        "rules": rule_texts,
        "per_rule": per_rule,
        "functions_analysed": sorted(ctx.functions),
        "modules_parsed": len(ctx.R.modules),
        "source_digest": ctx.R.digest(),
        "repo_root": ctx.R.root,
        "normalisation": {
            "functions_outside_baseline_table": list(getattr(ctx.R, "new_functions", [])),
            "helpers_spliced_into_callers": {k: v for k, v in getattr(ctx.R, "inlined", {}).items()},
            "helpers_absorbed": list(getattr(ctx.R, "absorbed", [])),
            "constant_table_loops_unrolled": dict(getattr(ctx.R, "unrolled", {})),
        },
        "samples": samples,
        "notes": ctx.notes,
        "undecided_rules": [{"rule_function": n, "reason": m} for n, m in ctx.undecided],
        "exhaustive": True,
        "checker_cmd": f"/venv/bin/python bin/check.py --property {prop} --tier {tier}",
        "trusted_base": trusted,
    }
    if extra_cov:
        cov.update(extra_cov)
    ev = {
        "property_id": prop, "tier": tier, "seed": seed, "level": "other", "coverage": cov,
        "assumptions": trusted, "wall_s": round(time.time() - t0, 3), "violations": len(new),
    }
    with open(os.path.join(OUT, "evidence", f"{prop}.json"), "w") as f:
        json.dump(ev, f, indent=1, default=str)
    print(f"[{prop}] tier={tier} instances={len(ctx.insts)} holds={len(holds)} violated={len(viol)} "
          f"(known={len(listed)}) functions={len(ctx.functions)} wall={ev['wall_s']}s")
    for r, d in sorted(per_rule.items()):
        print(f"   {r}: {d['instances']} instance(s), {d['holds']} hold")
    for i in listed:
        print(f"KNOWN-FINDING: property={prop} {i.key} -- {known[i.key].get('what', i.detail)}")
    for name, msg in ctx.undecided:
        print(f"UNDECIDED rule-function {prop}.{name}: {msg}")
    if ctx.undecided and not new:
        raise AnalysisError("; ".join(f"{n}: {m}" for n, m in ctx.undecided))
    if new:
        path = os.path.join(OUT, "violations", f"{prop}.json")
        with open(path, "w") as f:
            json.dump({"property": prop, "repo_root": ctx.R.root, "source_digest": ctx.R.digest(),
                       "violations": [i.as_dict() for i in new]}, f, indent=1, default=str)
        for i in new:
            print(f"  violated {i.key}: {i.detail}")
        print(f"VIOLATION property={prop} replay={path}")
        return 1
    return 0
