"""E1 - light flow-insensitive local type inference, call/property resolution
and the resolved call graph."""
import ast
import builtins
import collections

from .repo import Repo, Func

BUILTINS = set(dir(builtins))
COMPS = (ast.ListComp, ast.SetComp, ast.GeneratorExp, ast.DictComp)

# Type: ("inst", classq) | ("cls", classq) | ("list", T) | ("dict", K, V) |
#       ("tuple", [T..]) | ("mod", dotted) | ("ext", dotted) | ("func", q) |
#       ("bound", q) | ("union", [T..]) | None


class Types:
    def __init__(self, repo: Repo, receiver_hints=None):
        self.R = repo
        self._typers = {}
        self._ret = {}
        self._attr = {}
        # {(func qname, local name): class qname}
        self.hints = receiver_hints or {}
        self.props = collections.defaultdict(list)
        for q, f in repo.funcs.items():
            if f.is_property:
                self.props[f.name].append(q)

    # ------------------------------------------------------------ annotations
    def ann(self, mod, a):
        R = self.R
        if a is None:
            return None
        if isinstance(a, ast.Constant) and isinstance(a.value, str):
            try:
                a = ast.parse(a.value, mode="eval").body
            except Exception:
                return None
        if isinstance(a, ast.Name):
            q = R.chase(mod, a.id)
            if q in R.classes:
                return ("inst", q)
            return ("ext", q or a.id)
        if isinstance(a, ast.Attribute):
            return ("ext", ast.unparse(a))
        if isinstance(a, ast.Subscript):
            base = ast.unparse(a.value)
            sl = a.slice
            if base in ("list", "List", "Iterable", "Sequence"):
                return ("list", self.ann(mod, sl))
            if base in ("dict", "Dict") and isinstance(sl, ast.Tuple) and len(sl.elts) == 2:
                return ("dict", self.ann(mod, sl.elts[0]), self.ann(mod, sl.elts[1]))
            if base == "Optional":
                return self.ann(mod, sl)
            if base in ("Tuple", "tuple") and isinstance(sl, ast.Tuple):
                return ("tuple", [self.ann(mod, e) for e in sl.elts])
        if isinstance(a, ast.BinOp) and isinstance(a.op, ast.BitOr):
            return ("union", [self.ann(mod, a.left), self.ann(mod, a.right)])
        if isinstance(a, ast.Tuple):  # "-> (Screen, Screen)"
            return ("tuple", [self.ann(mod, e) for e in a.elts])
        return None

    # ------------------------------------------------------------ per-function
    def typer(self, fq):
        if fq not in self._typers:
            self._typers[fq] = None
            self._typers[fq] = FnTyper(self, self.R.funcs[fq])
        if self._typers[fq] is None:  # recursion guard
            return FnTyper(self, self.R.funcs[fq], empty=True)
        return self._typers[fq]

    def ret_types(self, fq):
        if fq in self._ret:
            return self._ret[fq]
        self._ret[fq] = []
        f = self.R.funcs[fq]
        t = self.ann(f.mod, f.node.returns)
        out = []
        if t and t[0] != "ext":
            out = [t] if t[0] != "union" else [x for x in t[1] if x]
        else:
            ty = self.typer(fq)
            for n in ast.walk(f.node):
                if isinstance(n, ast.Return) and n.value is not None:
                    for x in ty.etypes(n.value):
                        if x not in out:
                            out.append(x)
        self._ret[fq] = out
        return out

    def attr_types(self, cq, attr):
        key = (cq, attr)
        if key in self._attr:
            return self._attr[key]
        self._attr[key] = []
        out = []
        R = self.R
        for c in R.mro(cq):
            for q, f in R.funcs.items():
                if f.class_q != c:
                    continue
                ty = None
                for n in ast.walk(f.node):
                    if isinstance(n, (ast.Assign, ast.AnnAssign)):
                        tgts = n.targets if isinstance(n, ast.Assign) else [n.target]
                        for tg in tgts:
                            if (isinstance(tg, ast.Attribute) and tg.attr == attr
                                    and isinstance(tg.value, ast.Name) and tg.value.id == "self"):
                                if isinstance(n, ast.AnnAssign):
                                    t = self.ann(f.mod, n.annotation)
                                    if t and t not in out:
                                        out.append(t)
                                if n.value is not None:
                                    ty = ty or self.typer(q)
                                    for x in ty.etypes(n.value):
                                        if x not in out:
                                            out.append(x)
        self._attr[key] = out
        return out

    # ------------------------------------------------------------ call graph
    def resolve_calls(self, fq):
        """[(call node, [callee qnames], how)] for every call in function fq"""
        R = self.R
        f = R.funcs[fq]
        ty = self.typer(fq)
        res = []

        def typer_for(parents):
            t = ty
            for p in parents:
                if isinstance(p, COMPS):
                    t = FnTyperComp(t, p)
            return t

        def visit(n, parents):
            if isinstance(n, ast.Call):
                t = typer_for(parents)
                callees = []
                how = "?"
                fn = n.func
                for ft in t.etypes(fn):
                    if ft[0] == "cls":
                        init = R.lookup_method(ft[1], "__init__")
                        callees.append(init or ft[1] + ".<init>")
                        how = "ctor"
                    elif ft[0] in ("func", "bound"):
                        callees.append(ft[1])
                        how = "typed"
                    elif ft[0] == "mod":
                        how = "external"
                        callees.append("ext:" + ft[1])
                if not callees and isinstance(fn, ast.Attribute):
                    bts = t.etypes(fn.value)
                    if not [b for b in bts if b and b[0] in ("inst", "cls")]:
                        ext_recv = [b for b in bts if b and b[0] in ("mod", "ext")]
                        cands = R.methods_named(fn.attr)
                        dflt = self.hints.get((fq, "*"))
                        if dflt and cands:
                            # function-level hint: receivers of unknown type in this function are instances of `dflt`
                            fam = set(R.mro(dflt)) | set(R.subclasses(dflt)) | {dflt}
                            narrowed = [c for c in cands if R.funcs[c].class_q in fam] if all(c in R.funcs for c in cands) else cands
                            cands = narrowed or cands
                        if cands and not ext_recv:
                            callees = cands
                            how = "CHA-name"
                        else:
                            how = "external?"
                if not callees and isinstance(fn, ast.Name) and fn.id in BUILTINS:
                    how = "builtin"
                if how == "typed" and isinstance(fn, ast.Attribute):
                    extra = []
                    for bt in t.etypes(fn.value):
                        if bt and bt[0] == "inst":
                            for sc in R.subclasses(bt[1]):
                                m = R.lookup_method(sc, fn.attr)
                                if m and m not in callees and m not in extra:
                                    extra.append(m)
                    callees += extra
                res.append((n, callees, how))
            for c in ast.iter_child_nodes(n):
                if isinstance(c, (ast.FunctionDef, ast.AsyncFunctionDef, ast.ClassDef)) and c is not f.node:
                    continue
                visit(c, parents + [n])

        for st in f.node.body:
            if isinstance(st, (ast.FunctionDef, ast.AsyncFunctionDef, ast.ClassDef)):
                continue            # nested definitions are analysed where they are called
            visit(st, [])
        return res

    def edges(self, fq, with_props=True):
        """set of repo callee qnames (calls + @property loads)"""
        R = self.R
        out = {}
        for call, callees, how in self.resolve_calls(fq):
            for c in callees:
                if c in R.funcs:
                    out.setdefault(c, (how, call))
        if with_props:
            f = R.funcs[fq]
            ty = self.typer(fq)
            for n in ast.walk(f.node):
                if isinstance(n, ast.Attribute) and isinstance(n.ctx, ast.Load) and n.attr in self.props:
                    bts = ty.etypes(n.value)
                    cands = []
                    typed = False
                    for bt in bts:
                        if bt and bt[0] == "inst":
                            typed = True
                            for sc in R.subclasses(bt[1]):
                                m = R.lookup_method(sc, n.attr)
                                if m and R.funcs[m].is_property:
                                    cands.append(m)
                    if not typed:
                        cands = self.props[n.attr]
                    for c in cands:
                        out.setdefault(c, ("property", n))
        return out

    def reachable(self, roots, with_props=True):
        """closure; returns {qname: parent qname or None}"""
        parent = {}
        work = []
        for r in roots:
            if r not in parent:
                parent[r] = None
                work.append(r)
        while work:
            q = work.pop()
            for e in self.edges(q, with_props):
                if e not in parent:
                    parent[e] = q
                    work.append(e)
        return parent

    @staticmethod
    def chain(parent, q, limit=8):
        out = [q]
        while parent.get(out[-1]) and len(out) < limit:
            out.append(parent[out[-1]])
        return out


class FnTyper:
    def __init__(self, T: Types, f: Func, empty=False):
        self.T = T
        self.R = T.R
        self.f = f
        self.mod = f.mod
        self.env = collections.defaultdict(list)
        if empty:
            return
        a = f.node.args
        params = a.posonlyargs + a.args + a.kwonlyargs
        for i, p in enumerate(params):
            if i == 0 and f.cls and not f.is_static:
                self.env[p.arg].append(("cls" if f.is_classmethod else "inst", f"{f.mod}.{f.cls}"))
            else:
                t = T.ann(self.mod, p.annotation)
                if t:
                    self.env[p.arg].append(t)
        for (fq, name), cq in T.hints.items():
            if fq == f.qname:
                self.env[name].append(("inst", cq))
        for _ in range(3):
            for n in ast.walk(f.node):
                if isinstance(n, ast.Assign):
                    t = self.etype(n.value)
                    for tg in n.targets:
                        self.bind(tg, t)
                elif isinstance(n, ast.AnnAssign) and isinstance(n.target, ast.Name):
                    t = T.ann(self.mod, n.annotation)
                    if t is None or t[0] == "ext":
                        t = self.etype(n.value) if n.value else t
                    self.bind(n.target, t)
                elif isinstance(n, (ast.For, ast.comprehension)):
                    it = self.etype(n.iter)
                    self.bind(n.target, self.elem(it))
                elif isinstance(n, ast.With):
                    for it in n.items:
                        if it.optional_vars is not None:
                            self.bind(it.optional_vars, self.etype(it.context_expr))
                elif isinstance(n, ast.Expr) and isinstance(n.value, ast.Call) and isinstance(n.value.func, ast.Attribute) and isinstance(n.value.func.value, ast.Name) \
                        and n.value.func.attr in ("append", "extend", "insert") and n.value.args:
                    # L.append(x) / L.extend(xs): a list local grown in place holds what is put into it
                    L_ = n.value.func.value.id
                    a_ = n.value.args[-1]
                    t = self.etype(a_)
                    if n.value.func.attr == "extend":
                        t = self.elem(t) if t else None
                    if t is not None and L_ not in [p_.arg for p_ in params] and ("list", t) not in self.env[L_]:
                        self.env[L_].append(("list", t))

    def elem(self, it):
        if it is None:
            return None
        k = it[0]
        if k == "list":
            return it[1]
        if k == "enumerate":
            return ("tuple", [("ext", "int"), it[1]])
        if k == "zip":
            return ("tuple", it[1])
        if k == "dict":
            return it[1]
        if k == "dictitems":
            return ("tuple", [it[1], it[2]])
        if k == "inst" and it[1].endswith("ThetaHolder"):
            return ("inst", "batchie.core.Theta")
        if k == "union":
            for x in it[1]:
                e = self.elem(x)
                if e:
                    return e
        return None

    def bind(self, tg, t):
        if t is None:
            return
        if isinstance(tg, ast.Name):
            if t not in self.env[tg.id]:
                self.env[tg.id].append(t)
        elif isinstance(tg, (ast.Tuple, ast.List)) and t[0] == "tuple":
            for e, te in zip(tg.elts, t[1]):
                self.bind(e, te)

    def etype(self, e):
        ts = self.etypes(e)
        return ts[0] if len(ts) == 1 else (("union", ts) if ts else None)

    def etypes(self, e):
        R, T = self.R, self.T
        if e is None:
            return []
        if isinstance(e, ast.Name):
            if e.id in self.env and self.env[e.id]:
                out = []
                for t in self.env[e.id]:
                    out += (t[1] if t and t[0] == "union" else [t])
                return [t for t in out if t]
            q = R.chase(self.mod, e.id)
            if q in R.classes:
                return [("cls", q)]
            if q in R.funcs:
                return [("func", q)]
            if q:
                return [("mod", q)]
            return []
        if isinstance(e, ast.Attribute):
            out = []
            for bt in self.etypes(e.value):
                if bt[0] in ("inst", "cls"):
                    m = R.lookup_method(bt[1], e.attr)
                    if m:
                        fn = R.funcs[m]
                        if fn.is_property:
                            out += T.ret_types(m)
                        else:
                            out.append(("bound", m))
                    else:
                        at = T.attr_types(bt[1], e.attr)
                        if not at:
                            # method defined only in subclasses of the declared type
                            for sc in R.subclasses(bt[1]):
                                q = f"{sc}.{e.attr}"
                                if q in R.funcs and ("bound", q) not in out:
                                    if R.funcs[q].is_property:
                                        out += T.ret_types(q)
                                    else:
                                        out.append(("bound", q))
                        out += at
                elif bt[0] == "mod":
                    q = bt[1] + "." + e.attr
                    if bt[1] in R.modules:
                        qq = R.chase(bt[1], e.attr)
                        if qq in R.classes:
                            out.append(("cls", qq))
                        elif qq in R.funcs:
                            out.append(("func", qq))
                        else:
                            out.append(("mod", qq or q))
                    else:
                        out.append(("mod", q))
            return out
        if isinstance(e, ast.Call):
            out = []
            fn = e.func
            if isinstance(fn, ast.Name) and fn.id in ("sorted", "list", "reversed", "tuple") and e.args:
                return self.etypes(e.args[0])
            if isinstance(fn, ast.Name) and fn.id == "enumerate" and e.args:
                return [("enumerate", self.elem(self.etype(e.args[0])))]
            if isinstance(fn, ast.Name) and fn.id == "zip":
                return [("zip", [self.elem(self.etype(a)) for a in e.args])]
            if isinstance(fn, ast.Attribute) and fn.attr == "items":
                bt = self.etype(fn.value)
                if bt and bt[0] == "dict":
                    return [("dictitems", bt[1], bt[2])]
            if isinstance(fn, ast.Attribute) and fn.attr == "values":
                bt = self.etype(fn.value)
                if bt and bt[0] == "dict":
                    return [("list", bt[2])]
            if isinstance(fn, ast.Attribute) and fn.attr in ("tolist", "copy") and not e.args:
                r = self.etypes(fn.value)
                if r:
                    return r
            if isinstance(fn, ast.Attribute) and ast.unparse(fn) == "np.array_split" and e.args:
                return [("list", t) for t in self.etypes(e.args[0])]
            if isinstance(fn, ast.Attribute) and fn.attr == "choice" and e.args:
                t = self.etype(e.args[0])
                el = self.elem(t) if t else None
                if el:
                    return [el]
            for ft in self.etypes(fn):
                if ft[0] == "cls":
                    out.append(("inst", ft[1]))
                elif ft[0] in ("func", "bound"):
                    out += T.ret_types(ft[1])
            return out
        if isinstance(e, (ast.ListComp, ast.GeneratorExp, ast.SetComp)):
            sub = FnTyperComp(self, e)
            return [("list", sub.etype(e.elt))]
        if isinstance(e, ast.List):
            ts = [t for t in (self.etype(x) for x in e.elts) if t]
            return [("list", ts[0])] if ts else []
        if isinstance(e, ast.Dict):
            vs = [v for v in (self.etype(v) for v in e.values) if v]
            return [("dict", None, vs[0])] if vs else []
        if isinstance(e, ast.DictComp):
            sub = FnTyperComp(self, e)
            return [("dict", sub.etype(e.key), sub.etype(e.value))]
        if isinstance(e, ast.Subscript):
            out = []
            for bt in self.etypes(e.value):
                if bt[0] == "list":
                    if isinstance(e.slice, ast.Slice):
                        out.append(bt)
                    elif bt[1]:
                        out.append(bt[1])
                elif bt[0] == "dict" and bt[2]:
                    out.append(bt[2])
                elif (bt[0] == "tuple" and isinstance(e.slice, ast.Constant) and isinstance(e.slice.value, int)
                      and e.slice.value < len(bt[1]) and bt[1][e.slice.value]):
                    out.append(bt[1][e.slice.value])
            return out
        if isinstance(e, ast.BinOp) and isinstance(e.op, ast.Add):
            return self.etypes(e.left) or self.etypes(e.right)
        if isinstance(e, ast.IfExp):
            return self.etypes(e.body) + self.etypes(e.orelse)
        if isinstance(e, ast.Await):
            return self.etypes(e.value)
        return []


class FnTyperComp(FnTyper):
    def __init__(self, parent, comp):
        self.T = parent.T
        self.R = parent.R
        self.f = parent.f
        self.mod = parent.mod
        self.env = collections.defaultdict(list, {k: list(v) for k, v in parent.env.items()})
        for g in comp.generators:
            it = FnTyper.etype(self, g.iter)
            self.bind(g.target, self.elem(it))
