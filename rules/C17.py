"""C17 - sampling follows the burn-in/thinning schedule; each chain gets its own stream."""
import ast

from engine.astutil import U, calls, kwargs, single_defs, inline, walk_own, call_name, attr_tail, returns, enclosing_map, names_in, arg, inline_calls
from engine.cfg import CFG
from engine.norm import Norm, Poly, parse_expr
from engine.repo import AnalysisError
from .C18 import dotted

EXPLANATION = (
    "Static decision of C17 on sampling.sample: (R1) reset_model() and set_rng(rng) dominate the first step(); (R2) "
    "exactly one unconditional step() per iteration of a loop over n_burnin and per iteration of a loop over "
    "n_thetas*thin; (R3) the thinning predicate is in the family ((i + a) mod thin) == b and satisfies the congruence "
    "b - a + 1 + offset == 0 (mod thin), i.e. states are recorded after steps t, 2t, ... counted from the end of "
    "burn-in, and the recorded value is get_model_state() taken after that iteration's step; (R4) the generator is "
    "default_rng(SeedSequence(seed).spawn(n_chains)[chain_index]) built in this call - its backward slice is exactly "
    "{seed, n_chains, chain_index}; (R5) the variational arm asks for n_thetas samples once, outside any loop; (R6) no refusal fires "
    "because n_burnin or chain_index is 0 (three-valued evaluation of the guard of every raise under that hypothesis).")
RULES = {
    "R1": "order: reset_model() and set_rng(rng) dominate the first step()",
    "R2": "step counts: one unconditional step per iteration over n_burnin, then over results.n_thetas * thin",
    "R3": "thinning congruence b - a + 1 + offset == 0 (mod thin); recorded value is the state after the step of the same iteration",
    "R4": "stream derivation: default_rng(SeedSequence(seed).spawn(n_chains)[chain_index]); slice = {seed, n_chains, chain_index}",
    "R5": "VI arm: model.sample(num_samples=results.n_thetas) once, outside loops; every returned sample is added",
    "R7": "one model.step() is exactly one unconditional sweep (mcmc_step) of the wrapped sampler, in every MCMC model class",
    "R8": "set_rng stores the generator it is given, unconditionally, in the attribute the model's `rng` property reads, in every model class",
    "R6": "0 is a legal burn-in length and a legal chain index: no refusal of sample() fires because n_burnin / chain_index is 0",
}
MIN = {"R1": 2, "R2": 2, "R3": 2, "R4": 2, "R5": 1, "R6": 2, "R7": 1, "R8": 2}
TRUSTED = ["numpy SeedSequence.spawn yields independent child sequences; a fresh SeedSequence(seed) is a function of seed only",
           "tqdm.trange(n) iterates 0..n-1"]
TECHNIQUE = "dominance and loop-shape rules on the CFG, congruence check of the thinning predicate over the polynomial normal form, backward slice of the generator"
LEVEL_TEXT = ("The schedule is a property of the loop structure and one modular predicate; the congruence decides it for "
              "every (burn-in, thin, n) at once, where the test's single triple cannot distinguish 'after step 12' from 'after step 11'.")
LEVEL_NOTE = "Trusted: numpy SeedSequence/spawn semantics; trange(n) == range(n). Undecided: statistical non-overlap of spawned streams (numpy's guarantee)."


class _Case:
    def __init__(self, body):
        self.body = body


def case_body(f, cls_name):
    """statements executed for models of class `cls_name`: a `case Cls():` arm of the match statement, or the arm of an
    `if isinstance(model, Cls): ... elif ...` chain"""
    m = [n for n in walk_own(f.node) if isinstance(n, ast.Match)]
    if len(m) == 1:
        for c in m[0].cases:
            p = c.pattern
            if isinstance(p, ast.MatchClass) and U(p.cls) == cls_name:
                return c
        raise AnalysisError(f"sampling.sample: case {cls_name}() not found")
    model = f.params[0]
    for n in walk_own(f.node):
        if isinstance(n, ast.If) and U(n.test).replace(" ", "") == f"isinstance({model},{cls_name})":
            return _Case(n.body)
    # `if not isinstance(model, Cls): <leave>` followed by the statements for Cls (the engine's one shape for a two-armed `if` whose
    # other arm leaves)
    for owner in [f.node] + list(walk_own(f.node)):
        for fld in ("body", "orelse"):
            blk = getattr(owner, fld, None)
            if not (isinstance(blk, list) and blk and isinstance(blk[0], ast.stmt)):
                continue
            for i, n in enumerate(blk):
                if isinstance(n, ast.If) and not n.orelse and U(n.test).replace(" ", "") == f"notisinstance({model},{cls_name})" \
                        and isinstance(n.body[-1], (ast.Raise, ast.Return)):
                    return _Case(blk[i + 1:])
    raise AnalysisError(f"sampling.sample: neither `match {model}` with `case {cls_name}()` nor `isinstance({model}, {cls_name})` found")


def is_step(c, model):
    return isinstance(c, ast.Call) and U(c.func) == f"{model}.step" and not c.args


def loops_in(case):
    return [n for n in case.body if isinstance(n, (ast.For, ast.While))]


def loop_count(loop, env=None):
    """(iteration count expression, index variable name, start offset) of
    `for i in range(n)` / `trange(n, ...)` / `for i, _ in enumerate(trange(n), start=k)`; iterables may be named locals"""
    it = loop.iter
    if isinstance(it, ast.Name) and env and it.id in env:
        it = env[it.id]
    start = 0
    var = U(loop.target)
    if isinstance(it, ast.Call) and call_name(it) == "enumerate" and it.args:
        inner = it.args[0]
        if isinstance(inner, ast.Name) and env and inner.id in env:
            inner = env[inner.id]
        st = kwargs(it).get("start", it.args[1] if len(it.args) > 1 else None)
        if st is not None:
            if not (isinstance(st, ast.Constant) and isinstance(st.value, int)):
                return None
            start = st.value
        if not isinstance(loop.target, ast.Tuple):
            return None
        var = U(loop.target.elts[0])
        it = inner
    if isinstance(it, ast.Call) and call_name(it) in ("range", "trange", "tqdm.trange") and len(it.args) == 2 and isinstance(it.args[0], ast.Constant) and isinstance(it.args[0].value, int):
        # range(k, b): b - k iterations, the variable runs from k
        lo, hi = it.args
        return ast.BinOp(left=hi, op=ast.Sub(), right=lo), var, start + lo.value
    if isinstance(it, ast.Call) and call_name(it) in ("range", "trange", "tqdm.trange") and len(it.args) == 2 and start == 0 \
            and not any(isinstance(x, ast.Call) for x in ast.walk(it.args[0])):
        # range(lo, hi) with a symbolic lower bound: hi - lo iterations, the variable is (0-based index + lo)
        lo, hi = it.args
        if env:
            lo, hi = inline(lo, env), inline(hi, env)
        return ast.BinOp(left=hi, op=ast.Sub(), right=lo), var, lo
    if isinstance(it, ast.Call) and call_name(it) in ("range", "trange", "tqdm.trange", "tqdm.tqdm") and len(it.args) == 1:
        a = it.args[0]
        if call_name(it) == "tqdm.tqdm":
            if isinstance(a, ast.Call) and call_name(a) == "range" and len(a.args) == 1:
                a = a.args[0]
            else:
                return None
        return a, var, start
    return None


def order_before_first_step(ctx, f, model, mod, g):
    """R1: reset_model() and set_rng(..) run, unconditionally, before any step() of the chain (C18 runs this clause too: a generator that is
    installed only sometimes leaves the chain drawing from whatever generator the model object already carried)"""
    steps = [c for c in calls(mod) if is_step(c, model)]
    ctx.need(steps, "sampling.sample: no model.step() call in the MCMC arm")
    first = g.node_containing(steps[0])
    # the first step() in CFG order: all step nodes; R1 requires dominance over every step
    dom = g.dominators()
    step_nodes = [g.node_containing(c) for c in steps]
    step_loops = []
    par = enclosing_map(mod)
    for c in steps:
        n = c
        lp = None
        while n in par:
            n = par[n]
            if isinstance(n, (ast.For, ast.While)):
                lp = n
                break
        step_loops.append(lp)
    for name, pat in (("reset_model", f"{model}.reset_model()"), ("set_rng", None)):
        cs = [c for c in calls(mod) if U(c.func) == f"{model}.{name}"]
        ok = False
        if len(cs) >= 1:
            nodes = [g.node_containing(c) for c in cs]
            # dominance over the loop heads containing the steps
            targets = []
            for lp, sn in zip(step_loops, step_nodes):
                targets.append(g.nodes_of(lp)[0] if lp is not None else sn)
            ok = all(any(n in dom.get(t, ()) for n in nodes) for t in targets)
        ctx.check("R1", f"{f.site()}::{name}-before-first-step", ok, f"{model}.{name}(...) dominates every step()",
                  f"a step() can run before {model}.{name}(...): the chain would start from a stale state / an unset generator")


def r1_order(ctx):
    r_all(ctx, only_order=True)


def r_all(ctx, only_order=False):
    f = ctx.fn("sampling.sample")
    model, results = f.params[0], f.params[1]
    case = case_body(f, "MCMCModel")
    mod = ast.Module(body=case.body, type_ignores=[])
    fn = ast.FunctionDef(name="_case", args=f.node.args, body=case.body, decorator_list=[], returns=None, type_params=[])
    ast.fix_missing_locations(fn)
    g = CFG(fn)
    env = {}
    for n in case.body:
        if isinstance(n, ast.Assign) and len(n.targets) == 1 and isinstance(n.targets[0], ast.Name):
            env[n.targets[0].id] = n.value
    order_before_first_step(ctx, f, model, mod, g)
    if only_order:
        return
    steps = [c for c in calls(mod) if is_step(c, model)]
    first = g.node_containing(steps[0])
    par = enclosing_map(mod)
    # ---- R2 / R3: loop shapes
    N = Norm(strict=False, env=env)
    lps = [lp for lp in loops_in(case) if any(is_step(c, model) for c in calls(lp))]
    want_burn = N.n(parse_expr("n_burnin"))
    want_main = N.n(parse_expr(f"{results}.n_thetas * thin"))
    offset = Poly()
    start = 0
    if len(lps) == 2:
        lc0, lc1 = loop_count(lps[0], env), loop_count(lps[1], env)
        ctx.need(lc0 is not None and lc1 is not None, "sampling.sample: loop bounds are not range/trange(n)")
        c0, c1 = lc0[0], lc1[0]
        iv_main, start = lc1[1], lc1[2]
        ctx.check("R2", f"{f.site()}::burn-in-loop", N.n(c0) == want_burn and one_unconditional_step(lps[0], model),
                  "one unconditional step per iteration of a loop over n_burnin",
                  f"burn-in loop runs `{U(c0)}` iterations / does not step exactly once per iteration")
        ctx.check("R2", f"{f.site()}::sampling-loop", N.n(c1) == want_main and one_unconditional_step(lps[1], model),
                  "one unconditional step per iteration of a loop over n_thetas * thin",
                  f"sampling loop runs `{U(inline(c1, env))}` iterations / does not step exactly once per iteration")
        main = lps[1]
    elif len(lps) == 1:
        lc = loop_count(lps[0], env)
        ctx.need(lc is not None, "sampling.sample: loop bound is not range/trange(n)")
        c, iv_main, start = lc
        ctx.check("R2", f"{f.site()}::merged-loop", N.n(c) == want_burn + want_main and one_unconditional_step(lps[0], model),
                  "one unconditional step per iteration of a single loop over n_burnin + n_thetas * thin",
                  f"loop runs `{U(inline(c, env))}` iterations / does not step exactly once per iteration")
        ctx.ok("R2", f"{f.site()}::merged-loop-shape", "burn-in and sampling share one loop (offset = n_burnin)")
        main = lps[0]
        offset = want_burn
    else:
        raise AnalysisError(f"sampling.sample: expected one or two stepping loops in the MCMC arm, found {len(lps)}")
    # ---- R3 thinning predicate
    iv = iv_main
    fsd = single_defs(f.node)        # loop-carried names (re-bound or augmented elsewhere) are not definitions to read through
    in_main = {}
    for n in walk_own(main):
        if isinstance(n, (ast.Assign, ast.AugAssign, ast.For)):
            for t_ in (n.targets if isinstance(n, ast.Assign) else [n.target]):
                for x in ast.walk(t_):
                    if isinstance(x, ast.Name):
                        in_main[x.id] = in_main.get(x.id, 0) + 1
    lenv_main = {n.targets[0].id: n.value for n in walk_own(main) if isinstance(n, ast.Assign) and len(n.targets) == 1 and isinstance(n.targets[0], ast.Name)
                 and (n.targets[0].id in fsd or in_main.get(n.targets[0].id) == 1) and n.targets[0].id not in names_in(n.value)}
    adds = [c for c in calls(main, tail="add_theta")]
    ctx.need(len(adds) == 1, "sampling.sample: results.add_theta(...) not found in the sampling loop")
    add = adds[0]
    n = add
    conds = []
    while n in par and par[n] is not main:
        p = par[n]
        if isinstance(p, ast.If):
            if any(n is b for b in p.body):
                conds.append((p.test, False))
            else:
                conds.append((p.test, True))
        n = p
    # earlier `if <cond>: continue` statements in the loop body also guard the recording
    for st in main.body:
        if isinstance(st, ast.If) and any(isinstance(x, ast.Continue) for x in st.body) and st.lineno < add.lineno:
            conds.append((st.test, True))
    mods = []
    burn_skip_ok = offset.is_zero()
    conds = [(inline(t, lenv_main), neg) for t, neg in conds]
    norm_conds = []
    for t, neg in conds:
        while isinstance(t, ast.UnaryOp) and isinstance(t.op, ast.Not):
            t, neg = t.operand, not neg
        if isinstance(t, ast.BoolOp) and isinstance(t.op, ast.And) and not neg:
            norm_conds += [(v_, False) for v_ in t.values]        # the recording runs when every conjunct holds
        elif isinstance(t, ast.BoolOp) and isinstance(t.op, ast.Or) and neg:
            norm_conds += [(v_, True) for v_ in t.values]         # .. when no disjunct of a skipping test holds
        else:
            norm_conds.append((t, neg))
    conds = []
    for t, neg in norm_conds:
        while isinstance(t, ast.UnaryOp) and isinstance(t.op, ast.Not):
            t, neg = t.operand, not neg
        conds.append((t, neg))
    for t, negated in conds:
        form = modular_form(t, iv, N, negated)
        if form is None:
            form = counter_form(f, main, add, t, negated, N)
        if form is not None:
            mods.append(form)
            continue
        # burn-in skip in the merged form: `i < n_burnin` negated / `i >= n_burnin`
        b = N.b(t, neg=negated, integer=True)
        if b == N.b(parse_expr(f"{iv} >= n_burnin + ({start if isinstance(start, int) else U(start)})"), integer=True):        # the loop variable is (0-based index + start)
            burn_skip_ok = True
            continue
        raise AnalysisError(f"sampling.sample: recording is guarded by an unrecognised condition `{U(t)}`")
    ctx.need(len(mods) == 1, f"sampling.sample: expected exactly one modular thinning predicate, found {len(mods)}")
    a, b, t = mods[0]
    thin = N.n(parse_expr("thin"))
    a = a + (Poly.const(start) if isinstance(start, int) else N.n(start))          # the loop variable is (0-based index + start)
    cong = b - a + Poly.const(1) + offset
    ok = t == thin and (cong.is_zero() or cong == thin or cong == -thin) and burn_skip_ok
    ctx.check("R3", f"{f.site()}::thinning-congruence", ok,
              f"((i + {a}) mod thin) == {b} with offset {offset}: b - a + 1 + offset == 0 (mod thin)",
              f"thinning predicate ((i + {a}) mod {t}) == {b} with offset {offset}: b - a + 1 + offset = {cong} is not a multiple of thin, so "
              f"the recorded states are not those after steps t, 2t, ... counted from the end of burn-in")
    # recorded value: get_model_state() after the step of the same iteration
    argv = inline(add.args[0], lenv_main) if add.args else None
    st_calls = [c for c in calls(main) if is_step(c, model)]
    after = argv is not None and U(argv) == f"{model}.get_model_state()" and U(add.func.value) == results and all(
        (s.lineno, s.col_offset) < (add.lineno, add.col_offset) for s in st_calls)
    ctx.check("R3", f"{f.site()}::records-state-after-step", after, "records model.get_model_state() after the step of the same iteration",
              f"recorded value `{U(argv)}` is not the model state taken after this iteration's step")
    # ---- R4 stream derivation
    sr = [c for c in calls(mod) if U(c.func) == f"{model}.set_rng"]
    ctx.need(len(sr) == 1, "sampling.sample: set_rng call not found")
    R = ctx.R
    e = inline_calls(inline(sr[0].args[0], env), R, f.mod)
    shape_ok = False
    detail = U(e)
    # numpy documents default_rng(seed) as Generator(PCG64(seed)) (a SeedSequence is handed to the bit generator unchanged): one spelling
    if isinstance(e, ast.Call) and dotted(R, f.mod, e.func) == "numpy.random.Generator" and len(e.args) == 1 and not e.keywords \
            and isinstance(e.args[0], ast.Call) and dotted(R, f.mod, e.args[0].func) == "numpy.random.PCG64" and len(e.args[0].args) == 1 and not e.args[0].keywords:
        e = ast.Call(func=parse_expr("numpy.random.default_rng"), args=[e.args[0].args[0]], keywords=[])
    if isinstance(e, ast.Call) and dotted(R, f.mod, e.func) in ("numpy.random.default_rng",) and len(e.args) == 1 and not e.keywords:
        s = e.args[0]
        if isinstance(s, ast.Subscript) and U(s.slice) == "chain_index" and isinstance(s.value, ast.Call) and attr_tail(s.value) == "spawn" \
                and [U(x) for x in s.value.args] == ["n_chains"]:
            root = s.value.func.value
            if isinstance(root, ast.Call) and dotted(R, f.mod, root.func) == "numpy.random.SeedSequence" and [U(x) for x in root.args] == ["seed"] and not root.keywords:
                shape_ok = True
    ctx.check("R4", f"{f.site()}::generator-form", shape_ok, "default_rng(SeedSequence(seed).spawn(n_chains)[chain_index]), all built inside this call",
              f"the per-chain generator is `{detail[:110]}`, not default_rng(SeedSequence(seed).spawn(n_chains)[chain_index]) constructed here "
              f"(a shared/cached SeedSequence is stateful under spawn; another form may give equal or overlapping streams)")
    # (names of the function's own: parameters and locals; imported names - numpy, or SeedSequence / default_rng imported directly - are not data)
    own_names = set(f.params) | {x.id for x in ast.walk(f.node) if isinstance(x, ast.Name) and isinstance(x.ctx, ast.Store)}
    sl = {x for x in names_in(e) if x in own_names}
    ctx.check("R4", f"{f.site()}::generator-slice", sl == {"seed", "n_chains", "chain_index"}, "backward slice of the generator is {seed, n_chains, chain_index}",
              f"the generator depends on {sorted(sl)}")


def one_unconditional_step(loop, model):
    """exactly one step() per iteration: a top-level statement of the loop body, not under if/try/inner loop, no continue/break before it"""
    top = [st for st in loop.body if isinstance(st, ast.Expr) and is_step(st.value, model)]
    allsteps = [c for c in calls(loop) if is_step(c, model)]
    if len(top) != 1 or len(allsteps) != 1:
        return False
    for st in loop.body:
        if st is top[0]:
            break
        if any(isinstance(x, (ast.Continue, ast.Break, ast.Return)) for x in ast.walk(st)):
            return False
    return True


def counter_form(f, main, add, t, negated, N):
    """a countdown / count-up counter that records every thin-th step:
         c = thin ; loop: step; c -= 1; if c != 0: continue; record; c = thin
         c = 0    ; loop: step; c += 1; if c == thin: record; c = 0
       is the predicate ((i + 1) mod thin) == 0 on the 0-based iteration index -> (a, b, m) = (1, 0, thin); None if not this idiom"""
    names = [x.id for x in ast.walk(t) if isinstance(x, ast.Name)]
    cands = [n for n in names if n != "thin"]
    if len(set(cands)) != 1:
        return None
    c = cands[0]
    body = main.body
    augs = [st for st in walk_own(main) if isinstance(st, ast.AugAssign) and isinstance(st.target, ast.Name) and st.target.id == c]
    if len(augs) != 1 or augs[0] not in body or U(augs[0].value) != "1" or not isinstance(augs[0].op, (ast.Add, ast.Sub)):
        return None        # exactly one unconditional +-1 per iteration
    down = isinstance(augs[0].op, ast.Sub)
    if augs[0].lineno > add.lineno:
        return None
    inits = [n for n in walk_own(f.node) if isinstance(n, ast.Assign) and len(n.targets) == 1 and U(n.targets[0]) == c and n not in list(walk_own(main))]
    rearm = [n for n in walk_own(main) if isinstance(n, ast.Assign) and len(n.targets) == 1 and U(n.targets[0]) == c]
    if len(inits) != 1 or len(rearm) != 1 or inits[0].lineno > main.lineno:
        return None
    start_v, rearm_v = U(inits[0].value), U(rearm[0].value)
    want_v = "thin" if down else "0"
    if start_v != want_v or rearm_v != want_v:
        return None
    # the re-arm happens on the recording path: same statement list as the add_theta statement
    par = enclosing_map(main)
    st_add = add
    while st_add in par and not isinstance(st_add, ast.stmt):
        st_add = par[st_add]
    if par.get(rearm[0]) is not par.get(st_add):
        return None
    b_rec = N.b(t, neg=negated, integer=True)
    # after normalising polarity the recording condition must be c == 0 (countdown) / c == thin (count-up); `negated` here means
    # "the recording runs when the test is FALSE" was already folded in by the caller's convention: try both readings
    want = N.b(parse_expr(f"{c} == 0" if down else f"{c} == thin"), integer=True)
    alt = N.b(parse_expr(f"{c} <= 0" if down else f"{c} >= thin"), integer=True)
    if b_rec in (want, alt) or N.b(t, neg=not negated, integer=True) in (negate_b(want),):
        return Poly.const(1), Poly(), N.n(parse_expr("thin"))
    return None


def negate_b(b):
    from engine.norm import negate
    return negate(b)


def modular_form(t, iv, N, negated=False):
    """recognise ((iv + a) % m) == b -> (a, b, m) as polynomials; None if not of that family"""
    # truthiness of a remainder: `x % m` holds iff x % m != 0
    if isinstance(t, ast.BinOp) and isinstance(t.op, ast.Mod):
        t = ast.Compare(left=t, ops=[ast.NotEq()], comparators=[ast.Constant(value=0)])
    if isinstance(t, ast.Compare) and len(t.ops) == 1 and isinstance(t.ops[0], ast.NotEq) and negated:
        t = ast.Compare(left=t.left, ops=[ast.Eq()], comparators=t.comparators)
        negated = False
    if negated:
        return None
    if not (isinstance(t, ast.Compare) and len(t.ops) == 1 and isinstance(t.ops[0], ast.Eq)):
        return None
    l, r = t.left, t.comparators[0]
    if not (isinstance(l, ast.BinOp) and isinstance(l.op, ast.Mod)):
        l, r = r, l
    if not (isinstance(l, ast.BinOp) and isinstance(l.op, ast.Mod)):
        return None
    inner = N.n(l.left)
    i = Poly.atom(("var", iv))
    a = inner - i
    if a.mentions(lambda x: x == ("var", iv)):
        return None
    return a, N.n(r), N.n(l.right)


def delegate(ctx, f, case, model, results):
    """if the arm only delegates to one repository helper that receives the model and the holder, analyse the helper's
    body instead (with its own parameter names)"""
    body = [st for st in case.body if not (isinstance(st, ast.Expr) and isinstance(st.value, ast.Constant))]
    cs = [c for st in body for c in calls(st) if isinstance(c.func, ast.Name) and ctx.R.chase(f.mod, c.func.id) in ctx.R.funcs]
    own = [c for st in body for c in calls(st) if U(c.func).startswith(model + ".")]
    if own or len(cs) != 1:
        return case, model, results
    h = ctx.R.funcs[ctx.R.chase(f.mod, cs[0].func.id)]
    names = {}
    for p, a in zip(h.params, cs[0].args):
        names[U(a)] = p
    for k in cs[0].keywords:
        names[U(k.value)] = k.arg
    if model in names and results in names:
        ctx.functions.add(h.qname)
        return _Case(h.node.body), names[model], names[results]
    return case, model, results


def r5(ctx):
    f = ctx.fn("sampling.sample")
    model, results = f.params[0], f.params[1]
    case = case_body(f, "VIModel")
    case, model, results = delegate(ctx, f, case, model, results)
    mod = ast.Module(body=case.body, type_ignores=[])
    sc = [c for c in calls(mod) if U(c.func) == f"{model}.sample"]
    par = enclosing_map(mod)
    env = {n.targets[0].id: n.value for n in case.body if isinstance(n, ast.Assign) and len(n.targets) == 1 and isinstance(n.targets[0], ast.Name)}
    in_loop = False
    for c in sc:
        n = c
        while n in par:
            child, n = n, par[n]
            if isinstance(n, (ast.For, ast.While)) and not (isinstance(n, ast.For) and n.iter is child):
                in_loop = True      # evaluated once per iteration (the iterable expression itself is evaluated once)
    good = len(sc) == 1 and not in_loop
    if good:
        a = arg(sc[0], 0, "num_samples")
        good = a is not None and U(inline(a, env)) == f"{results}.n_thetas"
    # every returned sample is added
    added = False
    if good:
        tgt = [n for n in case.body if isinstance(n, ast.Assign) and n.value is sc[0]]
        sv = U(tgt[0].targets[0]) if tgt else None
        for lp in [n for n in case.body if isinstance(n, ast.For) and (U(n.iter) == sv or n.iter is sc[0])]:
            ad = [c for c in calls(lp, tail="add_theta")]
            added = len(ad) == 1 and U(ad[0].args[0]) == U(lp.target) and len(lp.body) == 1 and U(ad[0].func.value) == results
    ctx.check("R5", f"{f.site()}::vi-arm", good and added, "model.sample(num_samples=results.n_thetas) once; every returned sample added",
              "the variational arm does not request results.n_thetas samples in a single call and add each of them")


def r6(ctx):
    """The schedule holds for every b >= 0 and chain 0 exists: a `must be set` refusal written as a truthiness test (`if not n_burnin`)
    refuses the legal value 0.  Every raise of sample() whose innermost guard mentions one of the two parameters is evaluated,
    three-valued, under `that parameter is 0`; a guard that is definitely true then is reported."""
    from engine.astutil import stmt_conditions
    from .common import truth3
    f = ctx.fn("sampling.sample")
    conds = stmt_conditions(f.node.body)
    raises = [n for n in walk_own(f.node) if isinstance(n, ast.Raise)]
    ctx.need(len(raises) >= 1, f"{f.site()}: the refusals of sample() were not found")
    for P in ("n_burnin", "chain_index"):
        ctx.need(P in f.params, f"{f.site()}: parameter `{P}` not found")
        bad, seen = None, 0
        for r in raises:
            cs = conds.get(id(r))
            if not cs:
                continue
            mine = [(t, pol) for t, pol in cs if P in names_in(t)]
            if not mine or P not in names_in(cs[-1][0]):
                continue
            seen += 1
            vals = []
            for t, pol in mine:
                v = truth3(t, {P})
                vals.append(None if v is None else (v if pol else not v))
            if all(v is True for v in vals):
                bad = (r, cs[-1][0])
        ctx.check("R6", f"{f.site()}::{P}=0-accepted", bad is None, f"no refusal fires for {P} = 0 ({seen} guard(s) on `{P}` evaluated)",
                  f"the refusal guarded by `{U(bad[1]) if bad else ''}` fires for {P} = 0, a legal value" +
                  (": a chain without burn-in cannot be sampled" if P == "n_burnin" else ": the first chain cannot be sampled"))


def r7(ctx):
    """`n` recorded states after b + n*t steps presupposes that one `model.step()` is one sweep of the sampler: in every MCMC model of
    the repository `step` performs exactly one unconditional `<impl>.mcmc_step()` (no loop, no condition, nothing skipped or repeated)"""
    R = ctx.R
    n = 0
    for cq in sorted(R.classes):
        if not any(k.endswith(".MCMCModel") for k in R.mro(cq)) or cq.endswith(".MCMCModel"):
            continue
        q = f"{cq}.step"
        if q not in R.funcs:
            continue
        f = ctx.fn(q)
        n += 1
        body = [st for st in f.node.body if not (isinstance(st, ast.Expr) and isinstance(st.value, ast.Constant))]
        sweeps = [c for c in calls(f.node) if isinstance(c.func, ast.Attribute) and c.func.attr in ("mcmc_step", "step")]
        top = [st for st in body if isinstance(st, ast.Expr) and isinstance(st.value, ast.Call) and st.value in sweeps]
        if not sweeps:
            raise AnalysisError(f"{f.site()}: step() does not delegate to a sampler sweep (`mcmc_step`); what one step does is not visible to this rule")
        ok = len(sweeps) == 1 and len(top) == 1 and not any(isinstance(x, (ast.For, ast.While, ast.If, ast.Try, ast.Return)) for x in walk_own(f.node))
        ctx.check("R7", f"{f.site()}::one-sweep-per-step", ok, "step() is exactly one unconditional sweep of the wrapped sampler",
                  f"step() performs {len(sweeps)} sweep call(s), {len(top)} of them unconditional at the top level: the chain advances by another number of sweeps per "
                  f"recorded step than the schedule assumes")
    ctx.need(n >= 1, "no MCMC model with a step() method found")


def r8(ctx):
    """`the generator handed to the model depends only on (seed, chains, index)` ends at the model's setter: sample() calls
    model.set_rng(rng) after reset_model(), and a setter that keeps an earlier generator (`if self._rng is None: ...`) makes the draws
    depend on the construction-time generator / the previous run instead.  Every concrete set_rng is exactly one unconditional store
    of its parameter into an attribute of self, and the class's `rng` property (where defined) returns that attribute."""
    R = ctx.R
    n = 0
    for cq in sorted(R.classes):
        q = f"{cq}.set_rng"
        if q not in R.funcs:
            continue
        f = ctx.fn(q)
        body = [st for st in f.node.body if not (isinstance(st, ast.Expr) and isinstance(st.value, ast.Constant))]
        if len(body) == 1 and isinstance(body[0], ast.Raise):
            continue
        n += 1
        ctx.need(len(f.params) >= 2, f"{f.site()}: set_rng takes no generator")
        P = f.params[1]
        stores = [st for st in walk_own(f.node) if isinstance(st, (ast.Assign, ast.AnnAssign)) and
                  any(isinstance(t, ast.Attribute) and U(t.value) == "self" for t in (st.targets if isinstance(st, ast.Assign) else [st.target]))]
        direct = [st for st in stores if st.value is not None and U(st.value) == P]
        if not direct:
            dele = [c for c in calls(f.node) if any(U(a) == P for a in c.args)]
            if dele:
                raise AnalysisError(f"{f.site()}: the generator is passed on ({U(dele[0])[:60]}) rather than stored; not followed by this rule")
            ctx.bad("R8", f"{f.site()}::stores-the-given-generator", f"set_rng never stores its parameter `{P}`: the model keeps drawing from whatever generator it had")
            continue
        top = [st for st in direct if st in body]
        branchy = any(isinstance(x, (ast.If, ast.Try, ast.Return, ast.For, ast.While, ast.IfExp)) for x in walk_own(f.node))
        attr = U(direct[0].targets[0] if isinstance(direct[0], ast.Assign) else direct[0].target)
        ok = len(direct) == 1 and len(top) == 1 and not branchy
        if not ok and len(top) == 1 and body.index(top[0]) == len(body) - 1 and not any(isinstance(x, ast.Return) for x in walk_own(f.node)):
            ok = True       # whatever precedes, the last top-level statement stores the parameter on every path
        ctx.check("R8", f"{f.site()}::stores-the-given-generator", ok, f"`{attr} = {P}` is the unconditional effect of set_rng",
                  f"`{attr} = {P}` is conditional in set_rng: when the condition fails the model keeps its earlier generator and the draws no longer depend on "
                  f"(seed, n_chains, chain_index) alone")
        pq = f"{cq}.rng"
        if pq in R.funcs:
            g = ctx.fn(pq)
            rets = returns(g.node)
            ctx.check("R8", f"{g.site()}::reads-what-set_rng-stored", len(rets) == 1 and U(rets[0].value) == attr,
                      f"the `rng` property returns {attr}", f"the `rng` property returns {[U(r.value) for r in rets]}, not {attr} stored by set_rng")
    ctx.need(n >= 2, "fewer than two concrete set_rng methods found")


RULE_FUNCS = [r_all, r5, r6, r7, r8]


def run(ctx):
    for fn in RULE_FUNCS:
        fn(ctx)


def _rep(a, b):
    def edit(t):
        if a not in t:
            raise KeyError(a[:40])
        return t.replace(a, b, 1)
    return edit


WITNESSES = [
    ("set_rng keeps an earlier generator", "batchie.models.sparse_combo",
     _rep("    def set_rng(self, rng: np.random.Generator):\n        self._rng = rng\n", "    def set_rng(self, rng: np.random.Generator):\n        if self._rng is None:\n            self._rng = rng\n"), ["R8"]),
    ("burn-in of 0 refused", "batchie.sampling", _rep("            if n_burnin is None:", "            if not n_burnin:"), ["R6"]),
    ("thinning counted from index", "batchie.sampling", _rep("if ((step_index + 1) % thin) == 0:", "if (step_index % thin) == 0:"), ["R3"]),
    ("every chain seeded identically", "batchie.sampling", _rep("rng = numpy.random.default_rng(seeds[chain_index])", "rng = numpy.random.default_rng(seed)"), ["R4"]),
    ("set_rng after burn-in", "batchie.sampling",
     lambda t: t.replace("            model.set_rng(rng)\n\n            logger.info(", "            logger.info(", 1).replace("            total_steps = results.n_thetas * thin", "            model.set_rng(rng)\n            total_steps = results.n_thetas * thin", 1), ["R1"]),
    ("burn-in one short", "batchie.sampling", _rep("for _ in trange(n_burnin, disable=not progress_bar):", "for _ in trange(n_burnin - 1, disable=not progress_bar):"), ["R2"]),
    ("state recorded before the step", "batchie.sampling",
     _rep("                model.step()\n                if ((step_index + 1) % thin) == 0:\n                    results.add_theta(model.get_model_state())", "                if ((step_index + 1) % thin) == 0:\n                    results.add_theta(model.get_model_state())\n                model.step()"), ["R3"]),
    ("VI arm samples in a loop", "batchie.sampling",
     _rep("            samples = model.sample(num_samples=results.n_thetas)", "            samples = [model.sample(num_samples=1)[0] for _ in range(results.n_thetas)]"), ["R5"]),
]
