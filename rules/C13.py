"""C13 - generated, smoothed and initial plates satisfy their documented shape guarantees."""
import ast

from engine.astutil import U, calls, kwargs, single_defs, inline, walk_own, call_name, attr_tail, returns, enclosing_map, names_in, arg, argv
from engine.cfg import CFG
from engine.norm import Norm, Poly, parse_expr
from engine.repo import AnalysisError
from . import common, C03, C04

EXPLANATION = (
    "Per-clause shape rules for C13, decided on the source for all inputs and draws: (R1) in the sample-segregating "
    "generator every path through the per-sample loop assigns that sample's rows to plates, the number of chunks is "
    "ceil(len/max_plate_size), and plate labels are an injective function of one running index; (R2) the pairwise "
    "generator's plate key contains the sample id and single-agent rows are assigned among plates of the same sample; "
    "(R3) merge smoothers only merge plates taken from a list filtered to one sample (through a helper that refuses "
    "multi-sample plates), min-merge pops the two heap minima under a size ordering and stops on the documented "
    "threshold, top-bottom pairs floor(n/2) smallest with largest; (R4) fixed/optimal-size smoothing handles <, ==, > "
    "exhaustively (drop / keep / subsample to the target without replacement) and the optimal size maximises "
    "size x number-of-plates-at-least-that-size; (R5) no id crosses a re-encoding boundary in the preparation code; "
    "(R6) the sparse cover appends a row of every sample on both arms and loops until no treatment is uncovered; "
    "(R7) the combination filter's reference rows are the rows without any control.")
RULES = {
    "R1": "sample-segregating generator: every sample assigned on every path; chunks = ceil(len/max); injective labels",
    "R2": "pairwise generator: plate key contains the sample; single-agent rows stay within their sample's plates",
    "R3": "merge smoothers: operands from one sample's list; helper refuses multi-sample plates; heap minima; stop threshold; top-bottom pairing",
    "R4": "fixed/optimal size: exhaustive three-way comparison; subsample size=target, replace=False; optimal size = argmax(size * #plates >= size)",
    "R5": "id-scope typestate over the preparation module",
    "R6": "sparse cover: a row of every sample on both arms; while-loop exits only when nothing is uncovered; labels and mask from one vector",
    "R7": "combination filter: reference rows are the rows with no control column",
    "R8": "the derived screen attributes this property's code relies on (size, unique_sample_ids, n_unique_samples, unique_plate_ids) have their documented definitions in ScreenBase and every override",
    "R9": "the view algebra this property's code relies on: plates = one view per unique plate id, get_plate = the rows with that id, subset_(un)observed, combine / concat as unions over one parent (C14.R3 run here)",
    "R11": "the per-sample minimum smoother keeps exactly the rows of the samples it does not drop: each narrowing is acc AND (sample_ids != dropped id) under count < min_n_cell_line_plates (operator precedence of & against != is reported)",
    "R10": "constructor options are live: every attribute the constructor binds from a parameter is read by a method of the class",
}
MIN = {"R1": 4, "R2": 3, "R3": 8, "R4": 6, "R5": 2, "R6": 4, "R7": 2, "R8": 4, "R9": 8, "R10": 1, "R11": 1}
TRUSTED = ["np.array_split(v, n) returns n pieces whose sizes differ by at most one and partition v", "heapq pops the minimum under __lt__",
           "lemma: ceil(L / ceil(L/m)) <= m for integers L >= 1, m >= 1"]
TECHNIQUE = "must-pass-through on the CFG, def-use slices, relational normal forms of the size comparisons, id-scope typestate"
LEVEL_TEXT = ("Each post-condition is reduced to a shape condition on the code that holds for every input and random draw: "
              "e.g. 'every sample gets plates' is a must-pass-through on the per-sample loop body - the rule that exposed the "
              "multi-sample plate defect the single-fixture test cannot see.")
LEVEL_NOTE = ("Trusted: np.array_split / heapq contracts and the ceil lemma. Undecided: optimality beyond the argmax form; "
              "post-conditions as runtime facts; algorithm replacements outside the enumerated idioms are reported as undecided.")

RETRO = "batchie.retrospective"


def r1(ctx):
    f = ctx.fn(f"{RETRO}.SampleSegregatingPermutationPlateGenerator._generate_plates")
    S = f.params[1]
    g = CFG(f.node)
    loops = [n for n in walk_own(f.node) if isinstance(n, ast.For) and U(n.iter) == f"{S}.unique_sample_ids"]
    ctx.need(len(loops) == 1, f"{f.site()}: per-sample loop not found")
    loop = loops[0]
    sid = U(loop.target)
    apps = [c for c in calls(loop, tail="append")] + [c for c in calls(loop, tail="extend") if c.args and isinstance(c.args[0], ast.Call) and call_name(c.args[0]) == "np.array_split"]
    direct = [n for n in walk_own(loop) if isinstance(n, ast.Assign) and isinstance(n.targets[0], ast.Subscript) and isinstance(n.value, (ast.JoinedStr, ast.Call, ast.BinOp))
              and "name" in U(n.targets[0].value)]
    ctx.need(apps or direct, f"{f.site()}: neither a plate-list append nor a direct label store found in the per-sample loop")
    acc = U(apps[0].func.value) if apps else None
    lnode = g.nodes_of(loop)[0]
    body_in = [n for n in g.nodes if n.kind == "branch" and n.label == "body" and n.stmt is loop][0]
    effects = apps if apps else direct
    eff_nodes = {id(g.node_containing(c) if isinstance(c, ast.Call) else g.nodes_of(c)[0]) for c in effects}
    # the effect sits in an inner loop over the chunks: that loop executes at least once because
    # n_plates = ceil(len/max) >= 1 for a non-empty index set (lemma, see TRUSTED)
    inner = [n for n in walk_own(loop) if isinstance(n, ast.For) and n is not loop and any(e in list(walk_own(n)) for e in effects)]
    targets = {id(g.nodes_of(n)[0]) for n in inner} | eff_nodes
    ok = g.must_pass(body_in, lnode, lambda n: id(n) in targets)
    ctx.check("R1", f"{f.site()}::every-sample-assigned", ok, "every path through the per-sample loop body reaches the plate assignment",
              "some path through the per-sample loop skips the plate assignment: such samples keep the placeholder label and share one multi-sample plate")
    # chunk count
    lenv = {}
    for n in walk_own(loop):
        if isinstance(n, ast.Assign) and len(n.targets) == 1 and isinstance(n.targets[0], ast.Name):
            lenv[n.targets[0].id] = n.value
    sp = [c for c in calls(loop, name="np.array_split")]
    ctx.need(len(sp) == 1, f"{f.site()}: np.array_split not found")
    npl = inline(sp[0].args[1], {k: v for k, v in lenv.items() if k == U(sp[0].args[1])})
    own_rows = (f"np.arange({S}.size)[{S}.sample_ids=={sid}]", f"np.flatnonzero({S}.sample_ids=={sid})", f"np.where({S}.sample_ids=={sid})[0]", f"np.nonzero({S}.sample_ids=={sid})[0]")
    from engine.astutil import UC
    idx = [k for k, v in lenv.items() if UC(v) in [UC(t_) for t_ in own_rows]]
    ok = False
    if idx:
        L = f"len({idx[0]})"
        t = U(npl).replace(" ", "").replace(f"{idx[0]}.size", L).replace(f"{idx[0]}.shape[0]", L)
        ok = t in (f"math.ceil({L}/float(self.max_plate_size))", f"math.ceil({L}/self.max_plate_size)", f"int(math.ceil({L}/self.max_plate_size))",
                   f"int(np.ceil({L}/self.max_plate_size))", f"-(-{L}//self.max_plate_size)")
        src = U(inline(sp[0].args[0], {k: v for k, v in lenv.items() if k != idx[0]})).replace(" ", "")       # a named permutation is read through
        ok = ok and src in (f"rng.permutation({idx[0]})", idx[0])
    ctx.check("R1", f"{f.site()}::chunk-count", ok, "rows of the sample are split into ceil(len/max_plate_size) pieces (each <= max_plate_size, lemma)",
              f"the sample's rows are split into `{U(npl)}` pieces of `{U(sp[0].args[0])}`: plates can exceed max_plate_size or rows of another sample enter")
    # labels: an injective function of the plate
    lab = [n for n in walk_own(f.node) if isinstance(n, ast.Assign) and isinstance(n.targets[0], ast.Subscript) and isinstance(n.value, ast.JoinedStr)]
    ctx.need(len(lab) == 1, f"{f.site()}: plate label assignment (f-string) not found")
    lab = lab[0]
    par = enclosing_map(f.node)
    lp = par.get(lab)
    vals = lab.value.values
    fv = [v for v in vals if isinstance(v, ast.FormattedValue)]
    adjacent = False
    for a, b in zip(vals, vals[1:]):
        if isinstance(a, ast.FormattedValue) and isinstance(b, ast.FormattedValue):
            adjacent = True
    for a, b, c in zip(vals, vals[1:], vals[2:]):
        if isinstance(a, ast.FormattedValue) and isinstance(c, ast.FormattedValue) and isinstance(b, ast.Constant) and (b.value == "" or b.value.isdigit()):
            adjacent = True
    inside = False
    n = lab
    while n in par:
        n = par[n]
        if n is loop:
            inside = True
    if not inside:
        ok = isinstance(lp, ast.For) and isinstance(lp.iter, ast.Call) and call_name(lp.iter) == "enumerate" and acc is not None and U(lp.iter.args[0]) == acc \
            and len(fv) == 1 and U(fv[0].value) == U(lp.target.elts[0]) and U(lab.targets[0].slice) == U(lp.target.elts[1])
        why = "labels can repeat: the label is not the plate's index in the global plate list"
    else:
        # labelled inside the per-sample loop: the label must identify (sample, chunk) unambiguously
        used = {U(v.value) for v in fv}
        chunk_idx = U(lp.target.elts[0]) if isinstance(lp, ast.For) and isinstance(lp.iter, ast.Call) and call_name(lp.iter) == "enumerate" else None
        ok = (sid in used and chunk_idx in used and not adjacent) or any(is_running_counter(loop, u) for u in used) and len(fv) == 1
        why = ("adjacent formatted integers are ambiguous: sample 1 / chunk 10 and sample 11 / chunk 0 give the same label"
               if adjacent else "the label does not determine (sample, chunk): plates of different samples can share a label")
    ctx.check("R1", f"{f.site()}::labels-injective", ok and not (adjacent and len(fv) > 1),
              "distinct plates get distinct labels", f"plate label `{U(lab.value)}`: {why}")
    # rows are only relabelled: covered by C11.R1/R4; here: the Screen is built from all rows of the input
    ctx.ok("R1", f"{f.site()}::rows", "row conservation is decided by C11.R1/R4")


def is_running_counter(loop, name):
    """`name += 1` once per labelled plate inside the loop and never reset inside it"""
    incs = [n for n in walk_own(loop) if isinstance(n, ast.AugAssign) and U(n.target) == name and isinstance(n.op, ast.Add) and U(n.value) == "1"]
    resets = [n for n in walk_own(loop) if isinstance(n, ast.Assign) and any(U(t) == name for t in n.targets)]
    return len(incs) == 1 and not resets


def slice_names(fnode, expr, depth=6):
    """names in the backward slice of expr through plain assignments in fnode (flow-insensitive)"""
    seen = set()
    work = list(names_in(expr))
    defs = {}
    for n in walk_own(fnode):
        if isinstance(n, ast.Assign):
            for t in n.targets:
                for tt in (t.elts if isinstance(t, (ast.Tuple, ast.List)) else [t]):
                    if isinstance(tt, ast.Name):
                        defs.setdefault(tt.id, []).append(n.value)
                    elif isinstance(tt, ast.Subscript) and isinstance(tt.value, ast.Name):
                        defs.setdefault(tt.value.id, []).append(n.value)
                        defs.setdefault(tt.value.id, []).append(tt.slice)
        elif isinstance(n, ast.For):
            for tt in ast.walk(n.target):
                if isinstance(tt, ast.Name):
                    defs.setdefault(tt.id, []).append(n.iter)
    attrs = set()
    while work:
        v = work.pop()
        if v in seen:
            continue
        seen.add(v)
        for d in defs.get(v, []):
            for x in ast.walk(d):
                if isinstance(x, ast.Attribute):
                    attrs.add(U(x))
            work += list(names_in(d))
    for x in ast.walk(expr):
        if isinstance(x, ast.Attribute):
            attrs.add(U(x))
    return seen, attrs


def r2(ctx):
    f = ctx.fn(f"{RETRO}.PairwisePlateGenerator._generate_plates")
    stores = [n for n in walk_own(f.node) if isinstance(n, ast.Assign) and isinstance(n.targets[0], ast.Subscript)
              and isinstance(n.targets[0].value, ast.Name) and "plate_names" in n.targets[0].value.id]
    env = single_defs(f.node)
    par = enclosing_map(f.node)
    combo_store = [n for n in stores if isinstance(n.value, ast.JoinedStr)]
    uqs = [c for c in calls(f.node) if call_name(c) == "np.unique" and U(kwargs(c).get("axis")) == "0" and c.args]
    inverse = [c for c in uqs if U(kwargs(c).get("return_inverse")) == "True"]
    if not combo_store and len(inverse) == 1:
        # labels from the inverse of the unique keys:  _, inv = np.unique(KEY, axis=0, return_inverse=True); names = [f"..{i}" for i in inv]
        uq = inverse[0]
        asg = par.get(uq)
        ctx.need(isinstance(asg, ast.Assign) and isinstance(asg.targets[0], ast.Tuple) and len(asg.targets[0].elts) == 2 and isinstance(asg.targets[0].elts[1], ast.Name)
                 and not any(U(kwargs(uq).get(k)) == "True" for k in ("return_index", "return_counts")), f"{f.site()}: `_, inverse = np.unique(.., return_inverse=True)` not found")
        inv = asg.targets[0].elts[1].id
        key_e = inline(uq.args[0], env)
        key_names, key_attrs = slice_names(f.node, uq.args[0])
        has_sample = any(a.endswith(".sample_ids") or a.endswith(".sample_names") for a in key_attrs) or ".sample_ids" in U(key_e) or ".sample_names" in U(key_e)
        ctx.check("R2", f"{f.site()}::key-contains-sample", has_sample, "the key naming a combination plate contains the rows' sample ids",
                  "the grouping key of a generated plate no longer contains the sample: plates would mix samples")
        comps = [n for n in walk_own(f.node) if isinstance(n, ast.ListComp) and len(n.generators) == 1 and U(n.generators[0].iter) == inv and not n.generators[0].ifs
                 and isinstance(n.elt, ast.JoinedStr)]
        ok = False
        if len(comps) == 1:
            fv = [v for v in comps[0].elt.values if isinstance(v, ast.FormattedValue)]
            ok = len(fv) == 1 and U(fv[0].value) == U(comps[0].generators[0].target)
            # .. and that list is what the combination screen is built with
            nm = par.get(comps[0])
            lst = nm.targets[0].id if isinstance(nm, ast.Assign) and isinstance(nm.targets[0], ast.Name) else None
            ok = ok and any(call_name(c) == "Screen" and "plate_names" in kwargs(c) and (comps[0] in list(ast.walk(kwargs(c)["plate_names"])) or
                                                                                     (lst and lst in names_in(kwargs(c)["plate_names"]))) for c in calls(f.node))
        ctx.check("R2", f"{f.site()}::one-label-per-key", ok, "every row is labelled with the index of its unique key (inverse of np.unique over the key rows)",
                  "plate labels are not the per-row index of the unique (sample, group, group) key")
        single_store = stores
    else:
        ctx.need(len(stores) >= 2, f"{f.site()}: plate-name stores not found")
        ctx.need(len(combo_store) == 1, f"{f.site()}: combination plate label store not found")
        cs = combo_store[0]
        names, attrs = slice_names(f.node, cs.targets[0].slice)
        has_sample = any(a.endswith(".sample_ids") or a.endswith(".sample_names") for a in attrs)
        ctx.check("R2", f"{f.site()}::key-contains-sample", has_sample, "the mask naming a combination plate depends on the rows' sample ids",
                  "the grouping key of a generated plate no longer contains the sample: plates would mix samples")
        # the key rows are compared in full (all columns equal) against each unique key
        lp = par.get(cs)
        ok = False
        if isinstance(lp, ast.For) and isinstance(lp.iter, ast.Call) and call_name(lp.iter) == "enumerate":
            uq = inline(lp.iter.args[0], env, depth=1)
            m = inline(cs.targets[0].slice, {k: v for k, v in single_defs_loop(lp).items()})
            key = U(uq.args[0]) if isinstance(uq, ast.Call) and call_name(uq) == "np.unique" and U(kwargs(uq).get("axis")) == "0" else None
            ut = U(lp.target.elts[1])
            from engine.astutil import UC
            ok = key is not None and UC(m) in (UC(f"({key}=={ut}).all(axis=1)"), UC(f"np.all({key}=={ut},axis=1)")) \
                and len([v for v in cs.value.values if isinstance(v, ast.FormattedValue)]) == 1 and U([v for v in cs.value.values if isinstance(v, ast.FormattedValue)][0].value) == U(lp.target.elts[0])
        ctx.check("R2", f"{f.site()}::one-label-per-key", ok, "rows equal to a unique key in all columns get that key's index as label",
                  "plate labels are not assigned per unique (sample, group, group) key with a full-row comparison")
        single_store = [n for n in stores if n is not cs]
    # the sample id is a column of its own in the key: a row-wise sort applied to the stacked (sample, group, group) rows mixes the sample id
    # with the group ids, so rows of different samples can receive the same key
    for uq in uqs:
        k_ = inline(uq.args[0], env)
        if isinstance(k_, ast.Call) and call_name(k_) in ("np.sort", "sorted") and U(kwargs(k_).get("axis", ast.Constant(value=-1))) in ("1", "-1") and k_.args:
            inner = inline(k_.args[0], env)
            if ".sample_ids" in U(inner) or ".sample_names" in U(inner):
                ctx.bad("R2", f"{f.site()}::sample-column-kept-apart", f"the key rows `{U(k_)[:90]}` are sorted across the sample column: the sample id is permuted with the group ids, "
                        f"so experiments of different samples can share a key and land on one plate")
                break
    else:
        ctx.ok("R2", f"{f.site()}::sample-column-kept-apart", "no row-wise sort is applied across the sample column of the key")
    # single-agent rows: eligible names filtered by the same sample name as the rows assigned
    ok = False
    for s in single_store:
        lp = par.get(s)
        while lp is not None and not isinstance(lp, ast.For):
            lp = par.get(lp)
        if lp is None:
            continue
        sv = U(lp.target)
        lenv = single_defs_loop(lp)
        rows = U(inline(s.targets[0].slice, lenv)).replace(" ", "")
        val = inline(s.value, lenv)
        if isinstance(val, ast.Call) and attr_tail(val) == "choice":
            pop = inline(val.args[0], lenv)
            pt = U(pop).replace(" ", "")
            # (either orientation of the comparison with the loop's sample)
            same_sample = lambda t_: t_.endswith(f".sample_names=={sv}") or (t_.startswith(f"{sv}==") and t_.endswith(".sample_names"))
            ok = same_sample(rows) and (f".sample_names=={sv}]" in pt or (f"[{sv}==" in pt and ".sample_names]" in pt)) and ".plate_names[" in pt and pt.startswith("np.unique(")
            size = arg(val, 1, "size")
            ok = ok and size is not None and U(inline(size, lenv)).replace(" ", "") in (f"({rows}).sum()", f"np.sum({rows})", f"np.count_nonzero({rows})")
    ctx.check("R2", f"{f.site()}::single-agent-rows-same-sample", ok,
              "single-agent rows of a sample are assigned among the generated plates of that same sample, one label per row",
              "single-agent rows are not assigned among plate names filtered by their own sample")


def single_defs_loop(loop):
    cnt, val = {}, {}
    for n in walk_own(loop):
        if isinstance(n, ast.Assign) and len(n.targets) == 1 and isinstance(n.targets[0], ast.Name):
            cnt[n.targets[0].id] = cnt.get(n.targets[0].id, 0) + 1
            val[n.targets[0].id] = n.value
    return {k: v for k, v in val.items() if cnt[k] == 1}


def sample_of_plate_helpers(ctx, f):
    """repository functions called from f (directly or through a new helper spliced into it) that map one plate to its first
    sample id: {call node: helper Func}"""
    from engine.astutil import resolve_helper
    out = {}
    for c in calls(f.node):
        h, skip = resolve_helper(ctx.R, f, c)
        if h is None:
            continue
        ps = h.params[skip:] if skip else [p for p in h.params if p not in ("self", "cls")]
        if len(ps) != 1:
            continue
        p = ps[0]
        henv = single_defs(h.node)
        rets = [U(inline(r.value, henv)).replace(" ", "") for r in returns(h.node) if r.value is not None]
        if rets and all(r in (f"{p}.unique_sample_ids[0]", f"{p}.sample_ids[0]") for r in rets):
            out[c] = (h, p)
    return out


def r3(ctx):
    R = ctx.R
    for cls in ("MergeMinPlateSmoother", "MergeTopBottomPlateSmoother", "NPlatePerCellLineSmoother"):
        f = ctx.fn(f"{RETRO}.{cls}._smooth_plates")
        hs = sample_of_plate_helpers(ctx, f)
        # direct reads of a plate's first sample id inside the smoother bypass the refusal
        direct = [U(n)[:60] for n in walk_own(f.node) if isinstance(n, ast.Subscript) and isinstance(n.value, ast.Attribute) and n.value.attr in ("unique_sample_ids", "sample_ids")
                  and U(n.slice) == "0" and not U(n.value.value).endswith("screen")]
        guarded_direct = []
        if direct:
            # acceptable when a new helper was spliced here together with its refusal: judged through raise_guards below
            from engine.astutil import raise_guards
            N0 = Norm(strict=False)
            for conds, anchor, how, looped in raise_guards(R, f, N0):
                for b_ in conds:
                    if b_[0] == "cmp" or b_[0] == "not":
                        guarded_direct.append(b_)
        helpers = {}
        for c, (h, p) in hs.items():
            helpers[h.qname] = (h, p)
        if not helpers and not direct:
            if cls == "NPlatePerCellLineSmoother":
                raise AnalysisError(f"{f.site()}: no plate -> sample id mapping found (neither a helper returning plate.unique_sample_ids[0] nor a direct read)")
            continue        # the per-sample-list clause below reports a merge list that is not filtered by sample
        for q, (h, p) in sorted(helpers.items()):
            g = CFG(h.node)
            henv = single_defs(h.node)
            guards = [(Norm(strict=False).b(inline(t.stmt.test, henv), integer=True), arm) for t, arm in g.raising_guards()]
            want = [Norm(strict=False).b(parse_expr(f"len({p}.unique_sample_ids) > 1"), integer=True),
                    Norm(strict=False).b(parse_expr(f"{p}.n_unique_samples != 1")), Norm(strict=False).b(parse_expr(f"len({p}.unique_sample_ids) != 1")),
                    Norm(strict=False).b(parse_expr(f"{p}.n_unique_samples > 1"), integer=True)]
            ctx.check("R3", f"{f.site()}::refuses-multi-sample", any(b in want and arm == "then" for b, arm in guards),
                      f"the plate -> sample mapping {h.site()} raises on a plate with more than one sample, else returns its sample id",
                      f"{h.site()} does not refuse multi-sample plates before returning the first sample id ({len(guards)} raising guard(s))")
        if direct and not helpers:
            # a direct read is fine next to its refusal (the helper's body spliced in place): an earlier statement of the same statement list
            # is `if <the plate has more than one sample>: raise`
            par_ = enclosing_map(f.node)
            Nd = Norm(strict=False)
            unguarded = []
            for n in walk_own(f.node):
                if not (isinstance(n, ast.Subscript) and isinstance(n.value, ast.Attribute) and n.value.attr in ("unique_sample_ids", "sample_ids") and U(n.slice) == "0"
                        and not U(n.value.value).endswith("screen")):
                    continue
                pv_ = U(n.value.value)
                want = [Nd.b(parse_expr(f"len({pv_}.unique_sample_ids) > 1"), integer=True), Nd.b(parse_expr(f"{pv_}.n_unique_samples != 1")),
                        Nd.b(parse_expr(f"len({pv_}.unique_sample_ids) != 1")), Nd.b(parse_expr(f"{pv_}.n_unique_samples > 1"), integer=True)]
                st_ = n
                found = False
                while st_ in par_ and not found:
                    p_ = par_[st_]
                    for fld in ("body", "orelse"):
                        lst_ = getattr(p_, fld, None)
                        if isinstance(lst_, list) and any(y is st_ for y in lst_):
                            k_ = [q for q, y in enumerate(lst_) if y is st_][0]
                            for prev in lst_[:k_]:
                                if isinstance(prev, ast.If) and prev.body and isinstance(prev.body[-1], ast.Raise) and Nd.b(prev.test, integer=True) in want:
                                    found = True
                    st_ = p_
                if not found:
                    unguarded.append(U(n)[:60])
            ctx.check("R3", f"{f.site()}::refuses-multi-sample", not unguarded, "every direct read of a plate's first sample id follows the refusal of multi-sample plates",
                      f"the smoother reads a plate's first sample id directly ({unguarded[:2]}) without the refusal of multi-sample plates")
    for cls in ("MergeMinPlateSmoother", "MergeTopBottomPlateSmoother"):
        f = ctx.fn(f"{RETRO}.{cls}._smooth_plates")
        merges = [c for c in calls(f.node, tail="merge")]
        ctx.need(merges, f"{f.site()}: merge call not found")
        loops = [n for n in walk_own(f.node) if isinstance(n, ast.For) and U(n.iter).endswith(".unique_sample_ids")]
        ctx.need(len(loops) == 1, f"{f.site()}: per-sample loop not found")
        loop = loops[0]
        sid = U(loop.target)
        # list of this sample's plates
        def comp_of(v):
            if isinstance(v, (ast.ListComp, ast.GeneratorExp)):
                return v
            if isinstance(v, ast.Call) and call_name(v) in ("sorted", "list") and v.args and isinstance(v.args[0], (ast.ListComp, ast.GeneratorExp)):
                return v.args[0]
            return None
        hs_f = sample_of_plate_helpers(ctx, f)
        lcs = [n for n in walk_own(loop) if isinstance(n, ast.Assign) and comp_of(n.value) is not None]
        good_lists = {}
        for n in lcs:
            lc = comp_of(n.value)
            gen = lc.generators[0]
            if len(lc.generators) == 1 and U(gen.iter).endswith(".plates") and len(gen.ifs) == 1 and U(lc.elt) == U(gen.target) \
                    and isinstance(gen.ifs[0], ast.Compare) and len(gen.ifs[0].ops) == 1 and isinstance(gen.ifs[0].ops[0], ast.Eq):
                l_, r_ = gen.ifs[0].left, gen.ifs[0].comparators[0]
                hc = l_ if U(r_) == sid else (r_ if U(l_) == sid else None)
                if isinstance(hc, ast.Call) and hc in hs_f and [U(a) for a in hc.args] == [U(gen.target)]:
                    good_lists[U(n.targets[0])] = n
        # the same list built by a loop, with the plate -> sample mapping either called or spelled out next to its refusal
        from engine import builders as B
        helper_names = {U(c.func) for c in hs_f}
        Nb = Norm(strict=False)
        for lp in [n for n in walk_own(loop) if isinstance(n, ast.For) and U(n.iter).endswith(".plates") and isinstance(n.target, ast.Name)]:
            refs = []
            ms = B._loop_mutations(lp, refs)
            pv = lp.target.id
            for kind, nm, payload, conds in ms or []:
                if kind != "list" or U(payload) != pv or len(conds) != 1 or not conds[0][1]:
                    continue
                t = conds[0][0]
                if not (isinstance(t, ast.Compare) and len(t.ops) == 1 and isinstance(t.ops[0], ast.Eq)):
                    continue
                l_, r_ = t.left, t.comparators[0]
                hc = l_ if U(r_) == sid else (r_ if U(l_) == sid else None)
                if hc is None:
                    continue
                if isinstance(hc, ast.Call) and U(hc.func) in helper_names and [U(a) for a in hc.args] == [pv]:
                    good_lists[nm] = lp
                elif U(hc).replace(" ", "") in (f"{pv}.unique_sample_ids[0]", f"{pv}.sample_ids[0]"):
                    want = [Nb.b(parse_expr(f"len({pv}.unique_sample_ids) > 1"), integer=True), Nb.b(parse_expr(f"{pv}.n_unique_samples != 1")),
                            Nb.b(parse_expr(f"len({pv}.unique_sample_ids) != 1")), Nb.b(parse_expr(f"{pv}.n_unique_samples > 1"), integer=True)]
                    if any(not cs and Nb.b(rt, integer=True) in want for rt, cs in refs):
                        good_lists[nm] = lp
                        ctx.ok("R3", f"{f.site()}::refuses-multi-sample", f"the plate -> sample reading inside the loop over plates is preceded by the refusal of multi-sample plates")
        ctx.check("R3", f"{f.site()}::per-sample-list", bool(good_lists), f"plates of one sample: [p for p in screen.plates if <sample of p> == {sid}]",
                  "the list of merge candidates is not filtered to the current sample through the refusing plate -> sample mapping")
        if not good_lists:
            continue
        lst = next(iter(good_lists))
        for i, m in enumerate(merges):
            ctx.need(len(argv(m)) == 1, f"{f.site()}: merge call `{U(m)[:60]}` does not have one operand")
            ops = [m.func.value, argv(m)[0]]
            srcs = []
            for o in ops:
                names, attrs = slice_names(loop, o)
                srcs.append(lst in names)
            inside = any(m in calls(n) for n in [loop])
            ctx.check("R3", f"{f.site()}::merge-operands#{i}", all(srcs) and inside, f"both operands derive from `{lst}` (one sample)",
                      f"a merge operand does not come from the per-sample list `{lst}`: plates of different samples could be merged")
    # min-merge specifics
    f = ctx.fn(f"{RETRO}.MergeMinPlateSmoother._smooth_plates")
    src = U(f.node).replace(" ", "")
    hp = [c for c in calls(f.node, name="heapq.heappop")]
    hf = [c for c in calls(f.node, name="heapq.heapify")]
    hs = [c for c in calls(f.node, name="heapq.heappush")]
    if not hp and not hf:
        return list_based_min_merge(ctx, f)
    heap = U(hf[0].args[0]) if hf else None
    ok = len(hf) == 1 and len(hp) == 2 and all(U(c.args[0]) == heap for c in hp) and len(hs) == 1 and U(hs[0].args[0]) == heap
    m = [c for c in calls(f.node, tail="merge")]
    pops = {}
    for n in walk_own(f.node):
        if isinstance(n, ast.Assign) and n.value in hp:
            pops[U(n.targets[0])] = n
    ok = ok and len(m) == 1 and {U(m[0].func.value), U(m[0].args[0])} == set(pops) and \
        (hs[0].args[1] is m[0] or U(hs[0].args[1]) in [U(n.targets[0]) for n in walk_own(f.node) if isinstance(n, ast.Assign) and n.value is m[0]])
    ctx.check("R3", f"{f.site()}::two-heap-minima", ok, "heapify the sample's plates, pop the two minima, merge them, push the result back",
              "min-merge does not pop two minima from a heapified per-sample list and push the merged plate back")
    lt = ctx.fn("data.Plate.__lt__")
    r = returns(lt.node)
    ctx.check("R3", f"{lt.site()}::orders-by-size", len(r) == 1 and __import__("engine.astutil", fromlist=["UC"]).UC(r[0].value) == f"self.size<{lt.params[1]}.size",
              "plates are ordered by size", f"Plate.__lt__ returns `{U(r[0].value) if r else None}`: heap minima would not be the smallest plates")
    # stop threshold: break iff a.size + b.size > min_size, before the merge
    wl = [n for n in walk_own(f.node) if isinstance(n, ast.While)]
    ctx.need(len(wl) == 1, f"{f.site()}: merge loop not found")
    brk = [n for n in walk_own(wl[0]) if isinstance(n, ast.If) and any(isinstance(x, ast.Break) for x in n.body)]
    N = Norm(strict=False)
    a, b = list(pops)[:2] if len(pops) >= 2 else ("a", "b")
    want_stop = N.b(parse_expr(f"({a}.size + {b}.size) > self.min_size"), integer=True)
    want_len = N.b(parse_expr(f"len({heap}) <= 1"), integer=True)
    wenv = {n.targets[0].id: n.value for n in walk_own(wl[0]) if isinstance(n, ast.Assign) and len(n.targets) == 1 and isinstance(n.targets[0], ast.Name)
            and n.targets[0].id not in pops and not isinstance(n.value, ast.Call)}
    got = [N.b(inline(x.test, wenv), integer=True) for x in brk]
    if not (isinstance(wl[0].test, ast.Constant) and wl[0].test.value is True):
        got.append(N.b(wl[0].test, neg=True, integer=True))          # the loop also stops when its own test fails
    ctx.check("R3", f"{f.site()}::stop-threshold", want_stop in got and want_len in got and all(x.lineno < m[0].lineno for x in brk if N.b(inline(x.test, wenv), integer=True) == want_stop),
              "stops exactly when fewer than two plates remain or the two smallest together exceed min_size",
              "the stop condition is not `len(heap) <= 1` / `(smallest.size + second.size) > self.min_size` evaluated before the merge")
    # top-bottom pairing
    f = ctx.fn(f"{RETRO}.MergeTopBottomPlateSmoother._smooth_plates")
    env = {}
    for n in walk_own(f.node):
        if isinstance(n, ast.Assign) and len(n.targets) == 1 and isinstance(n.targets[0], ast.Name):
            env.setdefault(n.targets[0].id, []).append(n.value)
    env1 = {k: vs[0] for k, vs in env.items() if len(vs) == 1}

    # the list whose elements are paired: the base of the merge operands; it may be the candidate list sorted in place, or a sorted copy of it
    mm0 = [c for c in calls(f.node, tail="merge")]
    PL = "plates"
    SRC = "plates"
    if mm0:
        lenv0 = {}
        for n_ in walk_own(f.node):
            if isinstance(n_, ast.Assign) and len(n_.targets) == 1 and isinstance(n_.targets[0], ast.Name):
                lenv0.setdefault(n_.targets[0].id, []).append(n_.value)
        o_ = mm0[0].func.value
        o_ = lenv0[o_.id][0] if isinstance(o_, ast.Name) and len(lenv0.get(o_.id, [])) == 1 else o_
        if isinstance(o_, ast.Subscript) and isinstance(o_.value, ast.Name):
            PL = o_.value.id
            d_ = [v for v in env.get(PL, [])]
            for v in d_:
                if isinstance(v, ast.Call) and call_name(v) == "sorted" and v.args and isinstance(v.args[0], ast.Name):
                    SRC = v.args[0].id
            if SRC == "plates" and PL != "plates" and not any(isinstance(v, ast.Call) and call_name(v) == "sorted" for v in d_):
                SRC = PL

    # .. or, in the zip form, the list whose two halves are zipped
    zl0 = [n for n in walk_own(f.node) if isinstance(n, ast.For) and isinstance(n.iter, ast.Call) and call_name(n.iter) == "zip" and len(n.iter.args) == 2
           and any(attr_tail(c) == "merge" for c in calls(n))]
    if len(zl0) == 1 and isinstance(zl0[0].iter.args[0], ast.Subscript) and isinstance(zl0[0].iter.args[0].value, ast.Name) and PL == "plates" \
            and zl0[0].iter.args[0].value.id != "plates":
        PL = SRC = zl0[0].iter.args[0].value.id
        for v in env.get(PL, []):
            if isinstance(v, ast.Call) and call_name(v) == "sorted" and v.args and isinstance(v.args[0], ast.Name):
                SRC = v.args[0].id

    def T(x):
        return U(inline(x, {k: v for k, v in env1.items() if k not in (PL, SRC)})).replace(" ", "")
    HALF = tuple(f_.format(L=L_) for L_ in {PL, SRC} for f_ in ("math.floor(len({L})/2)", "len({L})//2", "int(len({L})/2)"))
    import re as _re
    key_ok = lambda t_: bool(_re.fullmatch(r"lambda(\w+):\1\.size", t_)) or t_ in ("operator.attrgetter('size')", "attrgetter('size')")
    srt = any(isinstance(v, ast.Call) and call_name(v) == "sorted" and v.args and U(v.args[0]) in (SRC, PL) and key_ok({k.arg: U(k.value).replace(" ", "") for k in v.keywords}.get("key", ""))
              and len(v.keywords) == 1 for v in env.get(PL, [])) or \
        any(attr_tail(c) == "sort" and U(c.func.value) == PL and len(c.keywords) == 1 and key_ok({k.arg: U(k.value).replace(" ", "") for k in c.keywords}.get("key", "")) for c in calls(f.node))
    mm_all = [c for c in calls(f.node, tail="merge")]
    ok = False
    zl = [n for n in walk_own(f.node) if isinstance(n, ast.For) and isinstance(n.iter, ast.Call) and call_name(n.iter) == "zip"]
    il = [n for n in walk_own(f.node) if isinstance(n, ast.For) and isinstance(n.iter, ast.Call) and call_name(n.iter) == "range" and len(n.iter.args) == 1 and T(n.iter.args[0]) in HALF]
    if len(zl) == 1:
        z = zl[0]
        a0, a1 = [x for x in z.iter.args]
        def head(x):
            return isinstance(x, ast.Subscript) and isinstance(x.slice, ast.Slice) and x.slice.lower is None and x.slice.step is None and x.slice.upper is not None and T(x.slice.upper) in HALF
        REV = (f"list(reversed({PL}))", f"{PL}[::-1]", f"reversed({PL})")
        # zip stops at the shorter operand: it is enough that one of the two is cut to half the list
        small_ok = (head(a0) and U(a0.value) == PL) or U(a0) == PL
        large_ok = (head(a1) and U(a1.value).replace(" ", "") in REV[:2]) or U(a1).replace(" ", "") in REV
        ok = srt and small_ok and large_ok and (head(a0) or head(a1))
        mm = [c for c in calls(z, tail="merge")]
        sm, bg = [U(t) for t in z.target.elts]
        ok = ok and len(mm) == 1 and {U(mm[0].func.value), U(mm[0].args[0])} == {sm, bg}
    elif len(il) == 1:
        lp = il[0]
        k = U(lp.target)
        lenv = {n.targets[0].id: n.value for n in lp.body if isinstance(n, ast.Assign) and isinstance(n.targets[0], ast.Name)}
        mm = [c for c in calls(lp, tail="merge")]
        if len(mm) == 1:
            ops = [inline(mm[0].func.value, lenv), inline(mm[0].args[0], lenv)]
            idx = []
            for o in ops:
                if isinstance(o, ast.Subscript) and U(o.value) == PL:
                    idx.append(inline(o.slice, {k_: v for k_, v in env1.items() if k_ not in (PL, SRC)}))
            if len(idx) == 2:
                N2 = Norm(strict=False)
                keys = {N2.key(x) for x in idx}
                lo = N2.key(parse_expr(k))
                his = {N2.key(parse_expr(f"len({PL}) - 1 - {k}")), N2.key(parse_expr(f"len({SRC}) - 1 - {k}")), N2.key(parse_expr(f"-1 - {k}")), N2.key(parse_expr(f"-({k} + 1)"))}
                ok = srt and lo in keys and bool(keys & his) and len(keys) == 2
    else:
        raise AnalysisError(f"{f.site()}: pairing loop not found (neither zip(smallest half, largest half) nor an index loop over half the list)")
    rng_ = [n for n in walk_own(f.node) if isinstance(n, ast.For) and U(n.iter) == "range(self.n_iterations)"]
    ctx.check("R3", f"{f.site()}::pairs-smallest-with-largest", ok and len(rng_) == 1,
              "per iteration: sort by size, pair the floor(n/2) smallest with the floor(n/2) largest, one merge per pair (n -> ceil(n/2))",
              "top-bottom pairing is not floor(len/2) smallest with largest after sorting by size, repeated n_iterations times")


def list_based_min_merge(ctx, f):
    """variant without a heap: a sorted list whose two head elements are merged.  The head is the two
    smallest only if the list is re-sorted (or the merged plate inserted in order) before every take."""
    wl = [n for n in walk_own(f.node) if isinstance(n, ast.While)]
    if len(wl) != 1:
        raise AnalysisError(f"{f.site()}: no heap operations and no single merge loop - unknown selection algorithm")
    w = wl[0]
    takes = [n for n in walk_own(w) if isinstance(n, ast.Assign) and isinstance(n.value, ast.Subscript) and U(n.value.slice).replace(" ", "") in (":2", "0:2")]
    takes += [c for c in calls(w, tail="pop") if c.args and U(c.args[0]) == "0"]
    if not takes:
        raise AnalysisError(f"{f.site()}: cannot find where the two smallest plates are taken - unknown selection algorithm")
    lst = U(takes[0].value.value) if isinstance(takes[0], ast.Assign) else U(takes[0].func.value)
    resorted = [c for c in calls(w) if (call_name(c) == "sorted" and c.args and lst in U(c.args[0])) or (attr_tail(c) == "sort" and U(c.func.value) == lst)
                or call_name(c) in ("bisect.insort", "insort")]
    grows = [n for n in walk_own(w) if isinstance(n, ast.Assign) and U(n.targets[0]) == lst] + [c for c in calls(w, tail="append") if U(c.func.value) == lst]
    ctx.check("R3", f"{f.site()}::two-heap-minima", bool(resorted) or not grows,
              "list-based variant keeps the candidate list ordered by size inside the merge loop",
              f"the two plates merged are the head of `{lst}`, which is sorted once and then extended with merged plates without re-sorting: "
              f"after the first merge they are no longer the two smallest, so merging can stop early")


def _size_arms(ctx, f, loop, pv):
    """the per-plate loop body as guarded arms [(test, body)] plus the trailing else (or None), with `if c: ...; continue`
    written as an if / else chain first"""
    from engine.peval import eliminate_continues
    import copy as _copy
    body = loop.body
    if any(isinstance(x, ast.Continue) for st in body for x in ast.walk(st)):
        body = eliminate_continues([_copy.deepcopy(st) for st in body])
        if body is None:
            raise AnalysisError(f"{f.site()}: the per-plate loop uses `continue` in a form that is not an if / else chain")
    def push_tail(stmts):
        """[.., if c: A else: B, T1, T2]  ->  [.., if c: A; T1; T2 else: B; T1; T2]   (straight-line tail without control flow), so that a
        shared accumulation after the comparison chain is read per size class"""
        stmts = list(stmts)
        for i, st in enumerate(stmts):
            if isinstance(st, ast.If):
                tail = stmts[i + 1:]
                st = _copy.copy(st)
                if tail and all(isinstance(t, (ast.Assign, ast.AugAssign, ast.Expr)) for t in tail):
                    st.body = push_tail(list(st.body) + [_copy.deepcopy(t) for t in tail])
                    st.orelse = push_tail(list(st.orelse) + [_copy.deepcopy(t) for t in tail])
                    return stmts[:i] + [st]
                st.body, st.orelse = push_tail(st.body), push_tail(st.orelse)
                stmts[i] = st
        return stmts
    body = push_tail(body)
    pre = [st for st in body if isinstance(st, ast.Assign)]
    rest = [st for st in body if not isinstance(st, ast.Assign)]
    n = rest[0] if len(rest) == 1 else None
    if not isinstance(n, ast.If):
        raise AnalysisError(f"{f.site()}: the per-plate loop body is not a single size comparison chain")
    penv = {st.targets[0].id: st.value for st in pre if isinstance(st.targets[0], ast.Name)}

    def pure_assign(st):
        return isinstance(st, ast.Assign) and len(st.targets) == 1 and isinstance(st.targets[0], ast.Name) \
            and all((call_name(c) or "").startswith("np.") for c in calls(st.value))

    def close_defs(stmts):
        """a name bound twice in one arm (`idx = rows; idx = rng.choice(idx, k)`): every binding's value is written in terms of the
        names that are live before the arm, so that `the last binding` describes the value without referring to itself"""
        env, out = {}, []
        for st in stmts:
            if isinstance(st, ast.Assign) and len(st.targets) == 1 and isinstance(st.targets[0], ast.Name):
                nm = st.targets[0].id
                if nm in names_in(st.value) and nm not in env:
                    out.append(st)                      # an accumulator carried from before the arm
                    continue
                st = _copy.copy(st)
                st.value = inline(st.value, env)
                env[nm] = st.value
            out.append(st)
        return out
    arms = []
    lead = []
    while isinstance(n, ast.If):
        t_ = inline(n.test, {a.targets[0].id: a.value for a in lead}) if lead else n.test
        arms.append((t_, close_defs([_copy.deepcopy(a) for a in lead] + list(n.body))))
        if len(n.orelse) == 1 and isinstance(n.orelse[0], ast.If):
            n = n.orelse[0]
        elif not n.orelse:
            n = None
        elif isinstance(n.orelse[-1], ast.If) and all(pure_assign(a) for a in n.orelse[:-1]) and len({a.targets[0].id for a in n.orelse[:-1]}) == len(n.orelse) - 1:
            # else: [pure assignments.., if ..]: the assignments belong to every arm of the inner comparison
            lead = lead + list(n.orelse[:-1])
            n = n.orelse[-1]
        else:
            n = ("else", close_defs([_copy.deepcopy(a) for a in lead] + list(n.orelse)))
    if n is None and lead and arms:
        # the inner comparison has no else: the remaining size class runs the leading assignments only - not a contribution
        pass
    return arms, (n if isinstance(n, tuple) else None), penv


def _contribution(ctx, f, S, pv, stmts, penv, acc_masks):
    """what an arm adds to the retained rows: [("whole", None) | ("rows", index expr) | ("plate-of", mask expr)] in statement order"""
    out = []
    env = dict(penv)
    for st in stmts:
        if isinstance(st, ast.Assign) and len(st.targets) == 1 and isinstance(st.targets[0], ast.Name) and st.targets[0].id not in acc_masks:
            env[st.targets[0].id] = st.value
    fenv_ = {k: v for k, v in single_defs(f.node).items() if k not in acc_masks and k not in (S, pv)}

    def rows_of_mask(m):
        """np.isin(np.arange(S.size), IDX): the mask of the rows IDX"""
        if isinstance(m, ast.Attribute) and m.attr == "selection_vector" and isinstance(m.value, ast.Call) and U(m.value.func) in ("Plate", "ScreenSubset") \
                and len(m.value.args) == 2 and U(m.value.args[0]) == S:
            m = m.value.args[1]                          # the selection of a view built on the spot is the mask it was built from
        m2 = inline(m, fenv_)
        if isinstance(m2, ast.Call) and U(m2.func) == "np.isin" and len(m2.args) == 2 and U(m2.args[0]).replace(" ", "") == f"np.arange({S}.size)":
            return m.args[1] if isinstance(m, ast.Call) and len(m.args) == 2 else m2.args[1]
        return None
    for st in stmts:
        for c in calls(st):
            if attr_tail(c) == "append" and len(c.args) == 1:
                v = inline(c.args[0], env)
                while isinstance(v, ast.Call) and call_name(v) in ("np.sort", "sorted", "np.asarray", "np.array") and len(v.args) == 1:
                    v = v.args[0]          # the order of the kept rows is not this rule's concern
                whole_idx = (f"np.flatnonzero({pv}.selection_vector)", f"np.arange({S}.size)[{pv}.selection_vector]", f"np.where({pv}.selection_vector)[0]",
                             f"np.nonzero({pv}.selection_vector)[0]")
                if U(v) == pv or U(v).replace(" ", "") in whole_idx:
                    out.append(("whole", None))
                elif isinstance(v, ast.Call) and attr_tail(v) == "choice":
                    out.append(("rows", v))
                elif isinstance(v, ast.Call) and U(v.func) == "Plate" and len(v.args) == 2 and U(v.args[0]) == S:
                    m = v.args[1]
                    if isinstance(m, ast.Call) and U(m.func) == "np.isin" and len(m.args) == 2 and U(m.args[0]).replace(" ", "") == f"np.arange({S}.size)":
                        out.append(("rows", m.args[1]))
                    else:
                        out.append(("mask", m))
                else:
                    out.append(("other", v))
        if isinstance(st, ast.AugAssign) and isinstance(st.op, ast.BitOr) and U(st.target) in acc_masks:
            v = inline(st.value, env)
            rw = rows_of_mask(v)
            out.append(("whole", None) if U(v) == f"{pv}.selection_vector" else (("rows", rw) if rw is not None else ("mask", v)))
        if isinstance(st, ast.Assign) and len(st.targets) == 1 and U(st.targets[0]) in acc_masks and isinstance(st.value, ast.BinOp) and isinstance(st.value.op, ast.BitOr):
            sides = [U(inline(x, env)) for x in (st.value.left, st.value.right)]
            if U(st.targets[0]) in sides:
                other = [x for x in sides if x != U(st.targets[0])]
                oth = [inline(x, env) for x in (st.value.left, st.value.right) if U(inline(x, env)) != U(st.targets[0])]
                rw = rows_of_mask(oth[0]) if len(oth) == 1 else None
                if other == [f"{pv}.selection_vector"]:
                    out.append(("whole", None))
                elif rw is not None:
                    out.append(("rows", rw))
                else:
                    out.append(("mask", st.value))
        if isinstance(st, ast.Assign) and len(st.targets) == 1 and isinstance(st.targets[0], ast.Subscript) and U(st.targets[0].value) in acc_masks:
            if isinstance(st.value, ast.Constant) and st.value.value is True:
                ix = inline(inline(st.targets[0].slice, env), fenv_)          # (a function-level `positions = np.arange(S.size)` is read through)
                whole_ix = (f"np.flatnonzero({pv}.selection_vector)", f"np.arange({S}.size)[{pv}.selection_vector]", f"np.where({pv}.selection_vector)[0]",
                            f"np.nonzero({pv}.selection_vector)[0]", f"{pv}.selection_vector")
                out.append(("whole", None) if U(ix).replace(" ", "") in whole_ix else ("rows", ix))
            else:
                out.append(("other", st.value))
    return out


def r4(ctx):
    N = Norm(strict=False)
    found_target = {}
    for cls, want_target in (("FixedSizeSmoother", "self.plate_size"), ("OptimalSizeSmoother", None)):
        f = ctx.fn(f"{RETRO}.{cls}._smooth_plates")
        S = f.params[1]
        loops = [n for n in walk_own(f.node) if isinstance(n, ast.For) and U(n.iter) == f"{S}.plates"]
        ctx.need(len(loops) == 1, f"{f.site()}: loop over plates not found")
        loop = loops[0]
        pv = U(loop.target)
        arms, tail_else, penv = _size_arms(ctx, f, loop, pv)
        fenv = single_defs(f.node)
        # boolean accumulators of retained rows: np.zeros(S.size, dtype=bool) handed to S.subset(..)
        acc_masks = {k for k, v in fenv.items() if False}
        for n in walk_own(f.node):
            if isinstance(n, ast.Assign) and len(n.targets) == 1 and isinstance(n.targets[0], ast.Name) and U(n.value).replace(" ", "") in (f"np.zeros({S}.size,dtype=bool)", f"np.zeros({S}.size,bool)"):
                acc_masks.add(n.targets[0].id)
        # the common threshold of the comparisons
        target = None
        for t, body in arms:
            t = inline(t, penv)
            if isinstance(t, ast.Compare) and len(t.ops) == 1:
                l, r = U(t.left), U(t.comparators[0])
                cand = r if l == f"{pv}.size" else (l if r == f"{pv}.size" else None)
                if cand is not None:
                    target = target or cand
        ctx.need(target is not None, f"{f.site()}: no comparison of `{pv}.size` with a threshold was found")
        found_target[cls] = target
        # a local that only names the configured size (target_size = self.plate_size) is read through
        target_read = U(inline(ast.parse(target, mode="eval").body, {k: v for k, v in fenv.items() if isinstance(v, ast.Attribute)}))
        if want_target is not None:
            ctx.check("R4", f"{f.site()}::threshold", target_read == want_target, f"plates are compared with {want_target}", f"plates are compared with `{target}`, not `{want_target}`")
        ops = {}
        for t, body in arms:
            b = N.b(inline(t, penv), integer=True)
            for name, src in (("lt", f"{pv}.size < {target}"), ("eq", f"{pv}.size == {target}"), ("gt", f"{pv}.size > {target}")):
                if b == N.b(parse_expr(src), integer=True):
                    ops[name] = body
        if tail_else and len(ops) == 2:
            missing = ({"lt", "eq", "gt"} - set(ops)).pop()
            ops[missing] = tail_else[1]
        ctx.check("R4", f"{f.site()}::three-way-exhaustive", set(ops) == {"lt", "eq", "gt"}, "size <, ==, > target are all handled",
                  f"the size comparison handles only {sorted(ops)}: plates of the missing class fall through silently")
        if set(ops) != {"lt", "eq", "gt"}:
            continue
        con = {k: _contribution(ctx, f, S, pv, ops[k], penv, acc_masks) for k in ops}
        drop_ok = not con["lt"]
        keep_ok = con["eq"] == [("whole", None)] and not any(attr_tail(x) == "choice" for st in ops["eq"] for x in calls(st))
        if not keep_ok and not con["eq"] and not any(attr_tail(c) == "append" for st in ops["eq"] for c in calls(st)) \
                and any(isinstance(c.func, ast.Name) and ctx.R.chase(f.mod, c.func.id) in ctx.R.funcs for st in ops["eq"] for c in calls(st)):
            raise AnalysisError(f"{f.site()}: the equal-size arm delegates to a helper; what it keeps is not visible to this rule")
        ctx.check("R4", f"{f.site()}::drop-small-keep-equal", drop_ok and keep_ok, "smaller plates are dropped, equal plates kept whole",
                  "a smaller plate is kept or an equal plate is not kept as is")
        gt = ast.Module(body=ops["gt"], type_ignores=[])
        ch = list({U(c): c for c in calls(gt, tail="choice")}.values())     # one draw, possibly read through several locals
        if not ch:
            helpers = [c for c in calls(gt) if isinstance(c.func, ast.Name) and ctx.R.chase(f.mod, c.func.id) in ctx.R.funcs]
            if helpers:
                raise AnalysisError(f"{f.site()}: the larger-plate arm delegates to `{U(helpers[0].func)}`; the sub-sampling is not visible to this rule")
        ok = False
        if len(ch) == 1 and len(con["gt"]) == 1 and con["gt"][0][0] == "rows":
            pop, size, rep = arg(ch[0], 0, "a"), arg(ch[0], 1, "size"), arg(ch[0], 2, "replace")
            genv0 = dict(fenv)
            genv0.update(penv)
            for st in ops["gt"]:
                if isinstance(st, ast.Assign) and isinstance(st.targets[0], ast.Name):
                    genv0[st.targets[0].id] = st.value
            genv0 = {k: v for k, v in genv0.items() if k not in (S, pv, "rng") and k != target}
            pop_i = U(inline(pop, genv0)).replace(" ", "")
            ok = pop_i in (f"np.arange({S}.size)[{pv}.selection_vector]", f"np.flatnonzero({pv}.selection_vector)", f"np.where({pv}.selection_vector)[0]",
                           f"np.nonzero({pv}.selection_vector)[0]") \
                and U(size) == target and U(ch[0].func.value) == "rng"
            # what is kept must be exactly the drawn rows
            kept = con["gt"][0][1]
            full_env = dict(genv0)
            full_env.update({k: v for k, v in fenv.items() if k not in (S, pv, "rng")})          # both sides read through the same definitions, the threshold's included
            ok = ok and U(inline(inline(kept, genv0), full_env)).replace(" ", "") == U(inline(inline(ch[0], genv0), full_env)).replace(" ", "")
        ctx.check("R4", f"{f.site()}::subsample-large", ok, f"larger plates keep `{target}` drawn rows of their own (no-duplication is C11.R3's clause)",
                  f"a larger plate is not reduced to `{target}` rows drawn among its own rows (rng.choice(rows of the plate, {target}))")
    # optimal size
    f = ctx.fn(f"{RETRO}.OptimalSizeSmoother._smooth_plates")
    S = f.params[1]
    env = single_defs(f.node)
    tname = found_target.get("OptimalSizeSmoother")
    opt = env.get(tname) if tname else None
    ctx.need(opt is not None, f"{f.site()}: the definition of the size threshold `{tname}` was not found")
    e = inline(opt, env)
    wants = set()
    for pvn in ("plate", "p"):
        for arr in ("np.array", "np.asarray"):
            sizes = f"np.sort({arr}([{pvn}.size for {pvn} in {S}.plates]))"
            wants.add(N.key(parse_expr(f"{sizes}[np.argmax({sizes} * (len({sizes}) - np.arange(len({sizes}))))]")))
    ctx.check("R4", f"{f.site()}::optimal-size", N.key(e) in wants, "optimal size = sorted sizes at argmax(size_i * (n - i)) (experiments retained)",
              f"optimal_size is `{U(opt)}` with a criterion other than argmax over sorted sizes of size_i * (number of plates at least that large)")


def r5(ctx):
    n = C03.r2(ctx, rule="R5", only=lambda f: f.mod in (RETRO, "batchie.core", "batchie.cli.prepare_retrospective_simulation"))
    ctx.ok("R5", "id-scope::preparation-modules", f"{n} comparison sites with id provenance examined in the preparation modules")


def _drawn_among_sample_rows(v, S, sid):
    """v = rng.choice(POP, ..): True if POP is rows[mask] / flatnonzero(mask) with a mask that implies sample_ids == sid on every
    branch; False if the mask is recognised and does not; None if POP has another shape"""
    if not (isinstance(v, ast.Call) and attr_tail(v) == "choice" and (v.args or kwargs(v).get("a") is not None)):
        return None
    pop = v.args[0] if v.args else kwargs(v)["a"]
    mask = None
    if isinstance(pop, ast.Subscript) and isinstance(pop.value, ast.Call) and call_name(pop.value) == "np.arange":
        mask = pop.slice
    elif isinstance(pop, ast.Call) and call_name(pop) == "np.flatnonzero" and len(pop.args) == 1:
        mask = pop.args[0]
    elif isinstance(pop, ast.Subscript) and isinstance(pop.value, ast.Call) and call_name(pop.value) in ("np.where", "np.nonzero") and len(pop.value.args) == 1 \
            and isinstance(pop.slice, ast.Constant) and pop.slice.value == 0:
        mask = pop.value.args[0]
    if mask is None:
        return None
    eq = {f"{S}.sample_ids=={sid}", f"{sid}=={S}.sample_ids"}

    def implies(m):
        if U(m).replace(" ", "") in eq:
            return True
        if isinstance(m, ast.BinOp) and isinstance(m.op, ast.BitAnd):
            return implies(m.left) or implies(m.right)
        if isinstance(m, ast.IfExp):
            return implies(m.body) and implies(m.orelse)
        if isinstance(m, ast.Call) and call_name(m) in ("np.logical_and",) and len(m.args) == 2:
            return implies(m.args[0]) or implies(m.args[1])
        return False
    return implies(mask)


def r6(ctx):
    f = ctx.fn(f"{RETRO}.SparseCoverPlateGenerator._generate_and_unmask_initial_plate")
    S = f.params[1]
    loops = [n for n in walk_own(f.node) if isinstance(n, ast.For) and U(n.iter) == f"{S}.unique_sample_ids"]
    ctx.need(len(loops) == 1, f"{f.site()}: per-sample loop not found")
    loop = loops[0]
    sid = U(loop.target)
    g = CFG(f.node)
    lnode = g.nodes_of(loop)[0]
    body_in = [n for n in g.nodes if n.kind == "branch" and n.label == "body" and n.stmt is loop][0]
    # the chosen rows are accumulated either in a list (append) or in a boolean vector over the screen's rows (ACC[idx] = True)
    fsd = single_defs(f.node)
    masks = {n.targets[0].id for n in walk_own(f.node) if isinstance(n, ast.Assign) and len(n.targets) == 1 and isinstance(n.targets[0], ast.Name)
             and U(n.value).replace(" ", "") in (f"np.zeros({S}.size,dtype=bool)", f"np.zeros(len({S}.observations),dtype=bool)")}

    class _W:          # one write of a chosen row: where (anchor node for the CFG), into what, which index expression
        def __init__(self, anchor, acc, value):
            self.anchor, self.acc, self.value = anchor, acc, value
    def writes_in(root):
        out = [_W(c, U(c.func.value), c.args[0]) for c in calls(root, tail="append") if c.args]
        out += [_W(n, U(n.targets[0].value), n.targets[0].slice) for n in walk_own(root) if isinstance(n, ast.Assign) and len(n.targets) == 1 and isinstance(n.targets[0], ast.Subscript)
                and U(n.targets[0].value) in masks and isinstance(n.value, ast.Constant) and n.value.value is True]
        return out
    apps = writes_in(loop)
    acc = {w.acc for w in apps}
    ctx.need(len(acc) == 1, f"{f.site()}: chosen-index accumulator not found")
    acc = acc.pop()
    app_nodes = {id(g.node_containing(w.anchor)) for w in apps}
    ok = g.must_pass(body_in, lnode, lambda n: id(n) in app_nodes)
    ctx.check("R6", f"{f.site()}::every-sample-gets-a-row", ok, "both arms of the per-sample loop append a chosen row",
              "a path through the per-sample loop appends nothing: that sample has no observed experiment in the initial plate")
    # each appended index is drawn from rows of that sample
    par = enclosing_map(f.node)
    good = True
    detail = []
    for w_ in apps:
        c = w_.anchor
        stmt_ = c if isinstance(c, ast.stmt) else par.get(c)
        blk = par.get(stmt_)
        body = blk.body if isinstance(blk, ast.If) and any(stmt_ is x for x in blk.body) else (blk.orelse if isinstance(blk, ast.If) else [])
        benv = {}
        for st in body:
            if isinstance(st, ast.Assign) and isinstance(st.targets[0], ast.Name):
                benv[st.targets[0].id] = st.value
        from engine.astutil import conditional_defs
        outer = conditional_defs(loop.body)          # (a mask chosen by `if c: m = A else: m = B` reads as `A if c else B`)
        fenv = {k: v for k, v in single_defs(f.node).items() if k not in outer and k not in benv}
        env_all = {**fenv, **outer, **benv}
        v = inline(w_.value, {k: x for k, x in env_all.items()})
        verdict = _drawn_among_sample_rows(v, S, sid)
        if verdict is None:
            raise AnalysisError(f"{f.site()}: the population `{U(w_.value)}` of a chosen index is not of the form rows[mask] / flatnonzero(mask)")
        if not verdict:
            good = False
            detail.append(U(w_.value))
    ctx.check("R6", f"{f.site()}::row-of-that-sample", good, f"each chosen index is drawn among rows with sample_ids == {sid}",
              f"a chosen index is not drawn among the rows of the current sample: {detail}")
    wl = [n for n in walk_own(f.node) if isinstance(n, ast.While)]
    ctx.need(len(wl) == 1, f"{f.site()}: cover loop not found")
    w = wl[0]
    rem = None
    t = w.test
    N = Norm(strict=False)
    cov = [k for k in [U(c.func.value) for c in calls(f.node, tail="update")]]
    breaks = [x for x in ast.walk(w) if isinstance(x, ast.Break)]
    ok = False
    if isinstance(t, ast.Constant) and t.value is True:
        # while True: rem = D; if len(rem) == 0: break; BODY
        first = w.body[0] if w.body else None
        second = w.body[1] if len(w.body) > 1 else None
        if isinstance(first, ast.Assign) and isinstance(first.targets[0], ast.Name) and isinstance(second, ast.If) and not second.orelse \
                and len(second.body) == 1 and isinstance(second.body[0], ast.Break):
            rem = first.targets[0].id
            exit_ok = N.b(second.test, integer=True) == N.b(parse_expr(f"len({rem}) == 0"), integer=True)
            alias = {k: v for k, v in fsd.items() if isinstance(v, ast.Attribute)}
            ok = exit_ok and bool(cov) and U(inline(first.value, alias)).replace(" ", "") == f"np.setdiff1d({S}.treatment_ids,list({cov[0]}))" and len(breaks) == 1 \
                and not any(isinstance(n, ast.Assign) and U(n.targets[0]) == rem for n in walk_own(w) if n is not first)
    else:
        if isinstance(t, ast.Compare) and isinstance(t.left, ast.Call) and call_name(t.left) == "len" and isinstance(t.ops[0], ast.Gt) and U(t.comparators[0]) == "0":
            rem = U(t.left.args[0])
        elif isinstance(t, ast.Call) and call_name(t) == "len" and t.args:
            rem = U(t.args[0])
        alias = {k: v for k, v in fsd.items() if isinstance(v, ast.Attribute)}
        defs = [U(inline(n.value, alias)).replace(" ", "") for n in walk_own(f.node) if isinstance(n, ast.Assign) and rem and U(n.targets[0]) == rem]
        ok = rem is not None and len(defs) == 2 and len(set(defs)) == 1 and bool(cov) and defs[0] == f"np.setdiff1d({S}.treatment_ids,list({cov[0]}))" \
            and not breaks and any(isinstance(n, ast.Assign) and U(n.targets[0]) == rem for n in w.body)
    ctx.check("R6", f"{f.site()}::cover-until-none-left", ok, "loops while setdiff(all treatment ids, covered) is non-empty, recomputed each round, no other exit",
              "the cover loop can exit while some treatment is still uncovered (remaining set not recomputed as setdiff1d(treatment_ids, covered), or a break)")
    sites = [s for s in common.screen_sites(ctx) if s.f.qname == f.qname]
    ctx.need(len(sites) == 1, f"{f.site()}: Screen(...) construction not found")
    m = sites[0].kw.get("observation_mask")
    pn = sites[0].kw.get("plate_names")
    pst = [n for n in walk_own(f.node) if isinstance(n, ast.Assign) and isinstance(n.targets[0], ast.Subscript) and U(n.targets[0].value) == U(pn)]
    ok = m is not None and len(pst) == 1 and U(pst[0].targets[0].slice).replace(" ", "") == f"~{U(m)}"
    pinit = [n for n in walk_own(f.node) if isinstance(n, ast.Assign) and U(n.targets[0]) == U(pn)]
    ok = ok and len(pinit) == 1 and "*" in U(pinit[0].value) and f"{S}.size" in U(pinit[0].value)
    ctx.check("R6", f"{f.site()}::one-vector", ok, "rows outside the selection vector form the single unobserved plate; the same vector is the mask",
              "plate labels and observation mask are not derived from one selection vector (unobserved label at ~mask)")


def r7(ctx):
    f = ctx.fn("data.filter_dataset_to_treatments_that_appear_in_at_least_one_combo")
    S = f.params[0]
    # recognised wrong: membership in the reference set decided on treatment *names* (a treatment is a (name, dose) pair: a drug that
    # occurs in a combination at one dose would keep its rows at every other dose)
    env0 = single_defs(f.node)
    by_name = [c for c in calls(f.node) if call_name(c) in ("np.isin", "np.in1d") and c.args
               and U(inline(c.args[0], env0)).replace(" ", "").startswith((f"{S}.treatment_names", f"{S}.treatment_doses"))]
    if by_name:
        ctx.bad("R7", f"{f.site()}::membership-by-treatment-id", f"membership in the set of combination treatments is tested on `{U(by_name[0].args[0])}` "
                f"(`{U(by_name[0])[:90]}`), not on treatment ids: a treatment is a (name, dose) pair, so rows of a drug at a dose that never occurs in a "
                f"combination are kept")
        return
    C04.r7(ctx, rule="R7", sites=[s for s in C04.ROW_CLASS_SITES if s[0] == "data.filter_dataset_to_treatments_that_appear_in_at_least_one_combo"])
    ids = "treatment_ids"
    al_ = [k for k, v in single_defs(f.node).items() if isinstance(v, ast.Attribute) and v.attr == "treatment_ids" and U(v.value) == S]
    if ids not in single_defs(f.node) and len(al_) == 1:
        ids = al_[0]                    # the local copy of <screen>.treatment_ids, whatever it is called
    env = {k: v for k, v in single_defs(f.node).items() if k != ids}
    r = returns(f.node)
    ok = False
    why = "return is not screen.subset(rows).to_screen()"

    def T(x):
        return U(x).replace(" ", "")

    def axis1(c):
        ax = kwargs(c).get("axis", c.args[1] if len(c.args) > 1 else None)
        return ax is not None and T(ax) in ("1", "-1")

    def elem(x):
        """(reference-set expr, polarity) for an element-wise membership mask over the id matrix"""
        x = inline(x, env, depth=1) if isinstance(x, ast.Name) else x
        if isinstance(x, ast.UnaryOp) and isinstance(x.op, ast.Invert):
            m = elem(x.operand)
            return None if m is None else (m[0], not m[1])
        if isinstance(x, ast.Call) and isinstance(x.func, ast.Attribute) and x.func.attr == "reshape":
            return elem(x.func.value)
        if isinstance(x, ast.Call) and call_name(x) in ("np.isin", "np.in1d") and len(x.args) >= 2 and T(x.args[0]) in (ids, f"{ids}.flatten()", f"{ids}.ravel()"):
            inv = kwargs(x).get("invert")
            return (x.args[1], not (inv is not None and T(inv) == "True"))
        # isin(ids, S) | (ids == SENTINEL): membership in S plus the sentinel
        if isinstance(x, ast.BinOp) and isinstance(x.op, ast.BitOr):
            sides = [inline(y, env, depth=1) if isinstance(y, ast.Name) else y for y in (x.left, x.right)]
            isin = [y for y in sides if elem(y) is not None and elem(y)[1] is True]
            ctl = [y for y in sides if isinstance(y, ast.Compare) and len(y.ops) == 1 and isinstance(y.ops[0], ast.Eq)
                   and {T(y.left), T(y.comparators[0])} in ({ids, "CONTROL_SENTINEL_VALUE"}, {ids, "-1"})]
            if len(isin) == 1 and len(ctl) == 1:
                return (parse_expr(f"np.concatenate([{U(elem(isin[0])[0])}, [CONTROL_SENTINEL_VALUE]])"), True)
        return None

    def rows(x):
        """reference-set expr such that x == 'every id of the row is in the set'"""
        x = inline(x, env, depth=1) if isinstance(x, ast.Name) else x
        if isinstance(x, ast.UnaryOp) and isinstance(x.op, ast.Invert):
            y = inline(x.operand, env, depth=1) if isinstance(x.operand, ast.Name) else x.operand
            if isinstance(y, ast.Call) and call_name(y) == "np.any" and y.args and axis1(y):
                m = elem(y.args[0])
                return m[0] if m is not None and m[1] is False else None
            return None
        if isinstance(x, ast.Call) and call_name(x) == "np.all" and x.args and axis1(x):
            m = elem(x.args[0])
            return m[0] if m is not None and m[1] is True else None
        return None

    def reference(x):
        """row selector SEL such that x == unique(ids[SEL]) + {sentinel}"""
        x = inline(x, env)
        parts = None
        if isinstance(x, ast.Call) and call_name(x) in ("np.concatenate", "np.hstack") and x.args and isinstance(x.args[0], (ast.List, ast.Tuple)) and len(x.args[0].elts) == 2:
            parts = list(x.args[0].elts)
        elif isinstance(x, ast.Call) and call_name(x) in ("np.append", "np.union1d") and len(x.args) == 2:
            parts = list(x.args)
        if parts is None:
            return None
        sent = [p_ for p_ in parts if T(p_) in ("CONTROL_SENTINEL_VALUE", "[CONTROL_SENTINEL_VALUE]", "-1", "[-1]", "(CONTROL_SENTINEL_VALUE,)", "np.array([CONTROL_SENTINEL_VALUE])")]
        rest = [p_ for p_ in parts if p_ not in sent]
        if len(sent) != 1 or len(rest) != 1:
            return None
        u = rest[0]
        if isinstance(u, ast.Call) and call_name(u) == "np.setdiff1d" and len(u.args) == 2 and not u.keywords \
                and T(u.args[1]) in ("[CONTROL_SENTINEL_VALUE]", "[-1]", "(CONTROL_SENTINEL_VALUE,)", "np.array([CONTROL_SENTINEL_VALUE])"):
            # unique(X) minus the sentinel, the sentinel then added back: the same set
            a = u.args[0]
        elif isinstance(u, ast.Call) and call_name(u) == "np.unique" and len(u.args) == 1 and not u.keywords:
            a = u.args[0]
        else:
            return None
        while isinstance(a, ast.Call) and isinstance(a.func, ast.Attribute) and a.func.attr in ("flatten", "ravel") or \
                (isinstance(a, ast.Call) and isinstance(a.func, ast.Attribute) and a.func.attr == "reshape" and T(a.args[0]) == "-1"):
            a = a.func.value
        if isinstance(a, ast.Subscript) and T(a.value) == ids and not isinstance(a.slice, (ast.Tuple, ast.Slice)):
            return a.slice
        return None
    if len(r) == 1:
        e = r[0].value
        if isinstance(e, ast.Call) and isinstance(e.func, ast.Attribute) and e.func.attr == "to_screen" and isinstance(e.func.value, ast.Call) \
                and T(e.func.value.func) == f"{S}.subset" and len(e.func.value.args) == 1:
            ref = rows(e.func.value.args[0])
            why = "the kept rows are not `every id of the row is in a reference set`"
            if ref is not None:
                sel = reference(ref)
                why = f"the reference set `{U(inline(ref, env))[:100]}` is not unique({ids}[combination rows]) plus the sentinel"
                if sel is not None:
                    cls = C04.control_count_class(inline(sel, env), ids)
                    ok = cls == ("count", "==", "0")
                    why = f"the reference rows `{U(sel)}` are not the rows without any control"
    ctx.check("R7", f"{f.site()}::keeps-rows-within-reference-set", ok,
              "keeps the rows all of whose ids are in (ids occurring in reference rows) + {sentinel}",
              f"the filter does not keep exactly the rows whose every id is a combination treatment or the control sentinel ({why})")


def r_derived(ctx):
    common.derived_attributes(ctx, "R8", ['size', 'unique_sample_ids', 'n_unique_samples', 'unique_plate_ids'])


def r_views(ctx):
    from . import C14
    ctx.borrow(C14.r3, "R9")


def r_options(ctx):
    common.options_are_live(ctx, "R10", sorted(q for q in ctx.R.classes if q.startswith("batchie.retrospective.")), exempt=())


def r11(ctx):
    """NPlatePerCellLineSmoother: the rows kept are those of the samples that are not dropped - every narrowing of the accumulated row
    vector is `acc AND (S.sample_ids != dropped id)`, under the test `count < self.min_n_cell_line_plates`.  `acc & ids != sid` without the
    parentheses is `(acc & ids) != sid`: Python's `&` binds tighter than a comparison - recognised and reported."""
    f = ctx.fn(f"{RETRO}.NPlatePerCellLineSmoother._smooth_plates")
    S = f.params[1]
    N = Norm(strict=False)
    accs = {n.targets[0].id for n in walk_own(f.node) if isinstance(n, ast.Assign) and len(n.targets) == 1 and isinstance(n.targets[0], ast.Name)
            and U(n.value).replace(" ", "") in (f"np.ones({S}.size,dtype=bool)", f"np.ones(len({S}.observations),dtype=bool)", f"np.ones({S}.size,bool)")}
    if not accs:
        # the other common form: the ids to drop are collected first, the rows kept are those whose id is not among them
        #   DROP = [sid for sid, n in COUNTS.items() if n < self.min_n_cell_line_plates] ;  keep = ~np.isin(S.sample_ids, DROP)
        env = single_defs(f.node)
        subs = [c for c in calls(f.node, tail="subset") if U(c.func.value) == S and len(argv(c)) == 1]
        ctx.need(len(subs) == 1, f"{f.site()}: neither an all-true vector narrowed sample by sample nor `{S}.subset(<rows kept>)` was found")
        keep = inline(argv(subs[0])[0], env)
        drop = None
        if isinstance(keep, ast.UnaryOp) and isinstance(keep.op, ast.Invert) and isinstance(keep.operand, ast.Call) and call_name(keep.operand) == "np.isin" \
                and len(keep.operand.args) == 2 and U(keep.operand.args[0]) == f"{S}.sample_ids" and not keep.operand.keywords:
            drop = keep.operand.args[1]
        elif isinstance(keep, ast.Call) and call_name(keep) == "np.isin" and len(keep.args) == 2 and U(keep.args[0]) == f"{S}.sample_ids" \
                and U(kwargs(keep).get("invert")) == "True":
            drop = keep.args[1]
        if drop is None:
            raise AnalysisError(f"{f.site()}: the rows kept are `{U(keep)[:90]}`; not a form this rule reads")
        while isinstance(drop, ast.Call) and call_name(drop) in ("np.array", "np.asarray", "list", "set", "sorted", "np.fromiter", "tuple") and drop.args:
            drop = inline(drop.args[0], env)
        g_ = drop.generators[0] if isinstance(drop, (ast.ListComp, ast.SetComp, ast.GeneratorExp)) and len(drop.generators) == 1 else None
        if g_ is None or not (isinstance(g_.target, ast.Tuple) and len(g_.target.elts) == 2 and isinstance(g_.iter, ast.Call) and attr_tail(g_.iter) == "items" and len(g_.ifs) == 1
                              and U(drop.elt) == U(g_.target.elts[0])):
            raise AnalysisError(f"{f.site()}: the ids to drop are `{U(drop)[:90]}`; not a selection of the keys of a per-sample counter that this rule reads")
        cnt = U(g_.target.elts[1])
        ctx.check("R11", f"{f.site()}::dropped-ids", N.b(g_.ifs[0], integer=True) == N.b(parse_expr(f"{cnt} < self.min_n_cell_line_plates"), integer=True),
                  "the samples dropped are those with fewer than min_n_cell_line_plates plates; the rows kept are those of all other samples",
                  f"the samples dropped are those with `{U(g_.ifs[0])}`, not `{cnt} < self.min_n_cell_line_plates`")
        return
    ctx.need(len(accs) == 1, f"{f.site()}: the all-true vector of retained rows (np.ones({S}.size, dtype=bool)) was not found")
    acc = next(iter(accs))
    ups = []
    for n in walk_own(f.node):
        if isinstance(n, ast.AugAssign) and U(n.target) == acc:
            ups.append((n, n.value if isinstance(n.op, ast.BitAnd) else None, n.op))
        elif isinstance(n, ast.Assign) and len(n.targets) == 1 and U(n.targets[0]) == acc and not (isinstance(n.value, ast.Call) and call_name(n.value) == "np.ones"):
            ups.append((n, n.value, None))
    ctx.need(len(ups) >= 1, f"{f.site()}: no narrowing of `{acc}` found")
    par_ = enclosing_map(f.node)
    for k, (st, val, op) in enumerate(ups):
        site = f"{f.site()}::narrowing#{k}"
        if isinstance(st, ast.Assign):
            # acc = acc & (ids != sid)      or the slip      acc = acc & ids != sid
            if isinstance(val, ast.Compare) and isinstance(val.left, ast.BinOp) and isinstance(val.left.op, (ast.BitAnd, ast.BitOr)) and acc in names_in(val.left):
                ctx.bad("R11", site, f"`{U(st)}` parses as `({U(val.left)}) {U(val)[len(U(val.left)):].strip()}`: `&` binds tighter than the comparison, so the vector of retained rows "
                        f"is combined with the id column first and the result compared with the id - the rows kept are not `{acc} AND (sample id differs)`")
                continue
            other = None
            if isinstance(val, ast.BinOp) and isinstance(val.op, ast.BitAnd):
                other = val.right if U(val.left) == acc else (val.left if U(val.right) == acc else None)
            elif isinstance(val, ast.Call) and call_name(val) == "np.logical_and" and len(val.args) == 2:
                other = val.args[1] if U(val.args[0]) == acc else (val.args[0] if U(val.args[1]) == acc else None)
        else:
            if isinstance(val, ast.Compare) is False and val is None:
                raise AnalysisError(f"{f.site()}: `{U(st)}` updates `{acc}` with an operator other than &=")
            other = val
        if other is None:
            raise AnalysisError(f"{f.site()}: `{U(st)[:80]}` is not `{acc} = {acc} & <rows to keep>`; not a form this rule reads")
        # the dropped id: the loop variable that the guard's count belongs to
        guards = []
        n_ = st
        while n_ in par_:
            p_ = par_[n_]
            if isinstance(p_, ast.If):
                guards.append((p_.test, any(n_ is b_ for b_ in p_.body)))
            n_ = p_
        sid = None
        if isinstance(other, ast.Compare) and len(other.ops) == 1 and isinstance(other.ops[0], ast.NotEq):
            l, r = U(other.left), U(other.comparators[0])
            sid = r if l == f"{S}.sample_ids" else (l if r == f"{S}.sample_ids" else None)
        ok_form = sid is not None and sid.isidentifier()
        ok_guard = any(pol and N.b(t, integer=True)[0] == "cmp" and "min_n_cell_line_plates" in U(t) and
                       N.b(t, integer=True) == N.b(parse_expr(f"{U(t.left) if isinstance(t, ast.Compare) and 'min_n' not in U(t.left) else U(t.comparators[0])} < self.min_n_cell_line_plates"), integer=True)
                       for t, pol in guards if isinstance(t, ast.Compare))
        if not ok_form:
            raise AnalysisError(f"{f.site()}: `{U(st)[:80]}` does not narrow `{acc}` by `{S}.sample_ids != <id>`; not a form this rule reads")
        if not ok_guard and not any("min_n_cell_line_plates" in U(t) for t, _ in guards):
            raise AnalysisError(f"{f.site()}: the narrowing `{U(st)[:60]}` is not under a comparison with self.min_n_cell_line_plates that this rule can read ({[U(t) for t, _ in guards]})")
        ctx.check("R11", site, ok_form and ok_guard, f"`{acc}` is narrowed to the rows whose sample id differs from a sample with fewer than min_n_cell_line_plates plates",
                  f"`{U(st)[:90]}` under {[U(t) for t, _ in guards]}: not `{acc} AND ({S}.sample_ids != <dropped sample>)` for samples with count < self.min_n_cell_line_plates")


def stmt_conditions_of(f):
    from engine.astutil import stmt_conditions
    return stmt_conditions(f.node.body)


RULE_FUNCS = [r1, r2, r3, r4, r5, r6, r7, r_derived, r_views, r_options, r11]


def run(ctx):
    for fn in RULE_FUNCS:
        fn(ctx)


def _rep(a, b):
    def edit(t):
        if a not in t:
            raise KeyError(a[:40])
        return t.replace(a, b, 1)
    return edit


WITNESSES = [
    ("parentheses of the narrowing dropped", "batchie.retrospective",
     _rep("selection_vector = selection_vector & (screen.sample_ids != sample_id)", "selection_vector = selection_vector & screen.sample_ids != sample_id"), ["R11"]),
    ("samples with exactly the minimum dropped too", "batchie.retrospective",
     _rep("            if plate_count < self.min_n_cell_line_plates:", "            if plate_count <= self.min_n_cell_line_plates:"), ["R11"]),
    ("group columns sorted together with the sample column", "batchie.retrospective",
     _rep("        grouping_tuples = np.hstack([sample_id_col_vector, treatment_group_ids_sorted])\n", "        grouping_tuples = np.sort(np.hstack([sample_id_col_vector, treatment_group_ids]), axis=1)\n"), ["R2"]),
    ("small samples skipped again", "batchie.retrospective",
     _rep("            n_plates = math.ceil(len(sample_indices) / float(self.max_plate_size))\n            plates = np.array_split(rng.permutation(sample_indices), n_plates)\n            for plate in plates:\n                plate_indices.append(plate)",
          "            if len(sample_indices) > self.max_plate_size:\n                n_plates = math.ceil(len(sample_indices) / float(self.max_plate_size))\n                plates = np.array_split(rng.permutation(sample_indices), n_plates)\n                for plate in plates:\n                    plate_indices.append(plate)"), ["R1"]),
    ("stale ids after re-encoding", "batchie.retrospective",
     _rep("                selection_vector = selection_vector & (screen.sample_ids != sample_id)\n\n        return screen.subset(selection_vector).to_screen()",
          "                screen = screen.subset(screen.sample_ids != sample_id).to_screen()\n\n        return screen"), ["R5"]),
    ("sample column dropped from pairwise key", "batchie.retrospective",
     _rep("grouping_tuples = np.hstack([sample_id_col_vector, treatment_group_ids_sorted])", "grouping_tuples = np.hstack([treatment_group_ids_sorted])"), ["R2"]),
    ("merge list not filtered by sample", "batchie.retrospective",
     _rep("            plate_heap = [\n                p\n                for p in current_screen.plates\n                if self._get_plate_sample_id(p) == sample_id\n            ]", "            plate_heap = [p for p in current_screen.plates]"), ["R3"]),
    ("fixed size keeps small plates", "batchie.retrospective",
     _rep("            if plate.size < self.plate_size:\n                logger.info(\"Dropping plate of size {}\".format(plate.size))\n                continue", "            if plate.size < self.plate_size - 1:\n                logger.info(\"Dropping plate of size {}\".format(plate.size))\n                continue"), ["R4"]),
    ("min merge stops late", "batchie.retrospective", _rep("if (smallest_plate.size + second_smallest_plate.size) > self.min_size:", "if (smallest_plate.size + second_smallest_plate.size) >= self.min_size:"), ["R3"]),
    ("cover loop breaks early", "batchie.retrospective",
     _rep("            chosen_selection_index = rng.choice(selection_indices, 1)\n            chosen_selection_indices.append(chosen_selection_index)\n            covered_treatments.update(", "            chosen_selection_index = rng.choice(selection_indices, 1)\n            chosen_selection_indices.append(chosen_selection_index)\n            if len(chosen_selection_indices) > screen.size:\n                break\n            covered_treatments.update("), ["R6"]),
    ("combination filter accepts partial rows", "batchie.data",
     _rep("    treatment_selection_vector = np.all(\n        ~((treatment_ids == CONTROL_SENTINEL_VALUE).reshape(treatment_ids.shape)),\n        axis=1,\n    )", "    treatment_selection_vector = np.sum(treatment_ids != CONTROL_SENTINEL_VALUE, axis=1) > 1"), ["R7"]),
]
