"""C09 - predictions are pure, row-wise, treatment-order-symmetric and control-neutral."""
import ast
import copy

from engine.astutil import U, calls, kwargs, single_defs, inline, walk_own, call_name, attr_tail, returns, enclosing_map, names_in, inline_calls
from engine.fresh import Freshness, FRESH, BORROWED, UNKNOWN
from engine.norm import Norm, Poly, parse_expr
from engine.repo import AnalysisError
from . import common

EXPLANATION = (
    "Static decision of the structural clauses of C09 for both shipped MCMC sample types: (R1) nothing reachable "
    "from their predict_* methods stores to an object attribute or mutates a borrowed array, and the control-zeroing "
    "helper writes into a provably fresh gather; (R2) the prediction code is row-wise: element-wise operations plus "
    "reductions over the embedding axis only, no whole-array reduction or data-dependent branch; (R3) the modelled "
    "mean is invariant under swapping the two treatment columns (normal-form equality); (R4) every gather of a "
    "treatment-indexed parameter goes through the zeroing helper, which zeroes exactly the rows whose id is the "
    "sentinel, and the pair formula with the second treatment zeroed equals the single-agent formula; (R5) viability "
    "= clip(expit(mean), 0.01, 0.99), variance = repeat(1/precision, size); (R6) the stacked/averaged helpers fill "
    "row i from get_theta(i) with the like-named predict method and divide the sum by n_thetas.")
RULES = {
    "R1": "purity: no attribute store / borrowed-array mutation reachable from predict_*; helper mutates a fresh gather",
    "R2": "row-wise: only embedding-axis reductions, no whole-array reduction, no data-dependent branching",
    "R3": "treatment-order symmetry of the mean (S2 invariance of the normal form)",
    "R4": "control neutrality: who-may-index, helper zeroes sentinel rows of the same index array, pair|second=control == single",
    "R5": "output transforms: clip(expit(Mu), 0.01, 0.99); repeat(1/precision, data.size)",
    "R6": "stacked/averaged helpers: row i <- get_theta(i).<same-named predict>(screen), i in range(n_thetas); mean = sum / n_thetas",
    "R7": "the derived screen attributes this property's code relies on (size, treatment_arity) have their documented definitions in ScreenBase and every override",
    "R8": "the sample container the code indexes (ThetaHolder.add_theta / get_theta) refuses out-of-range indices and returns the i-th added sample (C10.R3 run here)",
    "R9": "the view algebra predictions on subsets rely on: attribute properties read the parent at the selected rows, subset composes selections, combine / concat are unions (C14.R1, C14.R3 run here)",
    "R10": "samples come back from a file in the order they were saved (ThetaHolder save/load agreement, C10.R1 run here): the stacked helpers' rows are the collection's samples in order",
    "R11": "predictions are made on the view's rows as they are now: no getter of a view or of the screen keeps a result derived from state that Plate.merge / set_observed mutate",
}
MIN = {"R1": 8, "R2": 3, "R3": 2, "R4": 5, "R5": 4, "R6": 5, "R7": 2, "R8": 3, "R9": 12, "R10": 9, "R11": 2}
TRUSTED = ["numpy: advanced indexing copies; negative index -1 selects the last row (which the helper then zeroes)",
           "expit/clip are element-wise"]
TECHNIQUE = "freshness analysis over the predict call closure, polynomial normal forms with symmetry/substitution checks"
LEVEL_TEXT = ("Row-wise purity, symmetry and control-neutrality are algebraic/shape facts of the prediction code: decided "
              "once for all parameter values, screens and subsets by normal-form comparison and an aliasing analysis.")
LEVEL_NOTE = ("Trusted: numpy copy semantics of advanced indexing. Undecided: floating-point identity of subset vs whole "
              "predictions (follows from row-wise purity for element-wise numpy kernels).")

SC = "batchie.models.sparse_combo"
SCI = "batchie.models.sparse_combo_interaction"
HELPER = "copy_array_with_control_treatments_set_to_zero"


def helper_fn(ctx):
    """the control-zeroing helper with `np.copyto(dst, 0, where=<row mask broadcast>)` read as the store `dst[mask] = 0`"""
    import copy as _copy
    from engine.normalize import copyto_as_store
    f = ctx.fn(f"batchie.common.{HELPER}")
    g = _copy.copy(f)
    g.node = copyto_as_store(f.node)
    return g


def helper_where_form(ctx, f):
    """the helper written without a store:  return np.where(<ids != SENTINEL, broadcast over the trailing axes>, arr[ids, ...], <zeros>)
    -> (gather expr, mask core expr, polarity True if the gather is taken where the mask holds) or None"""
    env = single_defs(f.node)
    rets = returns(f.node)
    if len(rets) != 1:
        return None
    e = inline(rets[0].value, env)
    if not (isinstance(e, ast.Call) and call_name(e) == "np.where" and len(e.args) == 3 and not e.keywords):
        return None
    m, a, b = e.args

    def zeros(x):
        t = U(x).replace(" ", "")
        return t in ("0", "0.0") or (isinstance(x, ast.Call) and call_name(x) in ("np.zeros_like", "np.zeros") and True)

    def core(x):
        # strip reshapes / added trailing axes: they only broadcast the per-row flag over the embedding axes
        while True:
            if isinstance(x, ast.Call) and call_name(x) in ("np.reshape", "np.expand_dims") and x.args:
                x = x.args[0]
            elif isinstance(x, ast.Call) and isinstance(x.func, ast.Attribute) and x.func.attr == "reshape":
                x = x.func.value
            elif isinstance(x, ast.Subscript) and isinstance(x.slice, ast.Tuple) and all((isinstance(t, ast.Constant) and t.value in (None, Ellipsis)) or
                                                                                       (isinstance(t, ast.Slice) and t.lower is None and t.upper is None) for t in x.slice.elts):
                x = x.value
            else:
                return x
    if zeros(b) and not zeros(a):
        return a, core(m), True
    if zeros(a) and not zeros(b):
        return b, core(m), False
    return None


def predict_roots(ctx):
    R = ctx.R
    out = []
    for cq in (f"{SC}.SparseDrugComboMCMCSample", f"{SCI}.SparseDrugComboInteractionMCMCSample"):
        ctx.R.cls(cq)
        for m in ("predict_viability", "predict_conditional_mean", "predict_conditional_variance"):
            q = f"{cq}.{m}"
            ctx.fn(q)
            out.append(q)
    for q in (f"{SC}.predict", f"{SC}.predict_single_drug", f"batchie.common.{HELPER}"):
        ctx.fn(q)
        out.append(q)
    out += [q for q in R.funcs if q.startswith("batchie.models.main.predict_")]
    return out


def r1(ctx):
    R, T = ctx.R, ctx.T
    closure = T.reachable(predict_roots(ctx))
    ctx.functions.update(closure)
    n = 0
    for q in sorted(closure):
        f = R.funcs[q]
        if f.name == "__init__":
            continue
        fr = Freshness(f.node)
        bad = []
        for node, tgt, kind in fr.mutations():
            v = fr.value(tgt)
            if kind == "augmented-assignment" and isinstance(tgt, ast.Name) and v[0] == FRESH:
                continue
            if v[0] == BORROWED:
                bad.append(f"{kind} on `{U(tgt)}` (aliases `{v[1]}`)")
            elif v[0] == UNKNOWN and q.endswith(HELPER):
                raise AnalysisError(f"{f.site()}: cannot prove `{U(tgt)}` fresh")
        for node in walk_own(f.node):
            if isinstance(node, (ast.Assign, ast.AugAssign)):
                for t in (node.targets if isinstance(node, ast.Assign) else [node.target]):
                    if isinstance(t, ast.Attribute):
                        bad.append(f"stores attribute `{U(t)}`")
        n += 1
        if bad:
            ctx.bad("R1", f"{f.site()}::purity", "prediction path mutates state it does not own: " + "; ".join(bad))
        else:
            ctx.ok("R1", f"{f.site()}::purity", "no attribute store, no mutation of a borrowed array")
    # anchor: helper's zeroing writes into a fresh gather
    f = helper_fn(ctx)
    fr = Freshness(f.node)
    st = [m for m in fr.mutations() if m[2] == "subscript-store"]
    if not st and helper_where_form(ctx, f) is not None:
        ctx.ok("R1", f"{f.site()}::zeroes-a-copy", "the helper builds its result with np.where (a new array): nothing it is given is modified")
        return
    ctx.need(len(st) == 1, f"{HELPER}: expected exactly one zeroing store")
    v = fr.value(st[0][1])
    ctx.check("R1", f"{f.site()}::zeroes-a-copy", v[0] == FRESH, f"`{U(st[0][1])}` is an advanced-index gather (copy)",
              f"the helper zeroes `{U(st[0][1])}` which aliases `{v[1]}`: the posterior sample itself is modified")


REDUCERS = {"np.sum", "np.mean", "np.prod", "np.max", "np.min", "np.all", "np.any", "np.std", "np.var", "np.median", "np.cumsum",
            "np.argmax", "np.argmin", "np.sort", "np.argsort", "np.unique", "np.count_nonzero", "np.nansum", "np.nanmean"}
RED_METHODS = {"sum", "mean", "prod", "max", "min", "all", "any", "std", "var", "cumsum", "argmax", "argmin", "sort", "argsort"}


def r2(ctx):
    for q in (f"{SC}.predict", f"{SC}.predict_single_drug", f"{SCI}.SparseDrugComboInteractionMCMCSample.predict_conditional_mean",
              f"{SCI}.SparseDrugComboInteractionMCMCSample.predict_viability"):
        f = ctx.fn(q)
        bad = []
        for c in calls(f.node):
            nm = call_name(c)
            red = nm in REDUCERS or (isinstance(c.func, ast.Attribute) and c.func.attr in RED_METHODS and not (nm or "").startswith("np."))
            if not red:
                continue
            ax = kwargs(c).get("axis")
            if ax is None:
                if nm in REDUCERS and len(c.args) > 1:
                    ax = c.args[1]
                elif nm not in REDUCERS and c.args:
                    ax = c.args[0]
            if ax is None or U(ax) not in ("-1", "1"):
                bad.append(f"`{U(c)[:60]}` reduces over {'all axes' if ax is None else 'axis ' + U(ax)} (only the embedding axis -1 is row-wise)")
        for n in walk_own(f.node):
            if isinstance(n, (ast.If, ast.IfExp, ast.While)):
                t = n.test
                tn = {x for x in names_in(t)}
                data_dep = any(isinstance(x, ast.Attribute) and x.attr in ("treatment_ids", "sample_ids", "size", "observations", "plate_ids")
                               for x in ast.walk(t))
                if data_dep:
                    bad.append(f"branches on the rows present: `{U(t)[:60]}`")
        ctx.check("R2", f"{f.site()}::row-wise", not bad, "element-wise operations and embedding-axis reductions only",
                  "a row's prediction can depend on which other rows are in the screen/subset: " + "; ".join(bad))


def gather_atomizer(data, sample, swap=None, zero_col=None):
    """atoms: G(param, col) for helper gathers, S(param) for sample-indexed gathers.  `swap` renames
    treatment columns, `zero_col` replaces that column's gathers by 0 (a control contributes nothing)."""
    def at(e, N):
        if isinstance(e, ast.Call) and attr_tail(e) == HELPER and len(e.args) == 2:
            idx = U(e.args[1]).replace(" ", "")
            for c in (0, 1, 2):
                if idx == f"{data}.treatment_ids[:,{c}]":
                    c2 = swap.get(c, c) if swap else c
                    if zero_col is not None and c2 == zero_col:
                        return Poly()
                    return Poly.atom(("G", U(e.args[0]).split(".")[-1], c2))
            raise AnalysisError(f"helper gather with unrecognised index `{U(e.args[1])}`")
        if isinstance(e, ast.Subscript) and U(e.slice) == f"{data}.sample_ids":
            return Poly.atom(("S", U(e.value).split(".")[-1]))
        if isinstance(e, ast.Subscript) and "treatment_ids" in U(e.slice):
            return Poly.atom(("RAW", U(e.value).split(".")[-1], U(e.slice).replace(" ", "")))
        if isinstance(e, ast.Attribute) and isinstance(e.value, ast.Name) and e.value.id == sample:
            return Poly.atom(("P", e.attr))
        return None
    return at


def mean_form(ctx, q, swap=None, zero_col=None):
    """normal form of the modelled mean returned by function q (non-viability return)"""
    f = ctx.fn(q)
    ps = [p for p in f.params]
    if ps[0] == "self":
        sample, data = "self", ps[1]
    else:
        sample, data = ps[0], ps[1]
    env = single_defs(f.node)
    rets = returns(f.node)
    mean_ret = None
    for r in rets:
        v = inline_calls(inline(r.value, env), ctx.R, f.mod, keep=(HELPER,))
        if not any(isinstance(x, ast.Call) and call_name(x) in ("expit", "np.exp") for x in ast.walk(v)) or len(rets) == 1:
            mean_ret = v
    ctx.need(mean_ret is not None, f"{f.site()}: mean return not found")
    N = Norm(atomizer=gather_atomizer(data, sample, swap, zero_col), strict=False)
    return N.n(mean_ret)


def r3(ctx):
    for q in (f"{SC}.predict", f"{SCI}.SparseDrugComboInteractionMCMCSample.predict_conditional_mean"):
        base = mean_form(ctx, q)
        sw = mean_form(ctx, q, swap={0: 1, 1: 0})
        raw = base.mentions(lambda a: a[0] == "RAW")
        ctx.check("R3", f"{ctx.fn(q).site()}::swap-columns", base == sw and not raw,
                  f"mean is invariant under exchanging treatment columns 0 and 1 ({len(base.t)} terms)",
                  "the modelled mean changes when the two treatment columns are exchanged (terms differ after the swap)")
    # viability of the interaction sample: single-effect product over both columns
    f = ctx.fn(f"{SCI}.SparseDrugComboInteractionMCMCSample.predict_viability")
    lc = [n for n in walk_own(f.node) if isinstance(n, ast.ListComp)]
    ok = False
    fenv = single_defs(f.node)
    if len(lc) == 1 and isinstance(lc[0].elt, ast.BinOp) and isinstance(lc[0].elt.op, ast.Mult) and len(lc[0].generators) == 1 and not lc[0].generators[0].ifs:
        gen = lc[0].generators[0]
        tn = [U(t) for t in gen.target.elts] if isinstance(gen.target, ast.Tuple) else []
        data = f.params[1]
        its = [U(inline(a, fenv)).replace(" ", "") for a in gen.iter.args] if isinstance(gen.iter, ast.Call) and call_name(gen.iter) == "zip" else []
        role = dict(zip(tn, its))
        # nested targets / a row of the id matrix destructured in the target: zip(sample_ids, treatment_ids[(, :2)]) with (c, (d1, d2))
        if isinstance(gen.target, ast.Tuple) and any(isinstance(t, ast.Tuple) for t in gen.target.elts) and len(its) == len(gen.target.elts):
            role = {}
            for t, src in zip(gen.target.elts, its):
                if isinstance(t, ast.Name):
                    role[t.id] = src
                elif isinstance(t, ast.Tuple) and all(isinstance(x, ast.Name) for x in t.elts) and src in (f"{data}.treatment_ids", f"{data}.treatment_ids[:,:{len(t.elts)}]",
                                                                                                          f"{data}.treatment_ids[:,0:{len(t.elts)}]"):
                    for j, x in enumerate(t.elts):
                        role[x.id] = f"{data}.treatment_ids[:,{j}]"
            tn = list(role)
        cenv = {k: v for k, v in fenv.items() if k not in tn}
        l, r = U(inline(lc[0].elt.left, cenv)).replace(" ", ""), U(inline(lc[0].elt.right, cenv)).replace(" ", "")
        c = [k for k, v in role.items() if v == f"{data}.sample_ids"]
        d0 = [k for k, v in role.items() if v == f"{data}.treatment_ids[:,0]"]
        d1 = [k for k, v in role.items() if v == f"{data}.treatment_ids[:,1]"]
        if c and d0 and d1:
            ok = {l, r} == {f"self.single_effect_lookup[{c[0]},{d0[0]}]", f"self.single_effect_lookup[{c[0]},{d1[0]}]"}
    ctx.check("R3", f"{f.site()}::single-effect-product", ok, "product of the two single-agent effects of the same sample (commutative)",
              "the single-agent effect term is not lookup[c, d1] * lookup[c, d2] over the row's sample and both treatment columns")


def r4(ctx):
    R = ctx.R
    # who-may-index: treatment-indexed parameters (V0, V1, V2) are gathered only through the helper
    for q in (f"{SC}.predict", f"{SC}.predict_single_drug", f"{SCI}.SparseDrugComboInteractionMCMCSample.predict_conditional_mean"):
        f = ctx.fn(q)
        raw = []
        fenv = single_defs(f.node)
        for n in walk_own(f.node):
            if isinstance(n, ast.Subscript) and isinstance(n.value, ast.Attribute) and n.value.attr in ("V0", "V1", "V2") and "treatment_ids" in U(inline(n.slice, fenv)):
                raw.append(U(n)[:60])
        nh = len([c for c in calls(f.node) if attr_tail(c) == HELPER])
        ctx.check("R4", f"{f.site()}::gathers-through-helper", not raw and nh >= 1, f"{nh} treatment gathers, all through the zeroing helper",
                  f"treatment-indexed parameters are gathered directly by treatment ids ({raw}): a control id (-1) would pick the last "
                  f"treatment's embedding instead of contributing nothing")
    # the helper
    f = helper_fn(ctx)
    arr, ids = f.params[0], f.params[1]
    env = single_defs(f.node)
    st = [n for n in walk_own(f.node) if isinstance(n, ast.Assign) and isinstance(n.targets[0], ast.Subscript)]
    wf = helper_where_form(ctx, f) if not st else None
    if wf is not None:
        g_, m_, pol_ = wf
        N_ = Norm(strict=False)

        def strip_arr(x):
            while isinstance(x, ast.Call) and call_name(x) in ("np.asarray", "np.array") and x.args:
                x = x.args[0]
            return x
        mm = m_
        if isinstance(mm, ast.Compare):
            import copy as _c
            mm = _c.deepcopy(mm)
            mm.left = strip_arr(mm.left)
            mm.comparators = [strip_arr(c_) for c_ in mm.comparators]
        want_keep = (N_.b(parse_expr(f"{ids} != CONTROL_SENTINEL_VALUE")), N_.b(parse_expr(f"{ids} != -1")))
        want_zero = (N_.b(parse_expr(f"{ids} == CONTROL_SENTINEL_VALUE")), N_.b(parse_expr(f"{ids} == -1")))
        sel_ok = N_.b(mm) in (want_keep if pol_ else want_zero)
        g_ok = isinstance(g_, ast.Subscript) and U(g_.value) == arr and U(g_.slice).replace(" ", "") in (f"({ids},...)", f"{ids},...", ids, f"({ids},Ellipsis)")
        sentinel = R.const_value(f.mod, "CONTROL_SENTINEL_VALUE")
        sent_ok = sentinel is not None and U(sentinel) == "-1"
        ctx.check("R4", f"{f.site()}::zeroes-sentinel-rows", g_ok and sel_ok and sent_ok,
                  "np.where(ids != CONTROL_SENTINEL_VALUE (-1), arr[ids], 0): the gather where the row is treated, zero where it is the control",
                  f"helper: gather `{U(g_)}`, kept where `{U(m_)}` is {pol_}, sentinel {U(sentinel) if sentinel is not None else None}")
        st = None
    if st is not None:
        ctx.need(len(st) == 1, f"{HELPER}: zeroing store not found")
    if st is None:
        pair0 = mean_form(ctx, f"{SC}.predict", zero_col=1)
        single = mean_form(ctx, f"{SC}.predict_single_drug")
        ctx.check("R4", "models.sparse_combo.predict|second=control==predict_single_drug", pair0 == single,
                  "the pair formula with the second treatment's gathers zeroed equals the single-agent formula",
                  "a (treatment, control) pair is not predicted like the single agent: the formulas differ after zeroing the control's terms")
        return
    tgt = st[0].targets[0]
    res = U(tgt.value)
    gathers = [n for n in walk_own(f.node) if isinstance(n, ast.Assign) and isinstance(n.targets[0], ast.Name) and n.targets[0].id == res]
    ctx.need(len(gathers) == 1, f"{HELPER}: gather assignment not found")
    g = gathers[0].value
    g_ok = isinstance(g, ast.Subscript) and U(g.value) == arr and U(g.slice).replace(" ", "") in (f"({ids},...)", f"{ids},...", ids, f"({ids},Ellipsis)")
    sl = tgt.slice
    first = sl.elts[0] if isinstance(sl, ast.Tuple) else sl
    N = Norm(strict=False)
    sentinel = R.const_value(f.mod, "CONTROL_SENTINEL_VALUE")
    sent_ok = sentinel is not None and U(sentinel) == "-1"
    sel_ok = N.b(inline(first, env)) in (N.b(parse_expr(f"{ids} == CONTROL_SENTINEL_VALUE")), N.b(parse_expr(f"{ids} == -1")))
    val_ok = U(st[0].value) in ("0.0", "0")
    ret_ok = [U(r.value) for r in returns(f.node)] == [res]
    ctx.check("R4", f"{f.site()}::zeroes-sentinel-rows", g_ok and sel_ok and val_ok and ret_ok and sent_ok,
              "gathers arr[ids], zeroes the rows where ids == CONTROL_SENTINEL_VALUE (-1) of the same index array, returns the copy",
              f"helper: gather `{U(g)}`, rows zeroed `{U(first)}` := {U(st[0].value)}, returns {[U(r.value) for r in returns(f.node)]}, "
              f"sentinel {U(sentinel) if sentinel is not None else None}")
    # pair with second treatment = control  ==  single agent
    pair0 = mean_form(ctx, f"{SC}.predict", zero_col=1)
    single = mean_form(ctx, f"{SC}.predict_single_drug")
    ctx.check("R4", "models.sparse_combo.predict|second=control==predict_single_drug", pair0 == single,
              "the pair formula with the second treatment's gathers zeroed equals the single-agent formula",
              "a (treatment, control) pair is not predicted like the single agent: the formulas differ after zeroing the control's terms")


def r5(ctx):
    for q in (f"{SC}.predict", f"{SC}.predict_single_drug"):
        f = ctx.fn(q)
        from engine.astutil import path_returns
        paths = path_returns(f.node)
        ctx.need(paths is not None, f"{f.site()}: body is outside the assignment/if fragment the path enumeration handles")
        vr, mu = [], []
        for conds, ret in paths:
            pol = None
            for t, p_ in conds:
                tt = U(t).replace(" ", "")
                if tt == "viability":
                    pol = p_
                elif tt == "notviability":
                    pol = not p_
            (vr if pol else mu).append(ret) if pol is not None else None
        ctx.need(len(vr) == 1 and len(mu) == 1 and vr[0] is not None and mu[0] is not None, f"{f.site()}: viability return not found")
        N = Norm(strict=False)
        want = N.key(ast.Call(func=parse_expr("np.clip"), args=[ast.Call(func=ast.Name(id="expit", ctx=ast.Load()), args=[mu[0]], keywords=[])],
                              keywords=[ast.keyword(arg="a_min", value=ast.Constant(value=0.01)), ast.keyword(arg="a_max", value=ast.Constant(value=0.99))]))
        vexpr = inline_calls(vr[0], ctx.R, f.mod, keep=(HELPER,))
        ctx.check("R5", f"{f.site()}::viability", N.key(vexpr) == want, "viability = clip(expit(Mu), 0.01, 0.99)",
                  f"viability is `{U(vexpr)[:200]}`, not np.clip(expit(<the mean return>), 0.01, 0.99)")
    for cq in (f"{SC}.SparseDrugComboMCMCSample", f"{SCI}.SparseDrugComboInteractionMCMCSample"):
        f = ctx.fn(f"{cq}.predict_conditional_variance")
        data = f.params[1]
        env = single_defs(f.node)
        r = returns(f.node)
        N = Norm(strict=False)
        got = N.key(inline(r[0].value, env)) if len(r) == 1 else None
        want = N.key(parse_expr(f"np.repeat(1 / self.precision, repeats={data}.size)"))
        ctx.check("R5", f"{f.site()}::variance", got == want, "variance = repeat(1/precision, data.size)",
                  f"variance is `{U(inline(r[0].value, env)) if r else None}`")


def r6(ctx):
    table = {"predict_viability_all": "predict_viability", "predict_mean_all": "predict_conditional_mean",
             "predict_variance_all": "predict_conditional_variance", "predict_mean_avg": "predict_conditional_mean",
             "predict_viability_avg": "predict_viability"}
    for fn, meth in table.items():
        f = ctx.fn(f"models.main.{fn}")
        screen, thetas = f.params[0], f.params[1]
        loops = [n for n in walk_own(f.node) if isinstance(n, ast.For)]
        problems = []
        fenv = single_defs(f.node)
        if len(loops) != 1 or U(inline(loops[0].iter, fenv)) != f"range({thetas}.n_thetas)" or not isinstance(loops[0].target, ast.Name):
            # one-level helper: return _helper(screen, thetas, "<method>")
            r = returns(f.node)
            if len(r) == 1 and isinstance(r[0].value, ast.Call) or (len(r) == 1 and isinstance(r[0].value, ast.Attribute)):
                v = r[0].value
                while isinstance(v, ast.Attribute):
                    v = v.value
                strs = [a.value for a in list(v.args) + [k.value for k in v.keywords] if isinstance(a, ast.Constant) and isinstance(a.value, str)] if isinstance(v, ast.Call) else []
                if strs:
                    ctx.check("R6", f"{f.site()}::method", strs == [meth], f"delegates with method name `{meth}`",
                              f"{fn} delegates with method name {strs} but must stack `{meth}`")
                    continue
            # recognised wrong: the result has `thetas.n_thetas` rows (the holder's capacity) but the loop walks the holder itself, which
            # yields only the samples added so far: a holder that is not full gives trailing all-zero rows instead of a refusal
            if len(loops) == 1:
                it_ = inline(loops[0].iter, fenv)
                src_ = it_.args[0] if isinstance(it_, ast.Call) and call_name(it_) == "enumerate" and it_.args else it_
                alloc = [c for c in calls(f.node) if (call_name(c) or "").split(".")[-1] in ("zeros", "empty", "full", "ones") and f"{thetas}.n_thetas" in U(c)]
                if U(src_) == thetas and alloc:
                    ctx.bad("R6", f"{f.site()}::one-row-per-sample", f"the result is allocated with `{thetas}.n_thetas` rows but filled by iterating `{U(it_)}`: "
                            f"a holder with fewer samples than its capacity yields trailing all-zero rows that belong to no posterior sample (get_theta refused)")
                    continue
            raise AnalysisError(f"{f.site()}: loop `for i in range({thetas}.n_thetas)` not found")
        loop = loops[0]
        i = loop.target.id
        lenv = {}
        for n in walk_own(loop):
            if isinstance(n, ast.Assign) and len(n.targets) == 1 and isinstance(n.targets[0], ast.Name):
                lenv[n.targets[0].id] = n.value
        pc = [c for c in calls(loop) if isinstance(c.func, ast.Attribute) and c.func.attr.startswith("predict_")]
        if len(pc) != 1:
            problems.append(f"{len(pc)} predict calls in the loop")
        else:
            c = pc[0]
            recv = inline(c.func.value, lenv)
            if c.func.attr != meth:
                problems.append(f"stacks `{c.func.attr}` instead of `{meth}`")
            if U(recv) != f"{thetas}.get_theta({i})":
                problems.append(f"receiver is `{U(recv)}`, not {thetas}.get_theta({i})")
            if [U(a) for a in c.args] != [screen]:
                problems.append(f"predicts on `{[U(a) for a in c.args]}`, not `{screen}`")
        if fn.endswith("_all") and fn != "predict_variance_all":
            st = [n for n in walk_own(loop) if isinstance(n, ast.Assign) and isinstance(n.targets[0], ast.Subscript)]
            tgt0 = st[0].targets[0] if len(st) == 1 else None
            if tgt0 is not None and isinstance(tgt0.value, ast.Name) and isinstance(lenv.get(tgt0.value.id), ast.Subscript) and U(tgt0.slice) in (":", "...", "Ellipsis"):
                tgt0 = lenv[tgt0.value.id]       # row = result[i, :]; row[:] = ...   writes through the view
            sl0 = tgt0.slice if tgt0 is not None else None
            first = sl0.elts[0] if isinstance(sl0, ast.Tuple) else sl0
            if sl0 is None or U(first) != i:
                problems.append("row index of the stacked result is not the sample index")
        if fn.endswith("_avg"):
            r = returns(f.node)
            acc = [n for n in walk_own(loop) if isinstance(n, (ast.Assign, ast.AugAssign))]
            if len(r) != 1 or not (isinstance(r[0].value, ast.BinOp) and isinstance(r[0].value.op, ast.Div) and U(inline(r[0].value.right, fenv)) == f"{thetas}.n_thetas"):
                problems.append(f"average returns `{U(r[0].value) if r else None}`, not sum / {thetas}.n_thetas")
            else:
                accn = U(r[0].value.left)
                upd = [n for n in acc if isinstance(n, ast.Assign) and U(n.targets[0]) == accn] + [n for n in acc if isinstance(n, ast.AugAssign) and U(n.target) == accn]
                forms = {U(n.value).replace(" ", "") for n in upd if isinstance(n, ast.Assign)}
                ok = upd and all((isinstance(n, ast.AugAssign) and isinstance(n.op, ast.Add)) or
                                 (isinstance(n, ast.Assign) and isinstance(n.value, ast.BinOp) and isinstance(n.value.op, ast.Add)
                                  and accn in (U(n.value.left), U(n.value.right))) for n in upd)
                if not ok:
                    problems.append(f"accumulator `{accn}` is not a running sum")
        ctx.check("R6", f"{f.site()}::row-per-sample", not problems, f"row i <- {thetas}.get_theta(i).{meth}({screen}) for i in range(n_thetas)",
                  "; ".join(problems))


def run(ctx):
    r1(ctx)
    r2(ctx)
    r3(ctx)
    r4(ctx)
    r5(ctx)
    r6(ctx)


def r_derived(ctx):
    common.derived_attributes(ctx, "R7", ['size', 'treatment_arity'])


def r_holder(ctx):
    from . import C10
    ctx.borrow(C10.r3, "R8")


def r_br9(ctx):
    from . import C14
    ctx.borrow(C14.r1, "R9")
    ctx.borrow(C14.r3, "R9")


def r_br10(ctx):
    from . import C10
    ctx.borrow(C10.r1, "R10")


def r11(ctx):
    common.no_stale_memo(ctx, "R11")


RULE_FUNCS = [r1, r2, r3, r4, r5, r6, r_derived, r_holder, r_br9, r_br10, r11]


def _rep(a, b):
    def edit(t):
        if a not in t:
            raise KeyError(a[:40])
        return t.replace(a, b, 1)
    return edit


WITNESSES = [
    ("view caches its sample ids", "batchie.data",
     _rep("    @property\n    def sample_ids(self):\n        return self.screen.sample_ids[self.selection_vector]", "    @functools.cached_property\n    def sample_ids(self):\n        return self.screen.sample_ids[self.selection_vector]"), ["R11"]),
    ("helper zeroes a view", "batchie.common", _rep("results = arr[treatment_array, ...]", "results = arr[...]"), ["R1", "R4"]),
    ("V1 terms subtracted", "batchie.models.sparse_combo",
     _rep("                mcmc_sample.V1, data.treatment_ids[:, 0]\n            )\n            + copy_array", "                mcmc_sample.V1, data.treatment_ids[:, 0]\n            )\n            - copy_array"), ["R3"]),
    ("gather without helper", "batchie.models.sparse_combo_interaction",
     _rep("            * copy_array_with_control_treatments_set_to_zero(\n                self.V2, data.treatment_ids[:, 1]\n            ),", "            * self.V2[data.treatment_ids[:, 1]],"), ["R4"]),
    ("viability clip bounds changed", "batchie.models.sparse_combo", _rep("        return np.clip(expit(Mu), a_min=0.01, a_max=0.99)\n    else:\n        return Mu\n\n\ndef predict_single_drug", "        return np.clip(expit(Mu), a_min=0.0, a_max=1.0)\n    else:\n        return Mu\n\n\ndef predict_single_drug"), ["R5"]),
    ("mean_all stacks viability", "batchie.models.main", _rep("result[theta_index, :] = theta.predict_conditional_mean(screen)", "result[theta_index, :] = theta.predict_viability(screen)"), ["R6"]),
    ("prediction sorts ids in place", "batchie.models.sparse_combo_interaction",
     _rep("        interaction = np.sum(\n            self.W[data.sample_ids]", "        data.treatment_ids.sort(axis=1)\n        interaction = np.sum(\n            self.W[data.sample_ids]"), ["R1"]),
    ("helper zeroes id 0", "batchie.common", _rep("results[treatment_array == CONTROL_SENTINEL_VALUE, ...] = 0.0", "results[treatment_array == 0, ...] = 0.0"), ["R4"]),
]
