"""C01 - screen identifiers are a faithful, dense encoding of names and doses."""
import ast

from engine.astutil import U, calls, kwargs, single_defs, inline, walk_own, call_name, attr_tail, returns, enclosing_map, names_in, arg
from engine.cfg import CFG
from engine.norm import Norm, Poly, parse_expr
from engine.repo import AnalysisError
from . import common, C03

EXPLANATION = (
    "Structural clauses of C01 decided on the two encoders, the mapping validator, Screen.__init__ and ExperimentSpace: "
    "(R1) per-row ids and the returned mapping columns come from one table: ids = (rows LEFT-MERGE table ON the "
    "identifying columns).id, mapping = columns of that same table; (R2) a refusal of uncovered rows dominates the "
    "return; (R3) the control predicate normalises to (dose <= 0) OR (name == control name) and the value written is "
    "the sentinel; (R4) non-control ids are position - cumsum(is_control) on a de-duplicated, sorted, re-indexed table "
    "(rank lemma); sample/plate ids are the positions of the de-duplicated sorted table; (R5) a supplied mapping is "
    "validated (dense 0..n-1 plus optional sentinel) before the encoder call, passed as existing_mapping and used "
    "verbatim; (R6) names and doses are stacked column by column in the same order and the encoded vector is split "
    "into arity pieces and transposed; (R7) embedding sizes are computed from the mapping tuple excluding only the "
    "sentinel.")
RULES = {
    "R1": "one-table rule in both encoders (left merge on exactly the identifying columns)",
    "R2": "coverage refusal dominates the return",
    "R3": "control predicate == (dose <= 0) | (name == control); sentinel value written",
    "R4": "dense renumbering: index - cumsum(is_control) after drop_duplicates/sort/reset_index; 1-d encoder: positions of the sorted unique table",
    "R5": "supplied mapping: validated (dense) before use, passed as existing_mapping, table built from it verbatim; validator's definition",
    "R6": "column stacking and inverse split/transpose in Screen.__init__",
    "R7": "ExperimentSpace sizes from the mapping tuple, excluding only the sentinel",
    "R9": "a construction that re-uses a screen's treatment mapping passes that screen's control name with it (the encoder trusts the mapping's sentinel rows; the constructor's control name defaults to the empty name)",
    "R8": "the derived screen attributes this property's code relies on (sample_space_size, treatment_space_size, unique_treatments, n_unique_treatments, unique_sample_ids, n_unique_samples) have their documented definitions in ScreenBase and every override",
}
MIN = {"R1": 4, "R2": 2, "R3": 2, "R4": 4, "R5": 6, "R6": 2, "R7": 4, "R8": 6, "R9": 5}
TRUSTED = ["pandas drop_duplicates / sort_values / reset_index / merge(how='left') semantics", "rank lemma: for a non-control row at position p, p - #controls at positions <= p is its rank among non-controls"]
TECHNIQUE = "def-use provenance of returned tuples, guard dominance, relational and polynomial normal forms against forms written from the statement"
LEVEL_TEXT = ("The bijection claim rests on a handful of shape facts (one table for ids and mapping, the control predicate, the "
              "rank formula on a re-indexed unique table, validation before use) that are decided for all inputs by normal-form "
              "comparison; a `<=` turned `<`, an off-by-one in the renumbering or sizes taken from row ids are reported.")
LEVEL_NOTE = "Trusted: pandas/numpy library semantics (merge on float keys, sorting of arbitrary unicode, NaN) - those are library behaviour on runtime values and stay undecided."

ENC_T = "data.encode_treatment_arrays_to_0_indexed_ids"
ENC_1 = "data.encode_1d_array_to_0_indexed_ids"


def with_body(f):
    w = [n for n in f.node.body if isinstance(n, ast.With)]
    return w[0].body if w else f.node.body


def branch_defs(stmts, name):
    return [n for n in stmts if isinstance(n, ast.Assign) and any(U(t) == name for t in n.targets)]


class _Columns(ast.NodeTransformer):
    """pandas column access spelled frame["name"] is read as frame.name (identifier keys only; both mean the same column)"""
    def visit_Subscript(self, n):
        self.generic_visit(n)
        if isinstance(n.slice, ast.Constant) and isinstance(n.slice.value, str) and n.slice.value.isidentifier() and isinstance(n.ctx, ast.Load) \
                and isinstance(n.value, (ast.Name, ast.Attribute, ast.Call)):
            return ast.copy_location(ast.Attribute(value=n.value, attr=n.slice.value, ctx=ast.Load()), n)
        return n


def encoder_fn(ctx, q):
    import copy
    f = ctx.fn(q)
    g = copy.copy(f)
    g.node = _Columns().visit(copy.deepcopy(f.node))
    ast.fix_missing_locations(g.node)
    return g


def encoder_facts(ctx, q):
    f = encoder_fn(ctx, q)
    body = with_body(f)
    ret = [n for n in body if isinstance(n, ast.Return)]
    ctx.need(len(ret) == 1 and isinstance(ret[0].value, ast.Tuple), f"{f.site()}: tuple return not found")
    # locals that only carry a column of the joined / id table into the return are read through
    carry = {k: v for k, v in single_defs(f.node).items() if isinstance(v, (ast.Attribute, ast.Call)) and not any(isinstance(x, ast.Call) and attr_tail(x) in ("merge", "DataFrame") for x in ast.walk(v))}
    elts = [inline(e, carry) if isinstance(e, ast.Name) else e for e in ret[0].value.elts]
    joined_def = [n for n in body if isinstance(n, ast.Assign) and isinstance(n.value, ast.Call) and attr_tail(n.value) == "merge"]
    if not joined_def:
        # joined-and-projected at once: ids = rows.merge(table, ..).new_index  ->  read as  joined__m = rows.merge(..) ; ids = joined__m.new_index
        proj = [n for n in body if isinstance(n, ast.Assign) and len(n.targets) == 1 and isinstance(n.targets[0], ast.Name) and isinstance(n.value, ast.Attribute)
                and isinstance(n.value.value, ast.Call) and attr_tail(n.value.value) == "merge"]
        if len(proj) == 1:
            import copy
            p_ = proj[0]
            jn = "joined__m"
            jd_ = ast.Assign(targets=[ast.Name(id=jn, ctx=ast.Store())], value=p_.value.value, lineno=p_.lineno, col_offset=0)
            col = ast.Attribute(value=ast.Name(id=jn, ctx=ast.Load()), attr=p_.value.attr, ctx=ast.Load())
            target = p_.targets[0].id

            class R_(ast.NodeTransformer):
                def visit_Name(self, n):
                    if n.id == target and isinstance(n.ctx, ast.Load):
                        return copy.deepcopy(col)
                    return n
            i = body.index(p_)
            body[i] = jd_
            for j in range(i + 1, len(body)):
                body[j] = R_().visit(body[j])
            ast.fix_missing_locations(f.node)
            from engine.normalize import renumber
            renumber(f.node)
            ret = [n for n in body if isinstance(n, ast.Return)]
            elts = [inline(e, carry) if isinstance(e, ast.Name) else e for e in ret[0].value.elts]
            joined_def = [jd_]
    ctx.need(len(joined_def) == 1, f"{f.site()}: merge not found")
    return f, body, ret[0], elts, joined_def[0]


def r1(ctx):
    for q, keys in ((ENC_T, ["name", "dose"]), (ENC_1, ["val"])):
        f, body, ret, elts, jd = encoder_facts(ctx, q)
        joined = U(jd.targets[0])
        m = jd.value
        rows = U(m.func.value)
        table = U(m.args[0]) if m.args else U(kwargs(m).get("right"))
        kw = kwargs(m)
        on = kw.get("on")
        on_l = [e.value for e in on.elts] if isinstance(on, (ast.List, ast.Tuple)) else ([on.value] if isinstance(on, ast.Constant) else None)
        ok_merge = on_l is not None and sorted(on_l) == sorted(keys) and U(kw.get("how")) == "'left'"
        ctx.check("R1", f"{f.site()}::left-merge-on-identifying-columns", ok_merge,
                  f"{joined} = {rows}.merge({table}, on={keys}, how='left')",
                  f"rows are joined to the id table with on={on_l}, how={U(kw.get('how'))}: ids are only faithful with a LEFT merge (row order and count kept) on exactly {keys}")
        idcol = None
        e0 = elts[0]
        if isinstance(e0, ast.Attribute) and e0.attr == "values" and isinstance(e0.value, ast.Attribute) and U(e0.value.value) == joined:
            idcol = e0.value.attr
        elif isinstance(e0, ast.Call) and attr_tail(e0) == "to_numpy" and isinstance(e0.func.value, ast.Attribute) and U(e0.func.value.value) == joined:
            idcol = e0.func.value.attr
        cols = []
        casts = []
        for e in elts[1:]:
            # a returned mapping column converted on the way out (to_numpy(dtype=..), .astype(..), np.asarray(.., dtype=..)) is not the table's
            # column any more: a name column cast to the rows' string width truncates mapping entries that do not occur in the rows
            x = e
            while isinstance(x, ast.Call) and (attr_tail(x) in ("astype",) or call_name(x) in ("np.asarray", "np.array")):
                casts.append(U(x)[:70])
                x = x.func.value if attr_tail(x) == "astype" else x.args[0]
            if isinstance(x, ast.Call) and attr_tail(x) == "to_numpy" and (x.args or any(k.arg in ("dtype", "na_value") for k in x.keywords)):
                casts.append(U(x)[:70])
            e = x
            base = e.func.value if isinstance(e, ast.Call) and attr_tail(e) == "to_numpy" else (e.value if isinstance(e, ast.Attribute) and e.attr == "values" else None)
            if isinstance(base, ast.Attribute) and U(base.value) == table:
                cols.append(base.attr)
            else:
                cols.append(None)
        ctx.check("R1", f"{f.site()}::mapping-columns-returned-unconverted", not casts, "the mapping columns are handed back as the id table holds them",
                  f"a returned mapping column is converted on the way out ({casts}): with a supplied mapping the entries that do not occur in the rows "
                  f"(longer names, other dtypes) are truncated or altered - the mapping that comes back is not the mapping that went in")
        ok = idcol is not None and None not in cols and cols == keys + [idcol]
        ctx.check("R1", f"{f.site()}::ids-and-mapping-from-one-table", ok,
                  f"returns ({joined}.{idcol}, {', '.join(table + '.' + str(c) for c in cols)})",
                  f"the per-row ids (`{U(e0)}`) and the returned mapping columns ({[U(e) for e in elts[1:]]}) are not read from the same table `{table}` "
                  f"in the order keys + id")
        # the rows frame is built from the inputs in the key columns
        rd = [n for n in body if isinstance(n, ast.Assign) and U(n.targets[0]) == rows]
        okr = len(rd) == 1 and isinstance(rd[0].value, ast.Call) and call_name(rd[0].value) == "pandas.DataFrame" and isinstance(rd[0].value.args[0], ast.Dict) \
            and [k.value for k in rd[0].value.args[0].keys] == keys and [U(v) for v in rd[0].value.args[0].values] == f.params[:len(keys)]
        if not okr:
            ctx.bad("R1", f"{f.site()}::rows-frame", f"the rows frame `{rows}` is not DataFrame({{{keys}: inputs}})")


def r2(ctx):
    for q in (ENC_T, ENC_1):
        f, body, ret, elts, jd = encoder_facts(ctx, q)
        joined = U(jd.targets[0])
        g = CFG(f.node)
        rnode = g.nodes_of(ret)[0]
        N = Norm(strict=False)
        idcol = elts[0].value.attr if isinstance(elts[0], ast.Attribute) else "new_index"
        want = [N.b(parse_expr(f"not np.all({joined}.{idcol}.notna())")), N.b(parse_expr(f"{joined}.{idcol}.isna().any()")), N.b(parse_expr(f"np.any({joined}.{idcol}.isna())")),
                N.b(parse_expr(f"not {joined}.{idcol}.notna().all()"))]
        ok = g.guarded_by_raise(rnode, lambda t, arm: arm == "then" and Norm(strict=False).b(t) in want)
        ctx.check("R2", f"{f.site()}::uncovered-rows-refused", ok, "raises when some row has no id after the merge",
                  "the return is not dominated by a refusal of rows without an id (a supplied mapping that does not cover the data would yield NaN ids)")


def encoder_scope(ctx, f, new_branch):
    """[(function node, statements, binding of helper params to caller expressions)] : the new-mapping branch of the
    encoder plus the bodies of repository helpers it calls (one level)"""
    from engine.astutil import resolve_helper, bind_args
    scopes = [(f, new_branch, {})]
    for st in new_branch:
        for c in calls(st):
            h, skip = resolve_helper(ctx.R, f, c)
            if h is not None and h.node is not f.node:
                b = bind_args(h, skip, c)
                if b is not None:
                    ctx.functions.add(h.qname)
                    scopes.append((h, list(h.node.body), b))
    return scopes


def scope_env(stmts):
    cnt, val = {}, {}
    for st in stmts:
        for n in ast.walk(st):
            if isinstance(n, ast.Assign) and len(n.targets) == 1 and isinstance(n.targets[0], ast.Name):
                cnt[n.targets[0].id] = cnt.get(n.targets[0].id, 0) + 1
                val[n.targets[0].id] = n.value
    return {k: v for k, v in val.items() if cnt[k] == 1}


def column_stores(stmts):
    """{(table, column): value} for `T["col"] = v` and `T.assign(col=v)`"""
    out = {}
    for st in stmts:
        for n in ast.walk(st):
            if isinstance(n, ast.Assign) and isinstance(n.targets[0], ast.Subscript) and isinstance(n.targets[0].slice, ast.Constant) \
                    and isinstance(n.targets[0].slice.value, str) and isinstance(n.targets[0].value, ast.Name):
                out[(n.targets[0].value.id, n.targets[0].slice.value)] = n.value
            if isinstance(n, ast.Call) and attr_tail(n) == "assign" and isinstance(n.func.value, ast.Name):
                for k in n.keywords:
                    out[(n.func.value.id, k.arg)] = k.value
    return out


def _unwrap_array(v):
    """strip conversions that keep the element values: X.to_numpy(..), X.values, np.asarray(X), X.astype(bool)"""
    while True:
        if isinstance(v, ast.Call) and isinstance(v.func, ast.Attribute) and v.func.attr in ("to_numpy",) :
            v = v.func.value
        elif isinstance(v, ast.Call) and isinstance(v.func, ast.Attribute) and v.func.attr == "astype" and len(v.args) == 1 and U(v.args[0]) in ("bool", "np.bool_"):
            v = v.func.value
        elif isinstance(v, ast.Attribute) and v.attr == "values":
            v = v.value
        elif isinstance(v, ast.Call) and call_name(v) in ("np.asarray", "np.array") and v.args:
            v = v.args[0]
        else:
            return v


def dose_table(e):
    """name of the table whose 'dose' column expression e compares, or None"""
    for n in ast.walk(e):
        if isinstance(n, ast.Compare):
            for side in [n.left] + n.comparators:
                if isinstance(side, ast.Subscript) and isinstance(side.slice, ast.Constant) and side.slice.value == "dose":
                    return side.value.id if isinstance(side.value, ast.Name) else f"({U(side.value)})"
                if isinstance(side, ast.Attribute) and side.attr == "dose":
                    return side.value.id if isinstance(side.value, ast.Name) else f"({U(side.value)})"
    return None


def subst_columns(e, cols, env):
    """replace T.col / T['col'] by the expression stored into that column, and locals by their definitions"""
    import copy

    class S(ast.NodeTransformer):
        def visit_Attribute(self, n):
            self.generic_visit(n)
            if isinstance(n.value, ast.Name) and (n.value.id, n.attr) in cols and isinstance(n.ctx, ast.Load):
                return copy.deepcopy(cols[(n.value.id, n.attr)])
            return n

        def visit_Subscript(self, n):
            self.generic_visit(n)
            if isinstance(n.value, ast.Name) and isinstance(n.slice, ast.Constant) and (n.value.id, n.slice.value) in cols and isinstance(n.ctx, ast.Load):
                return copy.deepcopy(cols[(n.value.id, n.slice.value)])
            return n
    out = e
    for _ in range(4):
        out = S().visit(inline(out, env))
    return out


def r3(ctx):
    f, body, ret, elts, jd = encoder_facts(ctx, ENC_T)
    ctl = f.params[2]
    iff = [n for n in body if isinstance(n, ast.If)]
    ctx.need(iff, f"{f.site()}: existing_mapping branch not found")
    new_branch = iff[0].orelse if U(iff[0].test).replace(" ", "") == "existing_mappingisnotNone" else iff[0].body
    N = Norm(strict=False)
    found = []
    sentinel_ok = False
    for h, stmts, binding in encoder_scope(ctx, f, new_branch):
        env = scope_env(stmts)
        cols = column_stores(stmts)
        hctl = ctl
        for p, a in binding.items():
            if U(a) == ctl:
                hctl = p
        # maximal boolean expressions that compare the dose column
        cands = []
        for st in stmts:
            for n in ast.walk(st):
                if isinstance(n, (ast.Assign,)) and dose_table(inline(n.value, env)) is not None:
                    v = _unwrap_array(inline(n.value, env))
                    boolean = isinstance(v, ast.Compare) or (isinstance(v, ast.BinOp) and isinstance(v.op, (ast.BitOr, ast.BitAnd))) \
                        or (isinstance(v, ast.UnaryOp) and isinstance(v.op, ast.Invert)) or (isinstance(v, ast.Call) and (call_name(v) or "").startswith("np.logical"))
                    if boolean:
                        cands.append(_unwrap_array(n.value))
        full = []
        for c in cands:
            e = subst_columns(c, {k: v for k, v in cols.items() if k[1] not in ("dose", "name")}, env)
            full.append(e)
        # keep the maximal ones: a candidate that is a sub-expression of another inlined candidate is dropped
        texts = [U(x) for x in full]
        maximal = [x for x, t in zip(full, texts) if not any(t != o and t in o for o in texts)]
        for e in maximal:
            T = dose_table(e)
            want = N.b(parse_expr(f"({T}['dose'] <= 0) | ({T}['name'] == {hctl})"))
            alt = N.b(parse_expr(f"({T}.dose <= 0) | ({T}.name == {hctl})"))
            found.append((U(e), N.b(e) in (want, alt), h.site()))
        src = " ".join(U(st) for st in stmts)
        if "CONTROL_SENTINEL_VALUE" in src or "-1" in src:
            for st in stmts:
                for n in ast.walk(st):
                    if isinstance(n, ast.Assign) and isinstance(n.targets[0], ast.Subscript) and isinstance(n.targets[0].value, ast.Attribute) and n.targets[0].value.attr == "loc" \
                            and U(n.value) in ("CONTROL_SENTINEL_VALUE", "-1"):
                        sentinel_ok = True
                    if isinstance(n, ast.Call) and attr_tail(n) in ("where", "mask") and any(U(a) in ("CONTROL_SENTINEL_VALUE", "-1") for a in n.args):
                        sentinel_ok = True
                    # ids[is_control] = SENTINEL on a plain array, the mask being a control predicate found above
                    if isinstance(n, ast.Assign) and isinstance(n.targets[0], ast.Subscript) and isinstance(n.targets[0].value, ast.Name) and U(n.value) in ("CONTROL_SENTINEL_VALUE", "-1") \
                            and isinstance(n.targets[0].slice, ast.Name) and dose_table(inline(n.targets[0].slice, env)) is not None:
                        sentinel_ok = True
    if not found:
        raise AnalysisError(f"{f.site()}: no expression comparing the dose column found in the encoder or its helpers - control detection is undecided")
    good = [x for x in found if x[1]]
    ctx.check("R3", f"{f.site()}::control-predicate", bool(good), "is_control == (dose <= 0) | (name == control_treatment_name)",
              f"control predicate is `{found[0][0][:110]}` (in {found[0][2]}): it must be exactly (dose <= 0) OR (name == control name) - e.g. `<` misses dose 0, a tolerance "
              f"turns tiny positive doses into controls, a dropped disjunct misses controls given by name")
    if not sentinel_ok:
        raise AnalysisError(f"{f.site()}: cannot find where the control rows receive CONTROL_SENTINEL_VALUE (.loc store / where / mask)")
    ctx.ok("R3", f"{f.site()}::sentinel-written", "control rows get CONTROL_SENTINEL_VALUE")


def _positions_as_index(e):
    """np.arange(len(T)[, dtype=..]) / np.arange(T.shape[0]) -> T.index   (the positions 0..n-1 of a freshly re-indexed table)"""
    import copy

    class P(ast.NodeTransformer):
        def visit_Call(self, n):
            self.generic_visit(n)
            if call_name(n) == "np.arange" and len(n.args) == 1 and not [k for k in n.keywords if k.arg != "dtype"]:
                a = n.args[0]
                T = None
                if isinstance(a, ast.Call) and call_name(a) == "len" and len(a.args) == 1 and isinstance(a.args[0], ast.Name):
                    T = a.args[0].id
                elif isinstance(a, ast.Subscript) and isinstance(a.value, ast.Attribute) and a.value.attr == "shape" and U(a.slice) == "0" and isinstance(a.value.value, ast.Name):
                    T = a.value.value.id
                if T is not None:
                    return ast.copy_location(ast.Attribute(value=ast.Name(id=T, ctx=ast.Load()), attr="index", ctx=ast.Load()), n)
            return n
    return P().visit(copy.deepcopy(e))


def r4(ctx):
    f, body, ret, elts, jd = encoder_facts(ctx, ENC_T)
    iff = [n for n in body if isinstance(n, ast.If)][0]
    new_branch = iff.orelse if U(iff.test).replace(" ", "") == "existing_mappingisnotNone" else iff.body
    rows = U(jd.value.func.value)
    N = Norm(strict=False)
    # (a) the id table starts from the de-duplicated, sorted, re-indexed rows
    chains = []
    for st in new_branch:
        for n in ast.walk(st):
            if isinstance(n, ast.Call) and attr_tail(n) == "drop_duplicates":
                chains.append(n)
    ctx.need(chains, f"{f.site()}: no drop_duplicates() in the new-mapping branch - construction of the id table is undecided")
    par = enclosing_map(ast.Module(body=new_branch, type_ignores=[]))
    ok0 = False
    shown = ""
    for c in chains:
        top = c
        while top in par and isinstance(par[top], (ast.Attribute, ast.Call)) and (par[top] is not None) and \
                ((isinstance(par[top], ast.Attribute) and par[top].value is top) or (isinstance(par[top], ast.Call) and par[top].func is top)):
            top = par[top]
        t = U(top).replace(" ", "").replace("\n", "")
        shown = U(top)
        if t == f"{rows}.drop_duplicates().sort_values(by=['name','dose']).reset_index(drop=True)":
            ok0 = True
    ctx.check("R4", f"{f.site()}::unique-sorted-reindexed", ok0, "table = rows.drop_duplicates().sort_values(by=[name, dose]).reset_index(drop=True)",
              f"the id table starts from `{shown}`: ids are dense and deterministic only on a de-duplicated, sorted, re-indexed table")
    # (b) the rank formula
    found = []
    for h, stmts, binding in encoder_scope(ctx, f, new_branch):
        env = scope_env(stmts)
        cols = column_stores(stmts)
        for st in stmts:
            spar = enclosing_map(st)
            for n in ast.walk(st):
                arith = (ast.Add, ast.Sub, ast.Mult, ast.Div, ast.FloorDiv)
                if isinstance(n, ast.BinOp) and isinstance(n.op, arith) and not (isinstance(spar.get(n), ast.BinOp) and isinstance(spar[n].op, arith)):
                    n = _positions_as_index(n)
                    tables = {x.value.id for x in ast.walk(n) if isinstance(x, ast.Attribute) and x.attr == "index" and isinstance(x.value, ast.Name)}
                    tenv = {k: v for k, v in env.items() if k not in tables}
                    e = inline(n, tenv)
                    if not any(isinstance(x, ast.Call) and (attr_tail(x) == "cumsum" or call_name(x) == "np.cumsum") for x in ast.walk(e)):
                        continue
                    # the table is the object whose .index is used
                    T = None
                    for x in ast.walk(e):
                        if isinstance(x, ast.Attribute) and x.attr == "index" and isinstance(x.value, ast.Name):
                            T = x.value.id
                    if T is None:
                        continue
                    e2 = subst_columns(e, {k: v for k, v in cols.items() if k[1] == "is_control"}, tenv)
                    cum = [x for x in ast.walk(e2) if isinstance(x, ast.Call) and (attr_tail(x) == "cumsum" or call_name(x) == "np.cumsum")]
                    pred = cum[0].func.value if attr_tail(cum[0]) == "cumsum" and not call_name(cum[0]).startswith("np.") else cum[0].args[0]
                    pred = _unwrap_array(pred)
                    want = N.key(parse_expr(f"{T}.index - PRED.cumsum()"))
                    import copy
                    e3 = copy.deepcopy(e2)
                    for x in ast.walk(e3):
                        if isinstance(x, ast.Call) and (attr_tail(x) == "cumsum" or call_name(x) == "np.cumsum"):
                            if attr_tail(x) == "cumsum" and not (call_name(x) or "").startswith("np."):
                                x.func.value = ast.Name(id="PRED", ctx=ast.Load())
                            else:
                                x.func = ast.Attribute(value=ast.Name(id="PRED", ctx=ast.Load()), attr="cumsum", ctx=ast.Load())
                                x.args = []
                                x.keywords = []
                    is_pred = dose_table(pred) is not None or U(pred).endswith("is_control")
                    found.append((U(n), N.key(e3) == want and is_pred, h.site()))
        # the same rank counted from the other side: (number of non-controls up to and including the row) - 1
        for st in stmts:
            for n in ast.walk(st):
                if isinstance(n, ast.BinOp) and isinstance(n.op, ast.Sub) and U(n.right) == "1":
                    l_ = inline(n.left, env)
                    arg_ = None
                    if isinstance(l_, ast.Call) and call_name(l_) == "np.cumsum" and l_.args:
                        arg_ = l_.args[0]
                    elif isinstance(l_, ast.Call) and attr_tail(l_) == "cumsum" and not (call_name(l_) or "").startswith("np."):
                        arg_ = l_.func.value
                    if arg_ is not None:
                        a_ = _unwrap_array(inline(arg_, env))
                        if isinstance(a_, ast.UnaryOp) and isinstance(a_.op, ast.Invert):
                            p_ = _unwrap_array(inline(a_.operand, env))
                            found.append((U(n), dose_table(p_) is not None, h.site()))
    if not found:
        raise AnalysisError(f"{f.site()}: no `index - cumsum(...)` renumbering found in the encoder or its helpers - density of the ids is undecided")
    ctx.check("R4", f"{f.site()}::rank-formula", any(x[1] for x in found), "new_index = position - cumsum(is_control)  (rank among non-controls)",
              f"non-control ids are `{found[0][0]}` (in {found[0][2]}), not `index - cumsum(is_control)`: any constant offset or other count breaks density 0..n-1")
    # (c) positions: between re-indexing and the formula the table may only be rebound by reset_index (fresh RangeIndex)
    table = U(jd.value.args[0])
    seq = [n for n in new_branch if isinstance(n, ast.Assign)]
    bad = [U(n) for n in seq[1:] if U(n.targets[0]) == table and isinstance(n.value, ast.Call) and attr_tail(n.value) in ("sort_values", "sample", "iloc", "loc", "drop", "sort_index")]
    ctx.check("R4", f"{f.site()}::positions-are-0..n-1", not bad, "the table keeps a fresh RangeIndex up to the rank formula",
              f"the table is re-ordered after re-indexing ({bad}): `.index` is no longer the positions 0..n-1")
    # 1-d encoder
    f1, body1, ret1, elts1, jd1 = encoder_facts(ctx, ENC_1)
    iff1 = [n for n in body1 if isinstance(n, ast.If)][0]
    nb = iff1.orelse if U(iff1.test).replace(" ", "") == "existing_mappingisnotNone" else iff1.body
    t1 = U(jd1.value.args[0])
    r1_ = U(jd1.value.func.value)
    steps = [U(n.value).replace(" ", "").replace("\n", "").replace("by=['val']", "by='val'") for n in nb if isinstance(n, ast.Assign) and U(n.targets[0]) == t1]   # one sort column, as a list or not
    want_steps = [f"{r1_}.drop_duplicates().sort_values(by='val').reset_index(drop=True)", f"{t1}.reset_index(drop=False)", f"{t1}.rename(columns={{'index':'new_index'}})"]
    # the same three steps as one method chain, or split over differently named locals: read the table's final value through the
    # straight-line single assignments of the branch
    senv = {}
    for n in nb:
        if isinstance(n, ast.Assign) and len(n.targets) == 1 and isinstance(n.targets[0], ast.Name):
            senv[n.targets[0].id] = inline(n.value, senv)
        elif not isinstance(n, (ast.Expr, ast.Pass)):
            senv = {}
            break
    chain = U(senv[t1]).replace(" ", "").replace("\n", "") if t1 in senv else ""
    if chain == f"{r1_}.drop_duplicates().sort_values(by='val').reset_index(drop=True).reset_index(drop=False).rename(columns={{'index':'new_index'}})" \
            and all(isinstance(n, ast.Assign) for n in nb):
        steps = list(want_steps)
    joined = "|".join(steps)
    if steps != want_steps and "drop_duplicates" not in joined:
        raise AnalysisError(f"{f1.site()}: construction of the 1-d id table is not in a recognised idiom")
    # the ids written as an explicit position column of the sorted unique table
    head = f"{r1_}.drop_duplicates().sort_values(by='val').reset_index(drop=True)"
    pos_forms = (f"np.arange({t1}.shape[0])", f"np.arange(len({t1}))", f"np.arange(len({t1}.index))", f"{t1}.index", f"np.arange({t1}.val.size)")
    explicit = False

    def _pos_text(x):
        import copy
        x = copy.deepcopy(x)
        if isinstance(x, ast.Call) and call_name(x) == "np.arange":
            x.keywords = [k for k in x.keywords if k.arg != "dtype"]
        return U(x).replace(" ", "")
    for n in nb:
        c = n.value if isinstance(n, ast.Expr) and isinstance(n.value, ast.Call) else None
        if c is not None and attr_tail(c) == "insert" and U(c.func.value) == t1 and len(c.args) == 3 and U(c.args[1]) == "'new_index'" and _pos_text(c.args[2]) in pos_forms:
            explicit = True
        if isinstance(n, ast.Assign) and len(n.targets) == 1 and U(n.targets[0]).replace(" ", "") in (f"{t1}['new_index']", f"{t1}.new_index") and _pos_text(n.value) in pos_forms:
            explicit = True
    if steps == [head] and explicit:
        ctx.ok("R4", f"{f1.site()}::positions-of-sorted-unique", "ids = an explicit position column 0..n-1 of rows.drop_duplicates().sort_values().reset_index(drop=True)")
        return
    if steps != want_steps and steps[:1] == [head] and not ("reset_index" in joined.split("|", 1)[-1] and "new_index" in joined):
        raise AnalysisError(f"{f1.site()}: the 1-d id table starts from the sorted unique rows but its id column is built in an idiom this rule does not know ({steps[1:]})")
    ctx.check("R4", f"{f1.site()}::positions-of-sorted-unique", steps == want_steps or
              (f"{r1_}.drop_duplicates().sort_values(by='val').reset_index(drop=True)" in joined and "reset_index" in joined.split("|", 1)[-1] and "new_index" in joined),
              "ids = positions in rows.drop_duplicates().sort_values().reset_index(drop=True)",
              f"the 1-d id table is built by {steps}: ids must be the positions 0..n-1 of the sorted unique values")


def mapping_verbatim(ctx, rule="R5"):
    """in the supplied-mapping branch of both encoders the id table is the mapping's columns, verbatim (no re-sorting, renumbering or pruning)"""
    # verbatim use in both encoders
    for q, cols in ((ENC_T, ["name", "dose", "new_index"]), (ENC_1, ["val", "new_index"])):
        f, body, ret, elts, jd = encoder_facts(ctx, q)
        iff = [n for n in body if isinstance(n, ast.If)][0]
        pos = U(iff.test).replace(" ", "") == "existing_mappingisnotNone"
        eb = iff.body if pos else iff.orelse
        table = U(jd.value.args[0])
        # locals of the branch that only name a component of the mapping are read through
        benv = {}
        tstores = []
        for st_ in eb:
            if isinstance(st_, ast.Assign) and len(st_.targets) == 1 and isinstance(st_.targets[0], ast.Name) and U(st_.targets[0]) != table:
                benv[st_.targets[0].id] = st_.value
            elif isinstance(st_, ast.Assign) and len(st_.targets) == 1 and isinstance(st_.targets[0], ast.Tuple) and isinstance(st_.value, ast.Tuple) \
                    and len(st_.targets[0].elts) == len(st_.value.elts) and all(isinstance(t, ast.Name) for t in st_.targets[0].elts):
                for t_, v_ in zip(st_.targets[0].elts, st_.value.elts):
                    benv[t_.id] = v_
            else:
                tstores.append(st_)
        ok = len(tstores) == 1 and isinstance(tstores[0], ast.Assign) and U(tstores[0].targets[0]) == table and isinstance(tstores[0].value, ast.Call) and call_name(tstores[0].value) == "pandas.DataFrame" \
            and isinstance(tstores[0].value.args[0], ast.Dict) and [k.value for k in tstores[0].value.args[0].keys] == cols \
            and [U(inline(v, benv)) for v in tstores[0].value.args[0].values] == [f"existing_mapping[{i}]" for i in range(len(cols))] \
            and all(U(v) in [f"existing_mapping[{i}]" for i in range(len(cols))] for v in benv.values())
        if not ok and len(tstores) == 1 and isinstance(tstores[0], ast.Assign) and isinstance(tstores[0].value, ast.Call) and call_name(tstores[0].value) == "pandas.DataFrame" \
                and tstores[0].value.args and isinstance(tstores[0].value.args[0], (ast.DictComp, ast.Call, ast.Name)):
            # the only statement of the branch builds the frame from a computed dict (a comprehension over the column names, dict(zip(..))):
            # still one DataFrame of the mapping and nothing else, but which column gets which component is not read off a literal
            raise AnalysisError(f"{f.site()}: the supplied-mapping table is built from a computed dict `{U(tstores[0].value.args[0])[:80]}`; the column / component pairing is not a literal this rule reads")
        ctx.check(rule, f"{f.site()}::mapping-used-verbatim", ok, f"table = DataFrame({{{cols}: existing_mapping[0..{len(cols) - 1}]}}) with no re-sorting or renumbering",
                  "in the supplied-mapping branch the id table is not built from the mapping's columns verbatim")


def r5(ctx):
    init = ctx.fn("data.Screen.__init__")
    g = CFG(init.node)
    N = Norm(strict=False)
    for enc, mp in (("encode_treatment_arrays_to_0_indexed_ids", "treatment_mapping"), ("encode_1d_array_to_0_indexed_ids", "sample_mapping")):
        cs = [c for c in calls(init.node) if U(c.func) == enc and U(kwargs(c).get("existing_mapping")) == mp]
        ctx.check("R5", f"{init.site()}::{mp}-passed-as-existing_mapping", len(cs) == 1, f"{enc}(..., existing_mapping={mp})",
                  f"the constructor does not pass `{mp}` to {enc} as existing_mapping")
        if len(cs) != 1:
            continue
        cnode = g.node_containing(cs[0])
        # validation: a refusal with condition {mp is not None, not validator(mp[-1])} (nested ifs or one `and`) dominates the encoder call
        from engine.astutil import raise_guards
        last = "2" if mp.startswith("treat") else "1"
        want_sets = [frozenset({N.b(parse_expr(f"{mp} is not None")), N.b(parse_expr(f"not numpy_array_is_0_indexed_integers({mp}[{ix}])"))}) for ix in ("-1", last)]
        ok = False
        related = False
        dom = g.dominators()
        for conds, anchor, how, looped in raise_guards(ctx.R, init, N):
            if anchor is None:
                continue
            if any("numpy_array_is_0_indexed_integers" in repr(c) and mp in repr(c) for c in conds):
                related = True
            an = g.nodes_of(anchor)
            if conds in want_sets and an and an[0] in dom.get(cnode, ()) and not looped:
                ok = True
        ctx.check("R5", f"{init.site()}::{mp}-validated-before-use", ok, f"a supplied {mp} must pass numpy_array_is_0_indexed_integers before the encoder runs",
                  f"a supplied `{mp}` reaches the encoder without a dominating refusal `{mp} is not None and not numpy_array_is_0_indexed_integers({mp}[-1])`"
                  + ("" if not related else " (a validation exists but does not dominate the encoder call or tests another component)"))
    mapping_verbatim(ctx, "R5")
    validator_definition(ctx)


def validator_definition(ctx):
    """the validator's definition, arm by arm (per-path return expressions, locals inlined); C02 runs it too: load_h5 hands every stored
    mapping to the constructor, so a validator that refuses a mapping the encoder itself produced makes a written archive unreadable"""
    from engine.astutil import path_returns
    v = ctx.fn("data.numpy_array_is_0_indexed_integers")
    a = v.params[0]
    sent = ctx.R.const_value(v.mod, "CONTROL_SENTINEL_VALUE")
    Nc = Norm(strict=False, consts={"CONTROL_SENTINEL_VALUE": sent} if sent is not None else {})
    paths = path_returns(v.node)
    if paths is None:
        raise AnalysisError(f"{v.site()}: the validator contains loops / constructs outside the if-return fragment; cannot be judged dense-or-not by this rule")
    sent_test = Nc.b(parse_expr(f"CONTROL_SENTINEL_VALUE in {a}"))
    dtype_test = Nc.b(parse_expr(f"not np.issubdtype({a}.dtype, int)"))
    arms = {}
    for conds, ret in paths:
        bs = {Nc.b(t, neg=not pol) for t, pol in conds}
        if dtype_test in bs:
            arms["dtype"] = ret
        elif sent_test in bs:
            arms["with"] = ret
        elif ("not", sent_test) in bs or any(b == Nc.b(parse_expr(f"CONTROL_SENTINEL_VALUE not in {a}")) for b in bs):
            arms["without"] = ret
    w, wo = arms.get("with"), arms.get("without")
    # necessary condition, whatever the algorithm: deciding "the values are exactly 0..n-1" needs the DISTINCT values
    # (unique / set / bincount / sort + diff); aggregate statistics (min, max, size, sum) accept duplicated ids with a gap
    DISTINCT = ("np.unique", "unique", "set", "frozenset", "np.bincount", "np.sort", "sorted", "np.diff", "np.isin", "np.in1d", "np.array_equal", "np.setdiff1d", "pandas.unique")
    accepting = [ret for conds, ret in paths if ret is not None and not (isinstance(ret, ast.Constant) and isinstance(ret.value, bool))]
    blind = [ret for ret in accepting if not any(isinstance(x, ast.Call) and ((call_name(x) or "") in DISTINCT or attr_tail(x) in ("unique", "nunique", "sort")) for x in ast.walk(ret))]
    if blind:
        ctx.check("R5", f"{v.site()}::definition", False, "",
                  f"the validator accepts on `{U(blind[0])[:100]}`, which never looks at the distinct values (no unique / set / bincount / sort): "
                  f"duplicated ids with a gap (e.g. 0, 0, 2) pass min/max/size tests although the ids are not dense")
        return
    if w is None and wo is None and len(accepting) == 1:
        # one arm for both cases: the distinct values other than the sentinel read 0, 1, .., k-1
        ret = accepting[0]
        r_ = ret
        if isinstance(r_, ast.Call) and call_name(r_) in ("np.all", "bool") and len(r_.args) == 1:
            r_ = r_.args[0]
        elif isinstance(r_, ast.Call) and call_name(r_) == "np.array_equal" and len(r_.args) == 2:
            r_ = ast.Compare(left=r_.args[0], ops=[ast.Eq()], comparators=[r_.args[1]])
        uniq = (f"np.unique({a})", f"np.sort(np.unique({a}))")
        unified = False
        if isinstance(r_, ast.Compare) and len(r_.ops) == 1 and isinstance(r_.ops[0], ast.Eq):
            for D, Rg in ((r_.left, r_.comparators[0]), (r_.comparators[0], r_.left)):
                d = U(D).replace(" ", "")
                okD = any(d in (f"{u}[{u}!=CONTROL_SENTINEL_VALUE]", f"{u}[{u}!=-1]", f"np.setdiff1d({a},[CONTROL_SENTINEL_VALUE])", f"np.setdiff1d({u},[CONTROL_SENTINEL_VALUE])") for u in uniq)
                rg = U(Rg).replace(" ", "")
                okR = rg in (f"np.arange({d}.shape[0])", f"np.arange(len({d}))", f"np.arange({d}.size)")
                if okD and okR:
                    unified = True
        ok_dt = "dtype" in arms and U(arms["dtype"]) == "False"
        if unified:
            ctx.check("R5", f"{v.site()}::definition", ok_dt, "integers; the distinct values other than the sentinel are exactly 0..k-1",
                      "the validator does not refuse non-integer arrays first")
            return
    if w is None or wo is None:
        raise AnalysisError(f"{v.site()}: the validator no longer has the sentinel / no-sentinel arms comparing sorted unique values with a range; "
                            f"a different algorithm cannot be judged dense-or-not by this rule")
    sent_val = -1
    if sent is not None:
        try:
            sent_val = int(U(sent))
        except ValueError:
            pass

    def int_const(x):
        t = U(x).replace(" ", "")
        if t == "CONTROL_SENTINEL_VALUE":
            return sent_val
        try:
            return int(t)
        except ValueError:
            return None

    def length_of_unique(x):
        """True iff x denotes the number of distinct values of the array"""
        t = U(x).replace(" ", "")
        u = (f"np.unique({a})", f"np.sort(np.unique({a}))")
        return any(t in (f"{b_}.shape[0]", f"{b_}.size", f"len({b_})") for b_ in u)

    def range_form(x):
        """(start, extra) meaning  start, start+1, ..., start + (n_unique + extra) - 1 ; None if not such a run"""
        if isinstance(x, ast.Call) and call_name(x) == "np.arange" and len(x.args) == 1 and not [k for k in x.keywords if k.arg != "dtype"]:
            L = x.args[0]
            if length_of_unique(L):
                return (0, 0)
            if isinstance(L, ast.BinOp) and isinstance(L.op, (ast.Sub, ast.Add)) and length_of_unique(L.left) and int_const(L.right) is not None:
                return (0, -int_const(L.right) if isinstance(L.op, ast.Sub) else int_const(L.right))
            return None
        if isinstance(x, ast.BinOp) and isinstance(x.op, (ast.Add, ast.Sub)):
            l, r = x.left, x.right
            if int_const(r) is not None and range_form(l) is not None:
                s0, e0 = range_form(l)
                return (s0 + (int_const(r) if isinstance(x.op, ast.Add) else -int_const(r)), e0)
            if isinstance(x.op, ast.Add) and int_const(l) is not None and range_form(r) is not None:
                s0, e0 = range_form(r)
                return (s0 + int_const(l), e0)
            return None
        if isinstance(x, ast.Call) and call_name(x) in ("np.concatenate", "np.hstack") and x.args and isinstance(x.args[0], (ast.List, ast.Tuple)) and len(x.args[0].elts) == 2:
            head, tail = x.args[0].elts
            hv = head
            if isinstance(hv, ast.Call) and call_name(hv) in ("np.array", "np.asarray") and hv.args:
                hv = hv.args[0]
            if isinstance(hv, (ast.List, ast.Tuple)) and len(hv.elts) == 1 and int_const(hv.elts[0]) is not None and range_form(tail) is not None:
                s0, e0 = range_form(tail)
                if s0 == int_const(hv.elts[0]) + 1:
                    return (s0 - 1, e0 + 1)
        return None

    def arm_ok(ret, start):
        """ret is np.all(unique(arr) == run starting at `start` of exactly n_unique elements)"""
        r = ret
        if isinstance(r, ast.Call) and call_name(r) in ("np.all", "bool", "all") and len(r.args) == 1:
            r = r.args[0]
            if isinstance(r, ast.Call) and call_name(r) in ("np.all",) and len(r.args) == 1:
                r = r.args[0]
        elif isinstance(r, ast.Call) and isinstance(r.func, ast.Attribute) and r.func.attr == "all" and not r.args:
            r = r.func.value
        elif isinstance(r, ast.Call) and call_name(r) == "np.array_equal" and len(r.args) == 2:
            r = ast.Compare(left=r.args[0], ops=[ast.Eq()], comparators=[r.args[1]])
        else:
            return False
        if not (isinstance(r, ast.Compare) and len(r.ops) == 1 and isinstance(r.ops[0], ast.Eq)):
            return False
        sides = [r.left, r.comparators[0]]
        uniq = [x for x in sides if U(x).replace(" ", "") in (f"np.unique({a})", f"np.sort(np.unique({a}))")]
        runs = [range_form(x) for x in sides if x not in uniq]
        return len(uniq) == 1 and len(runs) == 1 and runs[0] == (start, 0)
    ok_w = arm_ok(w, sent_val)
    ok_wo = arm_ok(wo, 0)
    ok_dt = "dtype" in arms and U(arms["dtype"]) == "False"

    def raw_values(ret):
        """the arm compares ALL values (sorted, not de-duplicated) with a run as long as the array"""
        r = ret
        if isinstance(r, ast.Call) and call_name(r) in ("np.all", "bool", "all") and len(r.args) == 1:
            r = r.args[0]
        elif isinstance(r, ast.Call) and call_name(r) == "np.array_equal" and len(r.args) == 2:
            r = ast.Compare(left=r.args[0], ops=[ast.Eq()], comparators=[r.args[1]])
        if not (isinstance(r, ast.Compare) and len(r.ops) == 1 and isinstance(r.ops[0], ast.Eq)):
            return False
        sides = [U(x).replace(" ", "") for x in (r.left, r.comparators[0])]
        return any(t in (f"np.sort({a})", f"sorted({a})", a) for t in sides) and not any("unique" in t or "set(" in t for t in sides) \
            and any(f"{a}.shape[0]" in t or f"len({a})" in t or f"{a}.size" in t for t in sides)
    if not (ok_w and ok_wo) and (raw_values(w) or raw_values(wo)):
        ctx.check("R5", f"{v.site()}::definition", False, "",
                  f"the validator compares ALL the values with a run as long as the array (`{U(w if raw_values(w) else wo)[:90]}`), not the distinct values: "
                  f"an id column in which an id occurs twice - a treatment mapping with two control conditions (id -1 twice), which the encoder "
                  f"itself produces - is refused, so a screen that was just written cannot be constructed again from its stored mapping")
        return
    if not (ok_w and ok_wo) and not any("unique" in U(x) for x in (w, wo)):
        raise AnalysisError(f"{v.site()}: the validator's arms do not compare np.unique(arr) with a range; a different algorithm cannot be judged by this rule")
    ctx.check("R5", f"{v.site()}::definition", ok_w and ok_wo and ok_dt,
              "integers; unique values == [-1] + 0..n-2 when the sentinel occurs, else 0..n-1",
              f"the validator is not `unique(arr) == (-1,) 0..n-1` over the UNIQUE values (sentinel arm `{U(w)[:70]}`, "
              f"plain arm `{U(wo)[:70]}`): duplicated ids with a gap would be accepted")


def r6(ctx):
    init = ctx.fn("data.Screen.__init__")
    env = single_defs(init.node)
    tn, td = init.params[1], init.params[2]
    enc = [c for c in calls(init.node) if U(c.func) == "encode_treatment_arrays_to_0_indexed_ids"]
    ctx.need(len(enc) == 1, "Screen.__init__: treatment encoder call not found")
    kw = kwargs(enc[0])
    na = kw.get("treatment_name_arr", enc[0].args[0] if enc[0].args else None)
    da = kw.get("treatment_dose_arr", enc[0].args[1] if len(enc[0].args) > 1 else None)
    ctx.need(na is not None and da is not None, "Screen.__init__: encoder is not given name and dose vectors")

    from engine.astutil import inline_calls
    ARITY = (f"{tn}.shape[1]", f"{td}.shape[1]", "treatment_arity", f"{tn}.shape[-1]", f"{td}.shape[-1]")

    def T(x):
        return U(x).replace(" ", "")

    def full(e):
        from engine.peval import fuse_comprehensions
        return fuse_comprehensions(inline_calls(inline(e, env), ctx.R, init.mod, scope=init.node))

    def mat_layout(e, src):
        """'N' if e denotes the (n, arity) matrix src itself, 'T' if its transpose; None otherwise"""
        if T(e) == src:
            return "N"
        if isinstance(e, ast.Attribute) and e.attr == "T":
            m = mat_layout(e.value, src)
            return {"N": "T", "T": "N"}.get(m)
        if isinstance(e, ast.Call) and call_name(e) in ("np.transpose",) and len(e.args) == 1:
            m = mat_layout(e.args[0], src)
            return {"N": "T", "T": "N"}.get(m)
        if isinstance(e, ast.Call) and isinstance(e.func, ast.Attribute) and e.func.attr in ("transpose",) and not e.args:
            m = mat_layout(e.func.value, src)
            return {"N": "T", "T": "N"}.get(m)
        if isinstance(e, ast.Call) and isinstance(e.func, ast.Attribute) and e.func.attr in ("copy",):
            return mat_layout(e.func.value, src)
        return None

    def flat_order(e, src):
        """'col' if e lists src column by column (column 0 first), 'row' if row by row; None if not recognised"""
        e = full(e)
        # M.ravel() / M.flatten() / M.reshape(-1) [order='F']
        if isinstance(e, ast.Call) and isinstance(e.func, ast.Attribute) and e.func.attr in ("ravel", "flatten", "reshape"):
            if e.func.attr == "reshape" and [T(x) for x in e.args] not in (["-1"], ["(-1,)"]):
                return None
            m = mat_layout(e.func.value, src)
            order = kwargs(e).get("order")
            f_order = order is not None and T(order) in ("'F'", '"F"')
            if m is None:
                return None
            rowwise = (m == "N") != f_order        # C-order of N or F-order of T lists rows of src
            return "row" if rowwise else "col"
        # np.concatenate(<sequence of rows of M>)
        if isinstance(e, ast.Call) and call_name(e) in ("np.concatenate", "np.hstack") and e.args:
            seq = e.args[0]
            if isinstance(seq, ast.Call) and call_name(seq) in ("list", "tuple") and len(seq.args) == 1:
                seq = seq.args[0]
            m = mat_layout(seq, src)
            if m is not None:
                return "row" if m == "N" else "col"
            if isinstance(seq, (ast.ListComp, ast.GeneratorExp)) and len(seq.generators) == 1 and not seq.generators[0].ifs and isinstance(seq.generators[0].target, ast.Name):
                g = seq.generators[0]
                v = g.target.id
                # the same sequence walked backwards lists the blocks in the opposite order
                rev = None
                if isinstance(g.iter, ast.Call) and call_name(g.iter) == "reversed" and len(g.iter.args) == 1:
                    rev = g.iter.args[0]
                elif isinstance(g.iter, ast.Subscript) and T(g.iter.slice) == "::-1":
                    rev = g.iter.value
                if rev is not None:
                    import copy
                    seq2 = copy.deepcopy(seq)
                    seq2.generators[0].iter = rev
                    e2 = copy.deepcopy(e)
                    e2.args[0] = seq2
                    o = flat_order(e2, src)
                    return None if o is None else o + "-reversed"
                m = mat_layout(g.iter, src)
                if m is not None and T(seq.elt) == v:
                    return "row" if m == "N" else "col"
                if T(g.iter) in [f"range({k})" for k in ARITY] and T(seq.elt) == f"{src}[:,{v}]":
                    return "col"
                if T(g.iter) in (f"range({src}.shape[0])", f"range(len({src}))") and T(seq.elt) in (f"{src}[{v},:]", f"{src}[{v}]"):
                    return "row"
        return None

    def unflat_order(e, v):
        """which flattening order of an (n, arity) matrix the expression e (over the flat vector v) inverts: 'col' / 'row'"""
        e = full(e)

        def arity(x):
            return T(x) in ARITY

        def mat(x):
            """'A' : x is the (arity, n) matrix whose rows are the consecutive blocks of v ; 'N' : its transpose (n, arity);
               'R' : the (n, arity) row-major reshape of v ; 'RT' its transpose"""
            if isinstance(x, ast.Attribute) and x.attr == "T":
                return {"A": "N", "N": "A", "R": "RT", "RT": "R"}.get(mat(x.value))
            if isinstance(x, ast.Call) and isinstance(x.func, ast.Attribute) and x.func.attr == "copy":
                return mat(x.func.value)
            if isinstance(x, ast.Call) and call_name(x) in ("np.vstack", "np.stack", "np.array", "np.row_stack", "np.column_stack") and x.args:
                inner = x.args[0]
                if isinstance(inner, ast.Call) and call_name(inner) in ("np.split", "np.array_split") and len(inner.args) == 2 and T(inner.args[0]) == v and arity(inner.args[1]):
                    ax = kwargs(x).get("axis")
                    cols = call_name(x) == "np.column_stack" or (ax is not None and T(ax) in ("1", "-1"))
                    return "N" if cols else "A"
                return None
            if isinstance(x, ast.Call) and isinstance(x.func, ast.Attribute) and x.func.attr == "reshape" and T(_unwrap_array(x.func.value)) == v:
                dims = x.args[0].elts if len(x.args) == 1 and isinstance(x.args[0], ast.Tuple) else x.args
                order = kwargs(x).get("order")
                f_order = order is not None and T(order) in ("'F'", '"F"')
                if len(dims) != 2:
                    return None
                d0, d1 = dims
                if arity(d0) and not arity(d1):
                    return "RT?" if f_order else "A"          # (arity, n) C-order: rows are the blocks
                if arity(d1) and not arity(d0):
                    return "N" if f_order else "R"            # (n, arity): F-order fills column blocks, C-order interleaves
                return None
            return None
        m = mat(e)
        if m == "N":
            return "col"
        if m == "R":
            return "row"
        return None
    fn_, fd_ = flat_order(na, tn), flat_order(da, td)
    # (a) pair-list idiom of the original code
    acc = None
    for l in [n for n in walk_own(init.node) if isinstance(n, ast.For) and U(n.iter).startswith("range(")]:
        app = [c for c in calls(l, tail="append")]
        if len(app) == 1 and isinstance(app[0].args[0], ast.Tuple):
            i = U(l.target)
            pair = [U(e).replace(" ", "") for e in app[0].args[0].elts]
            if pair == [f"{tn}[:,{i}]", f"{td}[:,{i}]"] and U(inline(l.iter, env)).replace(" ", "") in (f"range({tn}.shape[1])",):
                acc = U(app[0].func.value)
    nv = U(inline(na, env)).replace(" ", "")
    dv = U(inline(da, env)).replace(" ", "")
    if acc and nv == f"np.concatenate([x[0]forxin{acc}])" and dv == f"np.concatenate([x[1]forxin{acc}])":
        fn_ = fd_ = "col"
    crossed = flat_order(na, td) is not None or flat_order(da, tn) is not None or (acc and (f"forxin{acc}" in nv or f"forxin{acc}" in dv) and not (fn_ and fd_))
    if (fn_ is None or fd_ is None) and not crossed:
        raise AnalysisError(f"Screen.__init__: the way names (`{U(inline(na, env))[:60]}`) and doses are flattened is not a recognised idiom")
    ctx.check("R6", f"{init.site()}::column-stacking", fn_ is not None and fn_ == fd_, "names and doses are flattened in the same order (entry k of names with entry k of doses)",
              "treatment names and doses are not flattened over the same order / from their own matrices (names of column i paired with doses of column i)")
    st = [n for n in walk_own(init.node) if isinstance(n, ast.Assign) and U(n.targets[0]) == "self._treatment_ids"]
    ctx.need(len(st) == 1, "Screen.__init__: self._treatment_ids store not found")
    res = []
    for n in walk_own(init.node):
        if isinstance(n, ast.Assign) and n.value is enc[0] and isinstance(n.targets[0], ast.Tuple):
            res = [U(t.value if isinstance(t, ast.Starred) else t) for t in n.targets[0].elts]
    ctx.need(res, "Screen.__init__: encoder result unpacking not found")
    uo = unflat_order(inline(st[0].value, {k: x for k, x in env.items() if k != res[0]}), res[0])
    if uo is None:
        raise AnalysisError(f"Screen.__init__: the encoded vector is unstacked by `{U(st[0].value)[:70]}`, not a recognised idiom")
    ctx.check("R6", f"{init.site()}::split-and-transpose", fn_ is not None and uo == fn_, "the id matrix is rebuilt by the inverse of the flattening used for names and doses",
              f"the encoded vector is unstacked by `{U(st[0].value)}` ({uo}-major), which is not the inverse of the {fn_}-major flattening (treatments of different rows are interleaved)")


def _nonsentinel_distinct_count(e, base):
    """True: e counts the distinct values of `base` other than the control sentinel; False: e is a count of something else derived from
    `base` (sentinel included, or an unconditional -1); None: not recognised"""
    SENT = ("CONTROL_SENTINEL_VALUE", "-1", "[CONTROL_SENTINEL_VALUE]", "[-1]", "np.array([CONTROL_SENTINEL_VALUE])", "(CONTROL_SENTINEL_VALUE,)")

    def T(x):
        return U(x).replace(" ", "")

    def values(x):
        """(sentinel excluded, de-duplicated) for an array expression derived from base; None if unknown"""
        if T(x) == base.replace(" ", ""):
            return (False, False)
        if isinstance(x, ast.Call) and call_name(x) in ("np.unique", "set", "frozenset", "pandas.unique") and len(x.args) == 1 and not x.keywords:
            v = values(x.args[0])
            return None if v is None else (v[0], True)
        if isinstance(x, ast.Call) and call_name(x) == "np.setdiff1d" and len(x.args) == 2 and T(x.args[1]) in SENT:
            v = values(x.args[0])
            return None if v is None else (True, True)
        if isinstance(x, ast.Subscript) and isinstance(x.slice, ast.Compare) and len(x.slice.ops) == 1 and isinstance(x.slice.ops[0], ast.NotEq):
            l, r_ = x.slice.left, x.slice.comparators[0]
            if T(l) == T(x.value) and T(r_) in SENT or T(r_) == T(x.value) and T(l) in SENT:
                v = values(x.value)
                return None if v is None else (True, v[1])
        return None

    def count(x):
        if isinstance(x, ast.Call) and call_name(x) == "int" and len(x.args) == 1:
            return count(x.args[0])
        if isinstance(x, ast.Attribute) and x.attr == "size":
            return values(x.value)
        if isinstance(x, ast.Call) and call_name(x) == "len" and len(x.args) == 1:
            return values(x.args[0])
        if isinstance(x, ast.Subscript) and isinstance(x.value, ast.Attribute) and x.value.attr == "shape" and T(x.slice) == "0":
            return values(x.value.value)
        m = None
        if isinstance(x, ast.Call) and call_name(x) in ("np.count_nonzero", "np.sum") and len(x.args) == 1 and not x.keywords:
            m = x.args[0]
        elif isinstance(x, ast.Call) and isinstance(x.func, ast.Attribute) and x.func.attr == "sum" and not x.args and not x.keywords:
            m = x.func.value
        if isinstance(m, ast.Compare) and len(m.ops) == 1 and isinstance(m.ops[0], ast.NotEq):
            l, r_ = m.left, m.comparators[0]
            arr = l if T(r_) in SENT else (r_ if T(l) in SENT else None)
            if arr is not None:
                v = values(arr)
                return None if v is None else (True, v[1])
        if isinstance(x, ast.BinOp) and isinstance(x.op, ast.Sub) and T(x.right) == "1":
            c = count(x.left)
            return None if c is None else "minus-one"
        return None
    c = count(e)
    if c is None:
        return None
    if c == "minus-one":
        return False
    excl, dedup = c
    if excl and dedup:
        return True
    if not excl:
        return False
    return None


def _memo_value(ctx, f):
    """the getter keeps its result: `if self._m is None: self._m = E` ... `return self._m`.  Returns (E, None) when the kept attribute
    is only ever seeded with None; (E, seed text) when a construction site hands in another value for it; None when the getter is not
    of that shape."""
    r = returns(f.node)
    if not (len(r) == 1 and isinstance(r[0].value, ast.Attribute) and U(r[0].value.value) == "self"):
        return None
    m = r[0].value.attr
    own = [st for st in walk_own(f.node) if isinstance(st, ast.Assign) and len(st.targets) == 1 and U(st.targets[0]) == f"self.{m}"]
    if len(own) != 1:
        return None
    par = enclosing_map(f.node)
    guard = par.get(own[0])
    if not (isinstance(guard, ast.If) and U(guard.test).replace(" ", "") in (f"self.{m}isNone",) and par.get(guard) is f.node):
        return None
    E = inline(own[0].value, single_defs(f.node))
    while isinstance(E, ast.Call) and call_name(E) == "int" and len(E.args) == 1:
        E = E.args[0]
    R = ctx.R
    cq = f.class_q
    seeds = []
    for q, g in R.funcs.items():
        if g.class_q != cq or g is f:
            continue
        for st in walk_own(g.node):
            if isinstance(st, (ast.Assign, ast.AnnAssign)) and any(U(t) == f"self.{m}" for t in (st.targets if isinstance(st, ast.Assign) else [st.target])) and st.value is not None:
                v = st.value
                if isinstance(v, ast.Constant) and v.value is None:
                    continue
                if isinstance(v, ast.Name) and v.id in g.params and g.name == "__init__":
                    # who passes it
                    cname = cq.rsplit(".", 1)[-1]
                    for q2, h in R.funcs.items():
                        for c in calls(h.node):
                            if (call_name(c) == cname or (call_name(c) == "cls" and h.class_q == cq)) and v.id in kwargs(c):
                                kv = kwargs(c)[v.id]
                                if not (isinstance(kv, ast.Constant) and kv.value is None):
                                    seeds.append(f"{h.site()}: {v.id}={U(kv)[:60]}")
                    continue
                seeds.append(f"{g.site()}: {U(st)[:70]}")
    return E, (seeds[0] if seeds else None)


def r7(ctx):
    C03.r4(ctx, rule="R7")
    N = Norm(strict=False)
    f = ctx.fn("data.ExperimentSpace.n_unique_treatments")
    r = returns(f.node)
    kept = {}
    for nm_ in ("n_unique_treatments", "n_unique_samples"):
        g_ = ctx.fn(f"data.ExperimentSpace.{nm_}")
        mv = _memo_value(ctx, g_)
        if mv is not None and mv[1] is not None:
            ctx.bad("R7", f"{g_.site()}::from-mapping", f"`{nm_}` is kept in an attribute that a construction site seeds ({mv[1]}): the size then is what the caller counted "
                    f"(the ids present in a screen's rows), not the size of the mapping - a screen built on a mapping for a superset of its data has ids at or above it")
            return
        if mv is not None:
            kept[nm_] = mv[0]            # seeded with None only: the kept value is the computed one
    r = returns(f.node)
    if "n_unique_treatments" in kept:
        r = [ast.Return(value=kept["n_unique_treatments"])]
    want = [N.key(parse_expr("np.unique(np.setdiff1d(self.treatment_mapping[2], np.array([CONTROL_SENTINEL_VALUE]))).size")),
            N.key(parse_expr("np.setdiff1d(self.treatment_mapping[2], np.array([CONTROL_SENTINEL_VALUE])).size")),
            N.key(parse_expr("len(np.setdiff1d(self.treatment_mapping[2], [CONTROL_SENTINEL_VALUE]))")),
            N.key(parse_expr("np.unique(self.treatment_mapping[2][self.treatment_mapping[2] != CONTROL_SENTINEL_VALUE]).size"))]
    verdict = None
    if len(r) == 1 and N.key(r[0].value) not in want:
        verdict = _nonsentinel_distinct_count(inline(r[0].value, single_defs(f.node)), "self.treatment_mapping[2]")
        if verdict is None:
            raise AnalysisError(f"{f.site()}: `{U(r[0].value)[:80]}` is not a recognised way of counting the distinct non-sentinel ids of the mapping")
    ctx.check("R7", f"{f.site()}::excludes-only-the-sentinel", len(r) == 1 and (N.key(r[0].value) in want or verdict is True),
              "number of distinct mapping ids other than the sentinel",
              f"n_unique_treatments is `{U(r[0].value) if r else None}`: it must count the distinct mapping ids other than the sentinel "
              f"(subtracting 1 unconditionally is wrong for a mapping without a control; counting row ids shrinks after a split)")
    f = ctx.fn("data.ExperimentSpace.n_unique_samples")
    r = returns(f.node)
    if "n_unique_samples" in kept:
        r = [ast.Return(value=kept["n_unique_samples"])]
    want = [N.key(parse_expr("np.unique(self.sample_mapping[0]).size")), N.key(parse_expr("np.unique(self.sample_mapping[1]).size")), N.key(parse_expr("len(self.sample_mapping[0])")),
            N.key(parse_expr("len(np.unique(self.sample_mapping[0]))"))]
    ctx.check("R7", f"{f.site()}::from-mapping", len(r) == 1 and N.key(r[0].value) in want, "number of distinct samples in the mapping",
              f"n_unique_samples is `{U(r[0].value) if r else None}`, not the number of mapping entries")


def r_derived(ctx):
    common.derived_attributes(ctx, "R8", ['sample_space_size', 'treatment_space_size', 'unique_treatments', 'n_unique_treatments', 'unique_sample_ids', 'n_unique_samples'])


def r9(ctx):
    common.control_name_travels_with_mapping(ctx, "R9")


RULE_FUNCS = [r1, r2, r3, r4, r5, r6, r7, r_derived, r9]


def run(ctx):
    for fn in RULE_FUNCS:
        fn(ctx)


def _rep(a, b):
    def edit(t):
        if a not in t:
            raise KeyError(a[:40])
        return t.replace(a, b, 1)
    return edit


WITNESSES = [
    ("combinatoric space built without the control name (D7 re-introduced)", "batchie.models.main",
     _rep("        control_treatment_name=screen.control_treatment_name,\n        sample_mapping=screen.sample_mapping,", "        sample_mapping=screen.sample_mapping,"), ["R9"]),
    ("mask_screen drops the control name", "batchie.retrospective",
     _rep("        control_treatment_name=screen.control_treatment_name,\n        observation_mask=np.zeros(screen.size, dtype=bool),", "        observation_mask=np.zeros(screen.size, dtype=bool),"), ["R9"]),
    ("dose <= 0 -> dose < 0", "batchie.data", _rep('dose_is_zero = df_unique["dose"] <= 0', 'dose_is_zero = df_unique["dose"] < 0'), ["R3"]),
    ("cumsum + 1", "batchie.data", _rep("df_unique.index - df_unique.is_control.cumsum()", "df_unique.index - df_unique.is_control.cumsum() + 1"), ["R4"]),
    ("supplied mapping validation skipped", "batchie.data",
     _rep("        if treatment_mapping is not None:\n            if not numpy_array_is_0_indexed_integers(treatment_mapping[-1]):\n                raise ValueError(\"Invalid treatment mapping\")\n", ""), ["R5"]),
    ("n_unique_treatments minus one", "batchie.data",
     _rep("        return np.unique(\n            np.setdiff1d(self.treatment_mapping[2], np.array([CONTROL_SENTINEL_VALUE]))\n        ).size", "        return np.unique(self.treatment_mapping[2]).size - 1"), ["R7"]),
    ("inner merge", "batchie.data", _rep('joined = df.merge(df_unique, on=["name", "dose"], how="left")', 'joined = df.merge(df_unique, on=["name", "dose"], how="inner")'), ["R1"]),
    ("coverage refusal removed", "batchie.data", _rep("        if not np.all(joined.new_index.notna()):\n            raise ValueError(\"Mapping of treatments to ids failed\")\n", ""), ["R2"]),
    ("doses stacked from names", "batchie.data", _rep("all_drug_names = np.concatenate([x[1] for x in dose_class_combos])", "all_drug_names = np.concatenate([x[1] for x in reversed(dose_class_combos)])"), ["R6"]),
    ("control by name dropped", "batchie.data", _rep("is_control = dose_is_zero | treatment_is_control", "is_control = dose_is_zero"), ["R3"]),
]
