"""C01 - screen identifiers are a faithful, dense encoding of names and doses."""
import ast

from engine.astutil import U, calls, kwargs, single_defs, inline, walk_own, call_name, attr_tail, returns, enclosing_map, names_in, arg
from engine.cfg import CFG
from engine.norm import Norm, Poly, parse_expr
from engine.repo import AnalysisError
from . import common, C03

EXPLANATION = (
    "Structural clauses of C01 decided on the two encoders, the mapping validator, Screen.__init__ and ExperimentSpace: "
    "(R1) per-row ids and the returned mapping columns come from one table: ids = (rows LEFT-MERGE table ON the "
    "identifying columns).id, mapping = columns of that same table; (R2) a refusal of uncovered rows dominates the "
    "return; (R3) the control predicate normalises to (dose <= 0) OR (name == control name) and the value written is "
    "the sentinel; (R4) non-control ids are position - cumsum(is_control) on a de-duplicated, sorted, re-indexed table "
    "(rank lemma); sample/plate ids are the positions of the de-duplicated sorted table; (R5) a supplied mapping is "
    "validated (dense 0..n-1 plus optional sentinel) before the encoder call, passed as existing_mapping and used "
    "verbatim; (R6) names and doses are stacked column by column in the same order and the encoded vector is split "
    "into arity pieces and transposed; (R7) embedding sizes are computed from the mapping tuple excluding only the "
    "sentinel.")
RULES = {
    "R1": "one-table rule in both encoders (left merge on exactly the identifying columns)",
    "R2": "coverage refusal dominates the return",
    "R3": "control predicate == (dose <= 0) | (name == control); sentinel value written",
    "R4": "dense renumbering: index - cumsum(is_control) after drop_duplicates/sort/reset_index; 1-d encoder: positions of the sorted unique table",
    "R5": "supplied mapping: validated (dense) before use, passed as existing_mapping, table built from it verbatim; validator's definition",
    "R6": "column stacking and inverse split/transpose in Screen.__init__",
    "R7": "ExperimentSpace sizes from the mapping tuple, excluding only the sentinel",
}
MIN = {"R1": 4, "R2": 2, "R3": 2, "R4": 4, "R5": 6, "R6": 2, "R7": 4}
TRUSTED = ["pandas drop_duplicates / sort_values / reset_index / merge(how='left') semantics", "rank lemma: for a non-control row at position p, p - #controls at positions <= p is its rank among non-controls"]
TECHNIQUE = "def-use provenance of returned tuples, guard dominance, relational and polynomial normal forms against forms written from the statement"
LEVEL_TEXT = ("The bijection claim rests on a handful of shape facts (one table for ids and mapping, the control predicate, the "
              "rank formula on a re-indexed unique table, validation before use) that are decided for all inputs by normal-form "
              "comparison; a `<=` turned `<`, an off-by-one in the renumbering or sizes taken from row ids are reported.")
LEVEL_NOTE = "Trusted: pandas/numpy library semantics (merge on float keys, sorting of arbitrary unicode, NaN) - those are library behaviour on runtime values and stay undecided."

ENC_T = "data.encode_treatment_arrays_to_0_indexed_ids"
ENC_1 = "data.encode_1d_array_to_0_indexed_ids"


def with_body(f):
    w = [n for n in f.node.body if isinstance(n, ast.With)]
    return w[0].body if w else f.node.body


def branch_defs(stmts, name):
    return [n for n in stmts if isinstance(n, ast.Assign) and any(U(t) == name for t in n.targets)]


def encoder_facts(ctx, q):
    f = ctx.fn(q)
    body = with_body(f)
    ret = [n for n in body if isinstance(n, ast.Return)]
    ctx.need(len(ret) == 1 and isinstance(ret[0].value, ast.Tuple), f"{f.site()}: tuple return not found")
    elts = ret[0].value.elts
    joined_def = [n for n in body if isinstance(n, ast.Assign) and isinstance(n.value, ast.Call) and attr_tail(n.value) == "merge"]
    ctx.need(len(joined_def) == 1, f"{f.site()}: merge not found")
    return f, body, ret[0], elts, joined_def[0]


def r1(ctx):
    for q, keys in ((ENC_T, ["name", "dose"]), (ENC_1, ["val"])):
        f, body, ret, elts, jd = encoder_facts(ctx, q)
        joined = U(jd.targets[0])
        m = jd.value
        rows = U(m.func.value)
        table = U(m.args[0]) if m.args else U(kwargs(m).get("right"))
        kw = kwargs(m)
        on = kw.get("on")
        on_l = [e.value for e in on.elts] if isinstance(on, (ast.List, ast.Tuple)) else ([on.value] if isinstance(on, ast.Constant) else None)
        ok_merge = on_l is not None and sorted(on_l) == sorted(keys) and U(kw.get("how")) == "'left'"
        ctx.check("R1", f"{f.site()}::left-merge-on-identifying-columns", ok_merge,
                  f"{joined} = {rows}.merge({table}, on={keys}, how='left')",
                  f"rows are joined to the id table with on={on_l}, how={U(kw.get('how'))}: ids are only faithful with a LEFT merge (row order and count kept) on exactly {keys}")
        idcol = None
        e0 = elts[0]
        if isinstance(e0, ast.Attribute) and e0.attr == "values" and isinstance(e0.value, ast.Attribute) and U(e0.value.value) == joined:
            idcol = e0.value.attr
        elif isinstance(e0, ast.Call) and attr_tail(e0) == "to_numpy" and isinstance(e0.func.value, ast.Attribute) and U(e0.func.value.value) == joined:
            idcol = e0.func.value.attr
        cols = []
        for e in elts[1:]:
            base = e.func.value if isinstance(e, ast.Call) and attr_tail(e) == "to_numpy" else (e.value if isinstance(e, ast.Attribute) and e.attr == "values" else None)
            if isinstance(base, ast.Attribute) and U(base.value) == table:
                cols.append(base.attr)
            else:
                cols.append(None)
        ok = idcol is not None and None not in cols and cols == keys + [idcol]
        ctx.check("R1", f"{f.site()}::ids-and-mapping-from-one-table", ok,
                  f"returns ({joined}.{idcol}, {', '.join(table + '.' + str(c) for c in cols)})",
                  f"the per-row ids (`{U(e0)}`) and the returned mapping columns ({[U(e) for e in elts[1:]]}) are not read from the same table `{table}` "
                  f"in the order keys + id")
        # the rows frame is built from the inputs in the key columns
        rd = [n for n in body if isinstance(n, ast.Assign) and U(n.targets[0]) == rows]
        okr = len(rd) == 1 and isinstance(rd[0].value, ast.Call) and call_name(rd[0].value) == "pandas.DataFrame" and isinstance(rd[0].value.args[0], ast.Dict) \
            and [k.value for k in rd[0].value.args[0].keys] == keys and [U(v) for v in rd[0].value.args[0].values] == f.params[:len(keys)]
        if not okr:
            ctx.bad("R1", f"{f.site()}::rows-frame", f"the rows frame `{rows}` is not DataFrame({{{keys}: inputs}})")


def r2(ctx):
    for q in (ENC_T, ENC_1):
        f, body, ret, elts, jd = encoder_facts(ctx, q)
        joined = U(jd.targets[0])
        g = CFG(f.node)
        rnode = g.nodes_of(ret)[0]
        N = Norm(strict=False)
        idcol = elts[0].value.attr if isinstance(elts[0], ast.Attribute) else "new_index"
        want = [N.b(parse_expr(f"not np.all({joined}.{idcol}.notna())")), N.b(parse_expr(f"{joined}.{idcol}.isna().any()")), N.b(parse_expr(f"np.any({joined}.{idcol}.isna())")),
                N.b(parse_expr(f"not {joined}.{idcol}.notna().all()"))]
        ok = g.guarded_by_raise(rnode, lambda t, arm: arm == "then" and Norm(strict=False).b(t) in want)
        ctx.check("R2", f"{f.site()}::uncovered-rows-refused", ok, "raises when some row has no id after the merge",
                  "the return is not dominated by a refusal of rows without an id (a supplied mapping that does not cover the data would yield NaN ids)")


def r3(ctx):
    f, body, ret, elts, jd = encoder_facts(ctx, ENC_T)
    tname, tdose, ctl = f.params[0], f.params[1], f.params[2]
    iff = [n for n in body if isinstance(n, ast.If)]
    ctx.need(iff, f"{f.site()}: existing_mapping branch not found")
    new_branch = iff[0].orelse if U(iff[0].test).replace(" ", "") == "existing_mappingisnotNone" else iff[0].body
    env = {}
    for n in new_branch:
        if isinstance(n, ast.Assign) and len(n.targets) == 1 and isinstance(n.targets[0], ast.Name):
            env.setdefault(n.targets[0].id, n.value)
    # the sentinel store
    st = [n for n in new_branch if isinstance(n, ast.Assign) and isinstance(n.targets[0], ast.Subscript) and isinstance(n.targets[0].value, ast.Attribute)
          and n.targets[0].value.attr == "loc"]
    ctx.need(len(st) == 1, f"{f.site()}: sentinel store (.loc[...] = ...) not found")
    table = U(st[0].targets[0].value.value)
    sel = st[0].targets[0].slice
    ctx.need(isinstance(sel, ast.Tuple) and len(sel.elts) == 2, f"{f.site()}: .loc selector is not (rows, column)")
    rows_sel = inline(sel.elts[0], {k: v for k, v in env.items() if k != table})
    val_ok = U(st[0].value) == "CONTROL_SENTINEL_VALUE" or (ctx.R.const_value(f.mod, U(st[0].value)) is not None and U(ctx.R.const_value(f.mod, U(st[0].value))) == "-1") or U(st[0].value) == "-1"
    # rows_sel = table.index[table.is_control]; is_control column = predicate
    pred = None
    t = U(rows_sel).replace(" ", "")
    col_store = [n for n in new_branch if isinstance(n, ast.Assign) and isinstance(n.targets[0], ast.Subscript) and U(n.targets[0].value) == table
                 and isinstance(n.targets[0].slice, ast.Constant)]
    colmap = {n.targets[0].slice.value: n.value for n in col_store}
    for cname, v in colmap.items():
        if t in (f"{table}.index[{table}.{cname}]", f"{table}.{cname}", f"{table}['{cname}']"):
            pred = inline(v, {k: x for k, x in env.items() if k != table})
    ctx.need(pred is not None, f"{f.site()}: cannot trace the rows that receive the sentinel (`{U(rows_sel)}`) to a predicate column")
    N = Norm(strict=False)
    want = N.b(parse_expr(f"({table}['dose'] <= 0) | ({table}['name'] == {ctl})"))
    got = N.b(pred)
    ctx.check("R3", f"{f.site()}::control-predicate", got == want, "is_control == (dose <= 0) | (name == control_treatment_name)",
              f"control predicate is `{U(pred)[:110]}`: it must be exactly (dose <= 0) OR (name == control name) - e.g. `<` misses dose 0, a tolerance "
              f"turns tiny positive doses into controls, a dropped disjunct misses controls given by name")
    ctx.check("R3", f"{f.site()}::sentinel-written", val_ok and U(sel.elts[1]) == "'new_index'", "control rows get new_index = CONTROL_SENTINEL_VALUE",
              f"control rows get `{U(sel.elts[1])}` = `{U(st[0].value)}`")


def r4(ctx):
    f, body, ret, elts, jd = encoder_facts(ctx, ENC_T)
    iff = [n for n in body if isinstance(n, ast.If)][0]
    new_branch = iff.orelse if U(iff.test).replace(" ", "") == "existing_mappingisnotNone" else iff.body
    table = U(jd.value.args[0])
    rows = U(jd.value.func.value)
    seq = [n for n in new_branch if isinstance(n, ast.Assign)]
    first = [n for n in seq if U(n.targets[0]) == table]
    ctx.need(first, f"{f.site()}: unique-table construction not found")
    chain0 = U(first[0].value).replace(" ", "").replace("\n", "")
    ok0 = chain0 in (f"{rows}.drop_duplicates().sort_values(by=['name','dose']).reset_index(drop=True)",)
    ctx.check("R4", f"{f.site()}::unique-sorted-reindexed", ok0, "table = rows.drop_duplicates().sort_values(by=[name, dose]).reset_index(drop=True)",
              f"the id table is built as `{U(first[0].value)}`: ids are dense and deterministic only on a de-duplicated, sorted, re-indexed table")
    ni = [n for n in new_branch if isinstance(n, ast.Assign) and isinstance(n.targets[0], ast.Subscript) and U(n.targets[0].value) == table
          and isinstance(n.targets[0].slice, ast.Constant) and n.targets[0].slice.value == "new_index"]
    ctx.need(len(ni) == 1, f"{f.site()}: new_index assignment not found")
    N = Norm(strict=False)
    got = N.key(ni[0].value)
    want = [N.key(parse_expr(f"{table}.index - {table}.is_control.cumsum()")), N.key(parse_expr(f"{table}.index - {table}['is_control'].cumsum()")),
            N.key(parse_expr(f"{table}.index - np.cumsum({table}.is_control)"))]
    ctx.check("R4", f"{f.site()}::rank-formula", got in want, "new_index = position - cumsum(is_control)  (rank among non-controls)",
              f"non-control ids are `{U(ni[0].value)}`, not `index - cumsum(is_control)`: any constant offset or other count breaks density 0..n-1")
    # between the reindex and the formula the index must still be 0..n-1: only reset_index(drop=False) (keeps a fresh RangeIndex) and column stores allowed
    between = seq[seq.index(first[0]) + 1: seq.index(ni[0])]
    bad = [U(n) for n in between if U(n.targets[0]) == table and U(n.value).replace(" ", "") not in (f"{table}.reset_index(drop=False)", f"{table}.reset_index()")]
    ctx.check("R4", f"{f.site()}::positions-are-0..n-1", not bad, "the table keeps a fresh RangeIndex up to the rank formula",
              f"the table is rebound between re-indexing and the rank formula ({bad}): `.index` may no longer be the positions 0..n-1")
    # 1-d encoder
    f1, body1, ret1, elts1, jd1 = encoder_facts(ctx, ENC_1)
    iff1 = [n for n in body1 if isinstance(n, ast.If)][0]
    nb = iff1.orelse if U(iff1.test).replace(" ", "") == "existing_mappingisnotNone" else iff1.body
    t1 = U(jd1.value.args[0])
    r1_ = U(jd1.value.func.value)
    steps = [U(n.value).replace(" ", "").replace("\n", "") for n in nb if isinstance(n, ast.Assign) and U(n.targets[0]) == t1]
    want_steps = [f"{r1_}.drop_duplicates().sort_values(by='val').reset_index(drop=True)", f"{t1}.reset_index(drop=False)", f"{t1}.rename(columns={{'index':'new_index'}})"]
    ctx.check("R4", f"{f1.site()}::positions-of-sorted-unique", steps == want_steps,
              "ids = positions in rows.drop_duplicates().sort_values().reset_index(drop=True)",
              f"the 1-d id table is built by {steps}: ids must be the positions 0..n-1 of the sorted unique values")


def r5(ctx):
    init = ctx.fn("data.Screen.__init__")
    g = CFG(init.node)
    N = Norm(strict=False)
    for enc, mp in (("encode_treatment_arrays_to_0_indexed_ids", "treatment_mapping"), ("encode_1d_array_to_0_indexed_ids", "sample_mapping")):
        cs = [c for c in calls(init.node) if U(c.func) == enc and U(kwargs(c).get("existing_mapping")) == mp]
        ctx.check("R5", f"{init.site()}::{mp}-passed-as-existing_mapping", len(cs) == 1, f"{enc}(..., existing_mapping={mp})",
                  f"the constructor does not pass `{mp}` to {enc} as existing_mapping")
        if len(cs) != 1:
            continue
        cnode = g.node_containing(cs[0])
        # validation: `if mp is not None: if not validator(mp[-1]): raise` dominates the encoder call on the not-None path
        val = [n for n in walk_own(init.node) if isinstance(n, ast.If) and N.b(n.test) == N.b(parse_expr(f"{mp} is not None"))
               and len(n.body) == 1 and isinstance(n.body[0], ast.If) and isinstance(n.body[0].body[-1], ast.Raise)]
        ok = False
        if len(val) == 1:
            inner = val[0].body[0]
            ok = N.b(inner.test) in (N.b(parse_expr(f"not numpy_array_is_0_indexed_integers({mp}[-1])")), N.b(parse_expr(f"not numpy_array_is_0_indexed_integers({mp}[2])")) if mp.startswith("treat") else N.b(parse_expr(f"not numpy_array_is_0_indexed_integers({mp}[1])")))
            vnode = g.nodes_of(val[0])[0]
            ok = ok and vnode in g.dominators().get(cnode, ())
        ctx.check("R5", f"{init.site()}::{mp}-validated-before-use", ok, f"a supplied {mp} must pass numpy_array_is_0_indexed_integers before the encoder runs",
                  f"a supplied `{mp}` reaches the encoder without a dominating `if {mp} is not None: if not numpy_array_is_0_indexed_integers({mp}[-1]): raise`")
    # verbatim use in both encoders
    for q, cols in ((ENC_T, ["name", "dose", "new_index"]), (ENC_1, ["val", "new_index"])):
        f, body, ret, elts, jd = encoder_facts(ctx, q)
        iff = [n for n in body if isinstance(n, ast.If)][0]
        pos = U(iff.test).replace(" ", "") == "existing_mappingisnotNone"
        eb = iff.body if pos else iff.orelse
        table = U(jd.value.args[0])
        ok = len(eb) == 1 and isinstance(eb[0], ast.Assign) and U(eb[0].targets[0]) == table and isinstance(eb[0].value, ast.Call) and call_name(eb[0].value) == "pandas.DataFrame" \
            and isinstance(eb[0].value.args[0], ast.Dict) and [k.value for k in eb[0].value.args[0].keys] == cols \
            and [U(v) for v in eb[0].value.args[0].values] == [f"existing_mapping[{i}]" for i in range(len(cols))]
        ctx.check("R5", f"{f.site()}::mapping-used-verbatim", ok, f"table = DataFrame({{{cols}: existing_mapping[0..{len(cols) - 1}]}}) with no re-sorting or renumbering",
                  "in the supplied-mapping branch the id table is not built from the mapping's columns verbatim")
    # the validator's definition
    v = ctx.fn("data.numpy_array_is_0_indexed_integers")
    a = v.params[0]
    rets = returns(v.node)
    par = enclosing_map(v.node)
    forms = {}
    for r in rets:
        p = par.get(r)
        if isinstance(p, ast.If) and N.b(p.test) == N.b(parse_expr(f"CONTROL_SENTINEL_VALUE in {a}")):
            forms["with" if r in p.body else "without"] = r.value
        elif isinstance(p, ast.If) and "issubdtype" in U(p.test):
            forms["dtype"] = (p.test, r.value)
    w = forms.get("with")
    wo = forms.get("without")
    if w is None and wo is None:
        raise AnalysisError(f"{v.site()}: the validator no longer has the sentinel / no-sentinel arms comparing sorted unique values with a range; "
                            f"a different algorithm cannot be judged dense-or-not by this rule")
    ok_w = w is not None and N.key(w) in (N.key(parse_expr(f"np.all(np.sort(np.unique({a})) == np.concatenate([np.array([-1]), np.arange(np.unique({a}).shape[0] - 1)]))")),
                                         N.key(parse_expr(f"np.all(np.unique({a}) == np.concatenate([np.array([-1]), np.arange(np.unique({a}).shape[0] - 1)]))")),
                                         N.key(parse_expr(f"np.all(np.sort(np.unique({a})) == np.concatenate([np.array([CONTROL_SENTINEL_VALUE]), np.arange(np.unique({a}).shape[0] - 1)]))")))
    ok_wo = wo is not None and N.key(wo) in (N.key(parse_expr(f"np.all(np.sort(np.unique({a})) == np.arange(np.unique({a}).shape[0]))")),
                                            N.key(parse_expr(f"np.all(np.unique({a}) == np.arange(np.unique({a}).shape[0]))")))
    ok_dt = "dtype" in forms and N.b(forms["dtype"][0]) == N.b(parse_expr(f"not np.issubdtype({a}.dtype, int)")) and U(forms["dtype"][1]) == "False"
    ctx.check("R5", f"{v.site()}::definition", ok_w and ok_wo and ok_dt,
              "integers; unique values == [-1] + 0..n-2 when the sentinel occurs, else 0..n-1",
              f"the validator is not `sort(unique(arr)) == (-1,) 0..n-1` over the UNIQUE values (sentinel arm `{U(w)[:60] if w is not None else None}`, "
              f"plain arm `{U(wo)[:60] if wo is not None else None}`): duplicated ids with a gap would be accepted")


def r6(ctx):
    init = ctx.fn("data.Screen.__init__")
    env = single_defs(init.node)
    tn, td = init.params[1], init.params[2]
    lp = [n for n in walk_own(init.node) if isinstance(n, ast.For) and U(n.iter).startswith("range(")]
    ok = False
    names_expr = doses_expr = None
    enc = [c for c in calls(init.node) if U(c.func) == "encode_treatment_arrays_to_0_indexed_ids"]
    ctx.need(len(enc) == 1, "Screen.__init__: treatment encoder call not found")
    kw = kwargs(enc[0])
    na = kw.get("treatment_name_arr", enc[0].args[0] if enc[0].args else None)
    da = kw.get("treatment_dose_arr", enc[0].args[1] if len(enc[0].args) > 1 else None)
    acc = None
    for l in lp:
        app = [c for c in calls(l, tail="append")]
        if len(app) == 1 and isinstance(app[0].args[0], ast.Tuple):
            i = U(l.target)
            pair = [U(e).replace(" ", "") for e in app[0].args[0].elts]
            if pair == [f"{tn}[:,{i}]", f"{td}[:,{i}]"] and U(inline(l.iter, env)).replace(" ", "") in (f"range({tn}.shape[1])",):
                acc = U(app[0].func.value)
    if acc and na is not None and da is not None:
        nv = U(inline(na, env)).replace(" ", "")
        dv = U(inline(da, env)).replace(" ", "")
        ok = nv == f"np.concatenate([x[0]forxin{acc}])" and dv == f"np.concatenate([x[1]forxin{acc}])"
    ctx.check("R6", f"{init.site()}::column-stacking", ok, "names and doses are concatenated column by column from the same list of (name column, dose column) pairs",
              "treatment names and doses are not stacked over the same column order (names of column i paired with doses of column i)")
    st = [n for n in walk_own(init.node) if isinstance(n, ast.Assign) and U(n.targets[0]) == "self._treatment_ids"]
    ctx.need(len(st) == 1, "Screen.__init__: self._treatment_ids store not found")
    res = [U(t) for n in walk_own(init.node) if isinstance(n, ast.Assign) and n.value is enc[0] and isinstance(n.targets[0], ast.Tuple) for t in n.targets[0].elts]
    ctx.need(res, "Screen.__init__: encoder result unpacking not found")
    v = U(st[0].value).replace(" ", "").replace("\n", "")
    ok = v in (f"np.vstack(np.split({res[0]},{tn}.shape[1])).T", f"np.vstack(np.split({res[0]},treatment_arity)).T", f"{res[0]}.reshape({tn}.shape[1],-1).T",
               f"np.stack(np.split({res[0]},{tn}.shape[1]),axis=1)")
    ctx.check("R6", f"{init.site()}::split-and-transpose", ok, "ids = vstack(split(encoded, arity)).T  (inverse of the column stacking)",
              f"the encoded vector is unstacked by `{U(st[0].value)}`, which is not the inverse of the column-by-column concatenation")


def r7(ctx):
    C03.r4(ctx, rule="R7")
    N = Norm(strict=False)
    f = ctx.fn("data.ExperimentSpace.n_unique_treatments")
    r = returns(f.node)
    want = [N.key(parse_expr("np.unique(np.setdiff1d(self.treatment_mapping[2], np.array([CONTROL_SENTINEL_VALUE]))).size")),
            N.key(parse_expr("np.setdiff1d(self.treatment_mapping[2], np.array([CONTROL_SENTINEL_VALUE])).size")),
            N.key(parse_expr("len(np.setdiff1d(self.treatment_mapping[2], [CONTROL_SENTINEL_VALUE]))")),
            N.key(parse_expr("np.unique(self.treatment_mapping[2][self.treatment_mapping[2] != CONTROL_SENTINEL_VALUE]).size"))]
    ctx.check("R7", f"{f.site()}::excludes-only-the-sentinel", len(r) == 1 and N.key(r[0].value) in want,
              "number of distinct mapping ids other than the sentinel",
              f"n_unique_treatments is `{U(r[0].value) if r else None}`: it must count the distinct mapping ids other than the sentinel "
              f"(subtracting 1 unconditionally is wrong for a mapping without a control; counting row ids shrinks after a split)")
    f = ctx.fn("data.ExperimentSpace.n_unique_samples")
    r = returns(f.node)
    want = [N.key(parse_expr("np.unique(self.sample_mapping[0]).size")), N.key(parse_expr("np.unique(self.sample_mapping[1]).size")), N.key(parse_expr("len(self.sample_mapping[0])")),
            N.key(parse_expr("len(np.unique(self.sample_mapping[0]))"))]
    ctx.check("R7", f"{f.site()}::from-mapping", len(r) == 1 and N.key(r[0].value) in want, "number of distinct samples in the mapping",
              f"n_unique_samples is `{U(r[0].value) if r else None}`, not the number of mapping entries")


RULE_FUNCS = [r1, r2, r3, r4, r5, r6, r7]


def run(ctx):
    for fn in RULE_FUNCS:
        fn(ctx)


def _rep(a, b):
    def edit(t):
        if a not in t:
            raise KeyError(a[:40])
        return t.replace(a, b, 1)
    return edit


WITNESSES = [
    ("dose <= 0 -> dose < 0", "batchie.data", _rep('dose_is_zero = df_unique["dose"] <= 0', 'dose_is_zero = df_unique["dose"] < 0'), ["R3"]),
    ("cumsum + 1", "batchie.data", _rep("df_unique.index - df_unique.is_control.cumsum()", "df_unique.index - df_unique.is_control.cumsum() + 1"), ["R4"]),
    ("supplied mapping validation skipped", "batchie.data",
     _rep("        if treatment_mapping is not None:\n            if not numpy_array_is_0_indexed_integers(treatment_mapping[-1]):\n                raise ValueError(\"Invalid treatment mapping\")\n", ""), ["R5"]),
    ("n_unique_treatments minus one", "batchie.data",
     _rep("        return np.unique(\n            np.setdiff1d(self.treatment_mapping[2], np.array([CONTROL_SENTINEL_VALUE]))\n        ).size", "        return np.unique(self.treatment_mapping[2]).size - 1"), ["R7"]),
    ("inner merge", "batchie.data", _rep('joined = df.merge(df_unique, on=["name", "dose"], how="left")', 'joined = df.merge(df_unique, on=["name", "dose"], how="inner")'), ["R1"]),
    ("coverage refusal removed", "batchie.data", _rep("        if not np.all(joined.new_index.notna()):\n            raise ValueError(\"Mapping of treatments to ids failed\")\n", ""), ["R2"]),
    ("doses stacked from names", "batchie.data", _rep("all_drug_names = np.concatenate([x[1] for x in dose_class_combos])", "all_drug_names = np.concatenate([x[1] for x in reversed(dose_class_combos)])"), ["R6"]),
    ("control by name dropped", "batchie.data", _rep("is_control = dose_is_zero | treatment_is_control", "is_control = dose_is_zero"), ["R3"]),
]
