"""C20 - evaluation metrics and synergy values equal their definitions."""
import ast

from engine.astutil import U, calls, kwargs, single_defs, inline, walk_own, call_name, attr_tail, returns, enclosing_map, names_in, arg, inline_calls
from engine.cfg import CFG
from engine.norm import Norm, Poly, parse_expr
from engine.repo import AnalysisError
from . import common, C04

EXPLANATION = (
    "Definitions compared as canonical forms: (R1) with axis roles predictions:(experiment, theta), "
    "observations:(experiment), chain_ids:(theta) - mse is the mean over everything of (p - o[:,None])^2, "
    "mse_variance is var over experiments of the mean over thetas, inter_chain_mse_variance is var of the per-chain "
    "means with columns selected by chain_ids == c for every unique c, mean_predictions is the mean over thetas; (R2) "
    "ModelEvaluation save/load tables agree; (R3) single-agent rows are count(control) = arity-1, the treatment is the "
    "row maximum, the effect is the MEAN of the matching observations, control maps to 1.0, and the effect array is "
    "filled from that map per (sample, treatment); (R4) synergy = prod(single effects) - observation, with strict => "
    "raise and lenient => skip any row lacking one of its single-agent effects; (R5) calculate_mse is the mean squared "
    "difference of predict_viability_avg and the observations; (R6) the similarity matrix is einsum('ik,jk->ij') of the "
    "same row-normalised operand, over a synthetic screen built from itertools.combinations of the screen's own mapping "
    "entries and carrying the screen's mappings.")
RULES = {
    "R1": "metric definitions as canonical forms with axis roles",
    "R2": "ModelEvaluation save/load table agreement",
    "R3": "single-agent effects: row class, treatment = row max, effect = mean, control = 1.0, array fill from the map",
    "R4": "synergy = prod(single effects) - observation; strict raises; lenient skips rows with a missing effect",
    "R5": "calculate_mse = mean((predict_viability_avg - observations)^2)",
    "R6": "similarity: same operand twice in einsum 'ik,jk->ij' after row normalisation; synthetic screen from combinations of mapping entries with the screen's mappings",
    "R7": "evaluate_model labels every prediction column with the index of the chain file it came from, and predicts on the concatenation of the same list",
    "R8": "the stacking helpers give one prediction row per posterior sample, in holder order, from the like-named predictor",
    "R9": "the derived screen attributes this property's code relies on (treatment_space_size, treatment_arity) have their documented definitions in ScreenBase and every override",
    "R10": "single-agent effects are computed from the observations as they are now: no getter of Screen keeps a result derived from the arrays set_observed mutates without being reset by it; views keep nothing",
}
MIN = {"R1": 4, "R2": 4, "R3": 5, "R4": 4, "R5": 1, "R6": 3, "R7": 2, "R8": 5, "R9": 2, "R10": 2}
TRUSTED = ["numpy reductions: mean(axis=1) over a (experiment, theta) matrix reduces thetas", "np.var is the population variance"]
TECHNIQUE = "polynomial/reduction normal forms compared against forms written from the statement; writer/reader agreement; path-condition forms of the effect-table entry (row selection non-empty, not a test of the values)"
LEVEL_TEXT = ("Each reported number is an expression over the inputs; its canonical form is compared with the canonical form "
              "of the stated definition (axis roles fixed), so an axis mix-up, mean-vs-last, or a per-chain average in place of "
              "the overall mean is reported for all inputs although small symmetric fixtures coincide.")
LEVEL_NOTE = "Trusted: numpy reduction semantics and axis roles documented in ModelEvaluation. Undecided: floating-point summation order."

ME = "batchie.models.main.ModelEvaluation"


def method_form(ctx, name, N):
    f = ctx.fn(f"{ME}.{name}")
    rets = returns(f.node)
    ctx.need(len(rets) == 1, f"{f.site()}: single return expected")
    env = single_defs(f.node)
    e = inline_calls(inline(rets[0].value, env), ctx.R, f.mod, class_q=ME)
    return f, _syn(e)


def _returned_local(f):
    rs = returns(f.node)
    names = {r.value.id for r in rs if isinstance(r.value, ast.Name)}
    return names.pop() if len(names) == 1 and all(isinstance(r.value, ast.Name) for r in rs) else None


def _syn(e):
    """exact synonyms on an expression built at rule time (a default `slice(None)` substituted for a parameter: X[:, slice(None)] is X)"""
    import copy
    from engine.normalize import _Synonyms
    return ast.fix_missing_locations(_Synonyms().visit(copy.deepcopy(e)))


def _push_column_selection(e):
    """(A op B)[:, m]  ->  A[:, m] op B[:, m]   for element-wise + - * / **, where a column vector `x[:, None]` and a constant are their
    own selection (they broadcast along the selected axis): selecting columns of an element-wise result selects the operands' columns"""
    import copy

    def is_col_sel(sl):
        return isinstance(sl, ast.Tuple) and len(sl.elts) == 2 and isinstance(sl.elts[0], ast.Slice) and sl.elts[0].lower is None and sl.elts[0].upper is None \
            and sl.elts[0].step is None

    def push(x, sl):
        if isinstance(x, ast.Constant):
            return x
        if isinstance(x, ast.Subscript) and isinstance(x.slice, ast.Tuple) and len(x.slice.elts) == 2 and isinstance(x.slice.elts[1], ast.Constant) and x.slice.elts[1].value is None:
            return x                                    # a column vector x[:, None]
        if isinstance(x, ast.BinOp) and isinstance(x.op, (ast.Add, ast.Sub, ast.Mult, ast.Div, ast.Pow)):
            return ast.BinOp(left=push(x.left, sl), op=x.op, right=push(x.right, sl))
        if isinstance(x, ast.UnaryOp) and isinstance(x.op, (ast.USub, ast.UAdd)):
            return ast.UnaryOp(op=x.op, operand=push(x.operand, sl))
        return ast.Subscript(value=x, slice=copy.deepcopy(sl), ctx=ast.Load())

    class T(ast.NodeTransformer):
        def visit_Subscript(self, n):
            self.generic_visit(n)
            if is_col_sel(n.slice) and isinstance(n.value, (ast.BinOp, ast.UnaryOp)) and isinstance(n.ctx, ast.Load):
                return ast.fix_missing_locations(ast.copy_location(push(n.value, n.slice), n))
            return n
    return T().visit(copy.deepcopy(e))


def r1(ctx):
    N = Norm(strict=False)
    sq = "(self.predictions - self.observations[:, None]) ** 2"
    for name, want in (("mse", f"({sq}).mean()"), ("mse_variance", f"np.var(({sq}).mean(axis=1))"), ("mean_predictions", "self.predictions.mean(axis=1)")):
        f, e = method_form(ctx, name, N)
        alts = [want, want.replace(".mean()", ".mean(axis=None)")]
        if name == "mse":
            alts.append(f"np.mean({sq})")
        if name == "mse_variance":
            alts += [f"np.var(np.mean({sq}, axis=1))", f"(({sq}).mean(axis=1)).var()"]
        if name == "mean_predictions":
            alts.append("np.mean(self.predictions, axis=1)")
        ok = any(N.key(e) == N.key(parse_expr(a)) for a in alts)
        ctx.check("R1", f"{f.site()}::definition", ok, f"{name} == {want}",
                  f"{name} is `{U(e)[:120]}`, which does not normalise to its definition `{want}`")
    f = ctx.fn(f"{ME}.inter_chain_mse_variance")
    from engine import builders as B
    try:
        ps = B.paths(f.node)
    except B.Unsupported as e:
        raise AnalysisError(f"{f.site()}: {e} - the per-chain values are not collected in a recognised idiom")
    ctx.need(len(ps) == 1 and ps[0][1] is not None, f"{f.site()}: a single returning path expected")
    conds, ret, env, checks = ps[0]
    ok = False
    detail = "the result is not np.var over the list of per-chain values"
    inner = ret
    if isinstance(inner, ast.Call) and call_name(inner) == "np.var" and len(inner.args) == 1 and not inner.keywords:
        inner = inner.args[0]
        for _ in range(4):
            inner = B.resolve(inner, env)
            while isinstance(inner, ast.Call) and call_name(inner) in ("np.array", "np.asarray", "list") and len(inner.args) == 1:
                inner = inner.args[0]
        comp = B.resolve(inner, env)
        if isinstance(comp, (ast.ListComp, ast.GeneratorExp)) and len(comp.generators) == 1 and not comp.generators[0].ifs and isinstance(comp.generators[0].target, ast.Name):
            g_ = comp.generators[0]
            c = g_.target.id
            if N.key(g_.iter) == N.key(parse_expr("np.unique(self.chain_ids)")):
                outer = {k_: v_ for k_, v_ in single_defs(f.node).items() if k_ != c}        # loop-invariant values named before the comprehension
                v = _syn(inline_calls(inline(comp.elt, outer), ctx.R, f.mod, class_q=ME))
                v = _push_column_selection(v)
                want = parse_expr(f"((self.predictions[:, self.chain_ids == {c}] - self.observations[:, None]) ** 2).mean()")
                ok = N.key(v) == N.key(want)
                detail = f"per-chain value `{U(v)[:100]}`"
            else:
                detail = f"chains are enumerated by `{U(g_.iter)}`, not np.unique(self.chain_ids)"
    ctx.check("R1", f"{f.site()}::definition", ok, "var over chains of mean((p[:, chain_ids == c] - o[:,None])^2) for every unique c",
              f"inter-chain variance is not the variance of per-chain overall MSEs selected on the theta axis: {detail}")


def r2(ctx):
    ctx._scalar_entries = ()
    table = {"predictions": "self.predictions", "observations": "self.observations", "chain_ids": "self.chain_ids", "sample_names": "self.sample_names"}
    common.serde_agreement(ctx, "R2", f"{ME}.save_h5", f"{ME}.load_h5", table, ("cls", "ModelEvaluation"))
    # the public properties return the stored fields
    for p in table:
        f = ctx.fn(f"{ME}.{p}")
        r = returns(f.node)
        if not (len(r) == 1 and U(r[0].value) == f"self._{p}"):
            ctx.bad("R2", f"{f.site()}::property", f"property `{p}` returns `{U(r[0].value) if r else None}`, not the stored field")


def _index_loop_as_zip(fnode, cols):
    """for r in np.flatnonzero(M): .. S[r] .. T[r, :] .. O[r] ..      (r read only as the row index of the input columns `cols`, which the
    loop does not store into)   ->   for s__r, t__r, o__r in zip(S[M], T[M, :], O[M]): .. s__r .. t__r .. o__r ..
    The k-th position of flatnonzero(M) selects the k-th row of X[M] for every array X: the same rows in the same order.
    Returns a rewritten copy, or None when the function has no such loop."""
    import copy as _copy
    node = _copy.deepcopy(fnode)
    env = single_defs(node)
    for lp in [n for n in walk_own(node) if isinstance(n, ast.For) and isinstance(n.target, ast.Name) and not n.orelse]:
        it = inline(lp.iter, env) if isinstance(lp.iter, ast.Name) else lp.iter
        M = None
        if isinstance(it, ast.Call) and call_name(it) == "np.flatnonzero" and len(it.args) == 1:
            M = it.args[0]
        elif isinstance(it, ast.Subscript) and isinstance(it.value, ast.Call) and call_name(it.value) in ("np.where", "np.nonzero") and U(it.slice) == "0" and len(it.value.args) == 1:
            M = it.value.args[0]
        if M is None:
            continue
        r = lp.target.id

        # E[r] with E a local bound once to an element-wise expression of the columns (`is_control = T == SENTINEL`): the expression of the row
        class Push(ast.NodeTransformer):
            def visit_Subscript(self, n):
                self.generic_visit(n)
                if isinstance(n.slice, ast.Name) and n.slice.id == r and isinstance(n.value, ast.Name) and n.value.id in env and n.value.id not in cols and isinstance(n.ctx, ast.Load):
                    d = env[n.value.id]
                    if isinstance(d, (ast.Compare, ast.BinOp, ast.UnaryOp)) and not any(isinstance(y, (ast.Call, ast.Subscript, ast.Attribute)) for y in ast.walk(d)) \
                            and all(y.id in cols or y.id.isupper() for y in ast.walk(d) if isinstance(y, ast.Name)):
                        class Row(ast.NodeTransformer):
                            def visit_Name(self, y):
                                if y.id in cols:
                                    return ast.Subscript(value=y, slice=ast.Name(id=r, ctx=ast.Load()), ctx=ast.Load())
                                return y
                        return ast.copy_location(Row().visit(_copy.deepcopy(d)), n)
                return n
        lp.body = [Push().visit(b) for b in lp.body]
        ast.fix_missing_locations(lp)
        par = enclosing_map(lp)
        uses = [x for b in lp.body for x in ast.walk(b) if isinstance(x, ast.Name) and x.id == r]
        plan, ok = {}, bool(uses)
        for u in uses:
            p_ = par.get(u)
            sub = p_ if isinstance(p_, ast.Subscript) and p_.slice is u else (par.get(p_) if isinstance(p_, ast.Tuple) and isinstance(par.get(p_), ast.Subscript) and par[p_].slice is p_ and p_.elts[0] is u else None)
            if sub is None or not (isinstance(sub.value, ast.Name) and sub.value.id in cols) or not isinstance(sub.ctx, ast.Load):
                ok = False
                break
            if isinstance(sub.slice, ast.Tuple) and not (len(sub.slice.elts) == 2 and U(sub.slice.elts[1]) == ":"):
                ok = False
                break
            plan[id(sub)] = sub.value.id
        stored = {x.id for b in lp.body for x in ast.walk(b) if isinstance(x, ast.Name) and isinstance(x.ctx, ast.Store)}
        if not ok or stored & (set(cols) | {r}) or set(plan.values()) != set(cols):
            continue
        names = {c: f"{c}__r" for c in cols}

        class T(ast.NodeTransformer):
            def visit_Subscript(self, n):
                if id(n) in plan:
                    return ast.copy_location(ast.Name(id=names[plan[id(n)]], ctx=ast.Load()), n)
                return self.generic_visit(n)
        lp.body = [T().visit(b) for b in lp.body]
        lp.target = ast.Tuple(elts=[ast.Name(id=names[c], ctx=ast.Store()) for c in cols], ctx=ast.Store())
        args = [parse_expr(f"{c}[{U(M)}, :]") if two_d else parse_expr(f"{c}[{U(M)}]") for c, two_d in zip(cols, (False, True, False))]
        lp.iter = ast.Call(func=ast.Name(id="zip", ctx=ast.Load()), args=args, keywords=[])
        ast.fix_missing_locations(node)
        return node
    return None


class _canonical_synergy:
    """while the synergy rules run, calculate_synergy is read with its row loop over positions rewritten as the zip of the three columns"""
    def __init__(self, ctx):
        self.ctx = ctx
        self.saved = None

    def __enter__(self):
        import copy as _copy
        f = self.ctx.fn("synergy.calculate_synergy")
        node = _index_loop_as_zip(f.node, f.params[:3]) if len(f.params) >= 3 else None
        if node is not None:
            self.saved = (f, f.node)
            f.node = node
        return self

    def __exit__(self, *a):
        if self.saved is not None:
            self.saved[0].node = self.saved[1]
        return False


def r3(ctx):
    with _canonical_synergy(ctx):
        _r3(ctx)


def _r3(ctx):
    C04.r7(ctx, rule="R3", sites=[s for s in C04.ROW_CLASS_SITES if s[0] in ("data.create_single_treatment_effect_map", "synergy.calculate_synergy")])
    f = ctx.fn("data.create_single_treatment_effect_map")
    sids, tids, obs = f.params
    env = single_defs(f.node)
    N = Norm(strict=False)
    # roles: the single-agent rows' observations / sample ids / agent id, whatever they are called and whether or not they are named
    # at all - every expression is read through the function's single definitions first
    def full(e):
        return inline(e, env)
    masks = {"obs": set(), "sid": set()}
    for x in ast.walk(f.node):
        if isinstance(x, ast.Subscript) and isinstance(x.ctx, ast.Load) and isinstance(x.value, ast.Name) and x.value.id in (obs, sids) \
                and not isinstance(x.slice, (ast.Tuple, ast.Slice, ast.Constant)):
            m_ = full(x.slice)
            if isinstance(m_, ast.Name):
                continue            # indexed by a loop variable / scalar: not a row selection
            masks["obs" if x.value.id == obs else "sid"].add(U(m_))
    ctx.need(len(masks["obs"]) == 1 and masks["obs"] == masks["sid"], f"{f.site()}: the single-agent rows of `{obs}` / `{sids}` under one common selection were not found")
    mask = next(iter(masks["obs"]))
    tr_forms = [N.key(parse_expr(t_)) for t_ in (f"np.sort({tids}[{mask}, :], axis=1)[:, -1]", f"np.max({tids}[{mask}, :], axis=1)", f"{tids}[{mask}, :].max(axis=1)",
                                                  f"{tids}[{mask}].max(axis=1)", f"np.max({tids}[{mask}], axis=1)")]
    tr = None
    cands = [full(x) for x in ast.walk(f.node) if isinstance(x, (ast.Subscript, ast.Call)) and isinstance(getattr(x, "ctx", ast.Load()), ast.Load)]
    for c_ in cands:
        if N.key(c_) in tr_forms:
            tr = c_
    mt = f"{tids}[{mask}".replace(" ", "")
    bad_tr = [c_ for c_ in cands if tr is None and mt in U(c_).replace(" ", "")]
    if tr is None and not bad_tr:
        raise AnalysisError(f"{f.site()}: the agent id of the single-agent rows (a reduction of `{tids}[<single-agent rows>, :]`) was not found")
    ctx.check("R3", f"{f.site()}::treatment-is-row-maximum", tr is not None, "the single agent of a row is its maximum id (the sentinel -1 is the minimum)",
              f"the single agent of a single-agent row is `{U(min(bad_tr, key=lambda z: len(U(z)))) if bad_tr else None}`, not the row maximum")
    if tr is None:
        return
    O, S_, T_ = f"{obs}[{mask}]", f"{sids}[{mask}]", U(tr)
    # effect = mean of matching observations
    RES = _returned_local(f) or "result"            # the map under construction: the local the function returns, whatever it is called
    st = [n for n in walk_own(f.node) if isinstance(n, ast.Assign) and isinstance(n.targets[0], ast.Subscript) and U(n.targets[0].value) == RES]
    vals = {}
    par = enclosing_map(f.node)
    mean_ok = ctl_ok = False
    from engine.astutil import stmt_conditions
    loops = [n for n in walk_own(f.node) if isinstance(n, ast.For)]
    ctx.need(len(loops) == 2, f"{f.site()}: the (sample, treatment) double loop was not found")
    outer = max(loops, key=lambda lp: len(list(ast.walk(lp))))
    inner_l = min(loops, key=lambda lp: len(list(ast.walk(lp))))
    # recognised wrong: a running value `result[k] = (result[k] + x) / 2`: for three or more replicates this is not their mean
    for n in st:
        tk = U(n.targets[0]).replace(" ", "")
        if isinstance(n.value, ast.BinOp) and isinstance(n.value.op, ast.Div) and isinstance(n.value.right, ast.Constant) \
                and any(U(x).replace(" ", "") == tk for x in ast.walk(n.value.left) if isinstance(x, ast.Subscript)):
            ctx.bad("R3", f"{f.site()}::effect-is-mean", f"the single-agent effect is updated as `{U(n.value)}`: a pairwise running average weights later replicates more - "
                    f"with three or more repeated measurements it is not their mean")
            return
    ctx.need(any(x is inner_l for x in ast.walk(outer)), f"{f.site()}: the effect table is not filled by a (sample, treatment) double loop; this grouping algorithm is not one the rule knows")
    sv, tv = U(outer.target), U(inner_l.target)
    if N.key(inline(outer.iter, env)) != N.key(parse_expr(f"np.unique({sids})")):
        sv, tv = tv, sv            # treatments outside, samples inside
    keep = {RES, sv, tv}
    venv = {k: x for k, x in env.items() if k not in keep}
    for n in st:
        key = U(inline(n.targets[0].slice, {k: x for k, x in env.items() if isinstance(x, ast.Tuple)})).replace(" ", "")
        # the value as bound in the statement's own block first (a local re-bound per arm), then through the single definitions
        benv = {}
        owner = par.get(n)
        for fld in ("body", "orelse", "finalbody"):
            lst = getattr(owner, fld, None)
            if isinstance(lst, list) and n in lst:
                for prev in lst[:lst.index(n)]:
                    if isinstance(prev, ast.Assign) and len(prev.targets) == 1 and isinstance(prev.targets[0], ast.Name):
                        benv[prev.targets[0].id] = inline(prev.value, benv)
                    elif not isinstance(prev, ast.Expr):
                        benv = {}
        v = inline(inline(n.value, benv), venv)
        inner = [lp for lp in loops if n in list(ast.walk(lp))]
        inner = min(inner, key=lambda lp: len(list(ast.walk(lp)))) if inner else None
        conds = stmt_conditions(inner.body).get(id(n), []) if inner is not None else []
        is_ctl = None
        other = []
        for t, pol in conds:
            b_ = N.b(t)
            if b_ == N.b(parse_expr(f"{tv} == CONTROL_SENTINEL_VALUE")):
                is_ctl = pol
            elif b_ == N.b(parse_expr(f"{tv} != CONTROL_SENTINEL_VALUE")):
                is_ctl = not pol
            else:
                other.append((t, pol))
        if is_ctl is True:
            ctl_ok = U(n.value) in ("1.0", "1") and key == f"({sv},{tv})" and not other
        else:
            m1 = f"({T_} == {tv})"
            m2 = f"({S_} == {sv})"
            wants = [N.key(parse_expr(f"np.mean({O}[{x} & {y}])")) for x, y in ((m1, m2), (m2, m1))]
            mean_ok = N.key(v) in wants and key == f"({sv},{tv})" and is_ctl is False
            vals["effect"] = U(v)
            # what else decides whether the pair gets an entry: only "this sample has a single-agent row of this treatment" - a test of the
            # ROW SELECTION being non-empty.  A test of the selected VALUES (`np.any(obs[rows])`) drops a measured effect of exactly 0.0
            for t, pol in other:
                cexp = inline(inline(t if pol else ast.UnaryOp(op=ast.Not(), operand=t), benv), venv)
                b_ = N.b(cexp)
                present, on_values = [], []
                for x, y in ((m1, m2), (m2, m1)):
                    sel = f"({x} & {y})"
                    present += [N.b(parse_expr(z)) for z in (f"np.any({sel})", f"{sel}.any()", f"np.sum({sel}) > 0", f"{sel}.sum() > 0", f"np.count_nonzero({sel}) > 0",
                                                              f"len({O}[{sel}]) > 0", f"{O}[{sel}].size > 0", f"np.sum({sel}) != 0", f"np.sum({sel}) >= 1")]
                    on_values += [N.b(parse_expr(z)) for z in (f"np.any({O}[{sel}])", f"{O}[{sel}].any()", f"np.all({O}[{sel}])", f"{O}[{sel}].all()",
                                                                f"np.sum({O}[{sel}]) > 0", f"np.mean({O}[{sel}]) > 0")]
                if b_ in present:
                    continue
                if b_ in on_values:
                    ctx.bad("R3", f"{f.site()}::entry-iff-measured", f"the pair gets an entry only if `{U(cexp)[:140]}`: that tests the measured VALUES, not whether "
                            f"there is a measurement - a single-agent effect of exactly 0.0 (complete kill) is treated as missing")
                    mean_ok = None
                    break
                raise AnalysisError(f"{f.site()}: the effect entry is additionally guarded by `{U(cexp)[:140]}`, which is not a recognised test of the row selection being non-empty")
            else:
                if other:
                    ctx.ok("R3", f"{f.site()}::entry-iff-measured", "the pair gets an entry iff the sample has a single-agent row of the treatment (row selection non-empty)")
    if mean_ok is None:
        return
    ctx.check("R3", f"{f.site()}::effect-is-mean", mean_ok and len(st) == 2,
              "effect(sample, treatment) = mean of that sample's single-agent observations of that treatment",
              f"the single-agent effect is `{vals.get('effect', 'not found')[:120]}`: with repeated measurements it must be their mean "
              f"(a running average or last value coincides only for one or two replicates)")
    ctx.check("R3", f"{f.site()}::control-is-one", ctl_ok, "the control's effect is 1.0 for every sample", "the control treatment is not mapped to effect 1.0")
    g = ctx.fn("data.create_single_treatment_effect_array")
    call = [c for c in calls(g.node) if U(c.func) == "create_single_treatment_effect_map"]
    kw = kwargs(call[0]) if call else {}
    wired = len(call) == 1 and [U(kw.get(k)) for k in ("sample_ids", "treatment_ids", "observation")] == g.params
    gs, gt = g.params[0], g.params[1]
    genv = single_defs(g.node)
    mapn = [k for k, v in genv.items() if call and v is call[0]]
    GRES = _returned_local(g) or "result"
    stores = [n for n in walk_own(g.node) if isinstance(n, ast.Assign) and len(n.targets) == 1 and isinstance(n.targets[0], ast.Subscript) and U(n.targets[0].value) == GRES]
    ok = False
    if wired and len(stores) == 1 and mapn:
        st0 = stores[0]
        gpar = enclosing_map(g.node)
        chain = []
        n = st0
        while n in gpar:
            n = gpar[n]
            if isinstance(n, ast.For):
                chain.append(n)
        chain.reverse()
        sym = {}
        axes = ["R", "C"]

        def bind(tgt, val):
            if isinstance(tgt, ast.Name):
                sym[tgt.id] = val
            elif isinstance(tgt, ast.Tuple) and isinstance(val, tuple) and len(val) == len(tgt.elts):
                for t_, v_ in zip(tgt.elts, val):
                    bind(t_, v_)

        def sx(e):
            """symbolic text of an expression over the loop bindings, with X[R][C] written X[R,C]"""
            t = U(inline(e, {k: ast.parse(v, mode="eval").body for k, v in sym.items() if isinstance(v, str)})).replace(" ", "")
            for ax in ("C",):
                t = t.replace("[R][C]", "[R,C]")
            return t
        ax_i = 0
        good_loops = True
        for lp in chain:
            it = lp.iter
            if ax_i >= 2:
                good_loops = False
                break
            A = axes[ax_i]
            if isinstance(it, ast.Call) and U(it.func) == "enumerate" and len(it.args) == 1 and isinstance(lp.target, ast.Tuple) and len(lp.target.elts) == 2:
                inner = it.args[0]
                bind(lp.target.elts[0], A)
                if isinstance(inner, ast.Call) and U(inner.func) == "zip":
                    bind(lp.target.elts[1], tuple(f"{sx(a)}[{A}]" for a in inner.args))
                else:
                    bind(lp.target.elts[1], f"{sx(inner)}[{A}]")
                ax_i += 1
            elif isinstance(it, ast.Call) and U(it.func) == "np.ndenumerate" and len(it.args) == 1 and isinstance(lp.target, ast.Tuple) and len(lp.target.elts) == 2 \
                    and isinstance(lp.target.elts[0], ast.Tuple) and len(lp.target.elts[0].elts) == 2:
                bind(lp.target.elts[0], ("R", "C"))
                bind(lp.target.elts[1], f"{sx(it.args[0])}[R,C]")
                ax_i += 2
            elif isinstance(it, ast.Call) and U(it.func) == "range" and isinstance(lp.target, ast.Name):
                bind(lp.target, A)
                ax_i += 1
            elif isinstance(it, ast.Call) and U(it.func) == "zip" and isinstance(lp.target, ast.Tuple):
                good_loops = False          # zip without an index cannot address result[R, ..]
                break
            else:
                good_loops = False
                break
        if good_loops and ax_i == 2:
            lenv_g = {}
            for lp in chain:
                for x in lp.body:
                    if isinstance(x, ast.Assign) and len(x.targets) == 1 and isinstance(x.targets[0], ast.Name):
                        lenv_g[x.targets[0].id] = x.value
            tgt_t = sx(inline(st0.targets[0].slice, lenv_g))
            val = inline(st0.value, lenv_g)
            key_t = sx(val.slice) if isinstance(val, ast.Subscript) and U(val.value) == mapn[0] else None
            ok = tgt_t in ("(R,C)", "R,C") and key_t in (f"({gs}[R],{gt}[R,C])", f"{gs}[R],{gt}[R,C]")
    ctx.check("R3", f"{g.site()}::array-from-map", ok, "array[row, slot] = map[(row's sample, row's treatment in that slot)]",
              "the effect array is not filled per (row, slot) from the map keyed by that row's sample and treatment")


def r4(ctx):
    with _canonical_synergy(ctx):
        _r4(ctx)


def _r4(ctx):
    """synergy rows: (sample, treatments, observation) of the non-single-agent rows; per row the effects of its non-control
    treatments are looked up; strict raises on a missing one, lenient skips the whole row; emitted value = prod(effects) - obs"""
    from engine import rowstream as RS
    from engine.astutil import stmt_conditions
    f = ctx.fn("synergy.calculate_synergy")
    N = Norm(strict=False)
    s_, t_, o_ = f.params[0], f.params[1], f.params[2]
    env = {k: v for k, v in single_defs(f.node).items() if k != "single_treatment_mask"}
    MAP = "single_treatment_effect_map"
    maps_ = [n.targets[0].id for n in walk_own(f.node) if isinstance(n, ast.Assign) and len(n.targets) == 1 and isinstance(n.targets[0], ast.Name)
             and isinstance(n.value, ast.Call) and call_name(n.value) == "create_single_treatment_effect_map"]
    if len(maps_) == 1:
        MAP = maps_[0]                      # the effect table by role: the local bound to create_single_treatment_effect_map(..)
    # the row loop: the loop (over a zip of the three columns) that contains the effect lookup
    def zip_of(lp_):
        it_ = lp_.iter
        if isinstance(it_, ast.Call) and call_name(it_) == "enumerate" and len(it_.args) == 1:
            it_ = it_.args[0]
        it_ = inline(it_, env) if isinstance(it_, ast.Name) else it_
        return it_ if isinstance(it_, ast.Call) and call_name(it_) == "zip" and len(it_.args) == 3 else None
    row_loops = [n for n in walk_own(f.node) if isinstance(n, ast.For) and zip_of(n) is not None]
    ctx.need(len(row_loops) == 1, f"{f.site()}: row loop (a zip of the three input columns) not found")
    lp = row_loops[0]
    full_env = single_defs(f.node)
    zargs = [inline(a, full_env) for a in zip_of(lp).args]
    zs = [U(a).replace(" ", "") for a in zargs]
    ok = False
    if all(isinstance(a, ast.Subscript) for a in zargs) and [U(a.value) for a in zargs] == [s_, t_, o_]:
        sel = []
        for a, two_d in zip(zargs, (False, True, False)):
            sl = a.slice
            if isinstance(sl, ast.Tuple) and len(sl.elts) == 2 and U(sl.elts[1]) == ":" and two_d:
                sl = sl.elts[0]
            sel.append(sl)
        if len({U(x) for x in sel}) == 1:
            e = sel[0]
            e = e.operand if isinstance(e, ast.UnaryOp) and isinstance(e.op, ast.Invert) else ast.UnaryOp(op=ast.Invert(), operand=e)
            ok = C04.control_count_class(e, t_) == ("count", "==", "arity-1")        # rows of the table = complement of the single-agent rows
    ctx.check("R4", f"{f.site()}::rows", ok, "iterates (sample, treatments, observation) of the rows that are not single-agent rows, aligned",
              f"the row loop zips {zs}")
    tgt = lp.target.elts[1] if call_name(lp.iter) == "enumerate" else lp.target
    ctx.need(isinstance(tgt, ast.Tuple) and len(tgt.elts) == 3, f"{f.site()}: row loop target is not (sample, treatments, observation)")
    sid_var, tids_var, obs_var = [U(x) for x in tgt.elts]
    lenv = {}
    cnt = {}
    for n in walk_own(lp):
        if isinstance(n, ast.Assign) and len(n.targets) == 1 and isinstance(n.targets[0], ast.Name):
            cnt[n.targets[0].id] = cnt.get(n.targets[0].id, 0) + 1
            lenv[n.targets[0].id] = n.value
    lenv = {k: v for k, v in lenv.items() if cnt[k] == 1}
    # emission
    # the synergy list: what the third element of the returned triple is made of (np.array(<list>))
    syn_list = "result_synergy"
    rets_ = returns(f.node)
    if len(rets_) == 1 and isinstance(rets_[0].value, ast.Tuple) and len(rets_[0].value.elts) == 3:
        third = inline(rets_[0].value.elts[2], {k: v for k, v in full_env.items() if not isinstance(v, ast.List)})
        while isinstance(third, ast.Call) and call_name(third) in ("np.array", "np.asarray", "list") and len(third.args) >= 1:
            third = third.args[0]
        if isinstance(third, ast.Name):
            syn_list = third.id
    emits = [c for c in calls(lp, tail="append") if U(c.func.value) == syn_list]
    ctx.need(len(emits) == 1, f"{f.site()}: {syn_list}.append(...) not found")
    val = emits[0].args[0]
    if isinstance(val, ast.Name) and val.id in lenv:
        val = lenv[val.id]                              # the emitted value through its one name (`synergy = ..; out.append(synergy)`)
    val = inline(val, {k: v for k, v in lenv.items() if isinstance(v, ast.Name) and v.id != obs_var})
    if isinstance(val, ast.BinOp) and isinstance(val.left, ast.Name) and val.left.id != obs_var and isinstance(lenv.get(val.left.id), ast.Call):
        val = ast.BinOp(left=lenv[val.left.id], op=val.op, right=val.right)          # `expected = np.prod(effects); out.append(expected - obs)`
    effs = None
    if isinstance(val, ast.BinOp) and isinstance(val.op, ast.Sub) and isinstance(val.left, ast.Call) and call_name(val.left) in ("np.prod", "np.product") and len(val.left.args) == 1 \
            and isinstance(val.left.args[0], ast.Name):
        effs = val.left.args[0].id
    ctx.check("R4", f"{f.site()}::bliss", effs is not None and U(val.right) == obs_var, "synergy = prod(single effects) - observation", f"synergy is `{U(val)}`")
    if effs is None:
        return
    # the lookup loop: a loop whose body tests membership in the effect map
    inner = [n for n in walk_own(lp) if isinstance(n, ast.For) and n is not lp and any(isinstance(x, ast.Compare) and isinstance(x.ops[0], (ast.In, ast.NotIn)) and U(x.comparators[0]) == MAP for x in ast.walk(n))]
    if not inner:
        # recognised wrong: `if not MAP.get(key)` - the truthiness of the looked-up effect used as the membership test: a measured effect of
        # exactly 0.0 counts as missing
        for t_ in [n.test for n in walk_own(lp) if isinstance(n, (ast.If, ast.IfExp))]:
            tt = t_.operand if isinstance(t_, ast.UnaryOp) and isinstance(t_.op, ast.Not) else t_
            tt = inline(tt, lenv) if isinstance(tt, ast.Name) else tt
            if isinstance(tt, ast.Call) and attr_tail(tt) == "get" and U(tt.func.value) == MAP and len(tt.args) == 1:
                ctx.bad("R4", f"{f.site()}::missing-effect-test", f"`{U(t_)}` uses the truthiness of the looked-up single-agent effect as the test for a missing "
                        f"measurement: an effect of exactly 0.0 (complete kill) is treated as missing - the combination is skipped, or refused in strict mode")
                return
    ctx.need(len(inner) == 1, f"{f.site()}: the per-treatment effect lookup loop was not found")
    il = inner[0]
    ienv = {n.targets[0].id: n.value for n in il.body if isinstance(n, ast.Assign) and isinstance(n.targets[0], ast.Name)}
    conds = stmt_conditions(il.body)
    alias_env = {k: v for k, v in lenv.items() if isinstance(v, ast.Name) and v.id in (sid_var, tids_var, obs_var)}      # other names of the row's fields

    def classify(cs):
        present = strict = None
        for t, pol in cs:
            tt = inline(inline(t, ienv), alias_env)
            if isinstance(tt, ast.Compare) and len(tt.ops) == 1 and isinstance(tt.ops[0], (ast.In, ast.NotIn)) and U(tt.comparators[0]) == MAP:
                present = pol if isinstance(tt.ops[0], ast.In) else (not pol)
                key = U(tt.left).replace(" ", "")
                if key != f"({sid_var},{U(il.target)})":
                    present = "badkey"
            elif U(tt) == "strict":
                strict = pol
            elif U(tt) == "not strict":
                strict = not pol
        return present, strict
    appends = []          # list name the effects are collected into
    raises_ok = False
    lenient_marks = []    # what the lenient missing path does: ('skip-append',) or ('flag', name)
    bad = []
    for st_ in [x for b_ in il.body for x in ast.walk(b_) if isinstance(x, ast.stmt)]:
        if id(st_) not in conds:
            continue
        present, strict = classify(conds[id(st_)])
        if present == "badkey":
            bad.append("the membership test is not keyed by (row sample, treatment)")
            continue
        if isinstance(st_, ast.Expr) and isinstance(st_.value, ast.Call) and attr_tail(st_.value) == "append":
            src = U(inline(inline(st_.value.args[0], ienv), alias_env)).replace(" ", "")
            if present is True and src in (f"{MAP}[({sid_var},{U(il.target)})]", f"{MAP}[{sid_var},{U(il.target)}]"):
                appends.append(U(st_.value.func.value))
            else:
                bad.append(f"`{U(st_)[:60]}` appends outside the key-present path or not the looked-up effect")
        if isinstance(st_, ast.Raise) and present is False and strict is True:
            raises_ok = True
        if isinstance(st_, ast.Assign) and present is False and strict in (False, None) and isinstance(st_.value, ast.Constant) and st_.value.value is False and isinstance(st_.targets[0], ast.Name):
            lenient_marks.append(("flag", st_.targets[0].id))
    ok = raises_ok and len(set(appends)) == 1 and not bad
    ctx.check("R4", f"{f.site()}::strict-vs-lenient", ok, "missing single-agent effect: strict raises, lenient does not use it",
              f"a missing (sample, treatment) effect is not handled as strict => raise / lenient => skip ({bad or 'no raise on the strict missing path' if not raises_ok else appends})")
    if not ok:
        return
    coll = appends[0]
    # skip rule: the emission is unreachable for a row with a missing effect
    emit_stmt = next(x for b_ in lp.body for x in ast.walk(b_) if isinstance(x, ast.Expr) and x.value is emits[0])
    econds = stmt_conditions(lp.body).get(id(emit_stmt), [])
    skip_ok = False
    shown = [U(t) for t, _ in econds]
    ids_iter = U(il.iter)
    for t, pol in econds:
        tt = inline(t, {k: v for k, v in lenv.items() if k not in (coll, ids_iter)})
        # idiom A: number of effects differs from number of treatments -> continue
        if N.b(tt) in (N.b(parse_expr(f"len({ids_iter}) != len({coll})")), N.b(parse_expr(f"len({coll}) != len({ids_iter})")),
                       N.b(parse_expr(f"len({coll}) < len({ids_iter})"), integer=True)) and pol is False:
            skip_ok = True
        # fewer effects than treatments (there are never more: one append per treatment at most)
        if N.b(tt, integer=True) == N.b(parse_expr(f"len({coll}) < len({ids_iter})"), integer=True) and pol is False:
            skip_ok = True
        if N.b(tt) in (N.b(parse_expr(f"len({ids_iter}) == len({coll})")),) and pol is True:
            skip_ok = True
        # idiom B: a completeness flag, True before the lookup loop, set False on the missing path
        for kind, flag in lenient_marks:
            init = [n for n in lp.body if isinstance(n, ast.Assign) and U(n.targets[0]) == flag and isinstance(n.value, ast.Constant) and n.value.value is True and n.lineno < il.lineno]
            if not init:
                continue
            forms_skip = (N.b(parse_expr(f"not {flag}")),)
            # `x = coll if flag else None ; if x is None: continue`
            if N.b(tt) in forms_skip and pol is False:
                skip_ok = True
            if N.b(tt) == N.b(parse_expr(flag)) and pol is True:
                skip_ok = True
            if isinstance(tt, ast.Compare) and isinstance(tt.left, ast.IfExp) and U(tt.left.test) == flag and U(tt.left.orelse) == "None" and U(tt.left.body) == coll \
                    and isinstance(tt.ops[0], ast.Is) and U(tt.comparators[0]) == "None" and pol is False:
                skip_ok = True
    ctx.check("R4", f"{f.site()}::skip-incomplete-rows", skip_ok, "a row is skipped unless every non-control treatment has a single-agent effect",
              f"the tests before the synergy are {shown}: a row lacking only some of its single-agent effects must be skipped too "
              f"(otherwise the missing agent silently counts as effect 1)")


def r5(ctx):
    f = ctx.fn("retrospective.calculate_mse")
    scr, th = f.params
    env = single_defs(f.node)
    r = returns(f.node)
    N = Norm(strict=False)
    e = inline(r[0].value, env) if len(r) == 1 else None
    want = parse_expr(f"np.mean((predict_viability_avg(screen={scr}, thetas={th}) - {scr}.observations) ** 2)")
    alt = parse_expr(f"np.mean(({scr}.observations - predict_viability_avg(screen={scr}, thetas={th})) ** 2)")
    ctx.check("R5", f"{f.site()}::definition", e is not None and N.key(e) in (N.key(want), N.key(alt)),
              "mean((predict_viability_avg(screen, thetas) - screen.observations)^2)", f"calculate_mse is `{U(e) if e is not None else None}`")


def r6(ctx):
    f = ctx.fn("models.main.correlation_matrix")
    env = single_defs(f.node)
    es = [c for c in calls(f.node, name="np.einsum")]
    ctx.need(len(es) == 1, f"{f.site()}: einsum not found")
    spec = es[0].args[0].value.replace(" ", "") if isinstance(es[0].args[0], ast.Constant) else None
    same = len(es[0].args) == 3 and U(es[0].args[1]) == U(es[0].args[2])
    ctx.check("R6", f"{f.site()}::gram-of-one-operand", spec == "ik,jk->ij" and same, "einsum('ik,jk->ij', X_, X_): symmetric Gram matrix",
              f"einsum spec `{spec}` with operands ({U(es[0].args[1])}, {U(es[0].args[2])}) is not the Gram matrix of one operand")
    N = Norm(strict=False)
    xn = env.get(U(es[0].args[1]))
    X = None
    ok = False
    if xn is not None and isinstance(xn, ast.BinOp) and isinstance(xn.op, ast.Div):
        X = U(xn.left)
        right = inline(xn.right, {k: v for k, v in env.items() if k != X})
        forms = [f"np.sqrt(np.sum(np.square({X}), axis=1, keepdims=True))", f"np.sqrt(np.sum({X} ** 2, axis=1, keepdims=True))",
                 f"np.sqrt(np.sum({X} * {X}, axis=1, keepdims=True))", f"np.linalg.norm({X}, axis=1, keepdims=True)"]
        ok = N.key(right) in {N.key(parse_expr(t)) for t in forms}
    ctx.check("R6", f"{f.site()}::rows-normalised", ok, "each row is divided by its Euclidean norm (unit diagonal)",
              f"the einsum operand `{U(xn) if xn is not None else None}` is not row-normalised by sqrt(sum(X^2, axis=1, keepdims=True))")
    g = ctx.fn("models.main.generate_full_combinatoric_space")
    S = g.params[1]
    genv = single_defs(g.node)
    # by role, whatever the locals are called: the one combinations(..) call enumerates the zipped (name, dose) entries of the screen's treatment
    # mapping at the screen's arity; the names / doses handed to the new screen are columns 0 / 1 of the array made of that enumeration
    cc = [c for c in calls(g.node) if call_name(c) in ("combinations", "itertools.combinations") and len(c.args) == 2]
    ok = len(cc) == 1 and U(inline(cc[0].args[0], genv)).replace(" ", "") == f"zip({S}.treatment_mapping[0],{S}.treatment_mapping[1])" \
        and U(cc[0].args[1]).replace(" ", "") == f"{S}.treatment_arity"
    sites = [s for s in common.screen_sites(ctx) if s.f.qname == g.qname]
    ok = ok and len(sites) == 1 and U(sites[0].kw.get("treatment_mapping")) == f"{S}.treatment_mapping" and U(sites[0].kw.get("sample_mapping")) == f"{S}.sample_mapping"
    if ok:
        arr = [k for k, v in genv.items() if isinstance(v, ast.Call) and call_name(v) in ("np.array", "np.asarray") and v.args and cc[0] in list(ast.walk(v.args[0]))]
        def col(e):
            e = inline(e, {k: v for k, v in genv.items() if k not in arr}) if e is not None else None
            while isinstance(e, ast.Call) and isinstance(e.func, ast.Attribute) and e.func.attr == "astype":
                e = e.func.value
            return U(e).replace(" ", "") if e is not None else None
        ok = len(arr) == 1 and col(sites[0].kw.get("treatment_names")) == f"{arr[0]}[:,:,0]" and col(sites[0].kw.get("treatment_doses")) == f"{arr[0]}[:,:,1]"
    ctx.check("R6", f"{g.site()}::combinations-of-mapping-entries", ok,
              "synthetic rows = itertools.combinations of the screen's (name, dose) mapping entries, encoded with the screen's own mappings",
              "the synthetic screen is not built from combinations of the screen's mapping entries with the screen's mappings passed through")


def r7(ctx):
    """inter-chain variance is the variance of per-*chain* MSEs only if the chain ids handed to ModelEvaluation label the columns by the
    file (chain) they came from (C10.R2's clause run here)"""
    from . import C10
    ctx.borrow(C10.chain_labels, "R7")


def r8(ctx):
    """the columns ModelEvaluation receives are one per posterior sample in holder order (C09.R6's clause run here): only then do the
    chain ids label the right columns"""
    from . import C09
    ctx.borrow(C09.r6, "R8")


def r_derived(ctx):
    common.derived_attributes(ctx, "R9", ['treatment_space_size', 'treatment_arity'])


def r10(ctx):
    common.no_stale_memo(ctx, "R10")


RULE_FUNCS = [r1, r2, r3, r4, r5, r6, r7, r8, r_derived, r10]


def run(ctx):
    for fn in RULE_FUNCS:
        fn(ctx)


def _rep(a, b):
    def edit(t):
        if a not in t:
            raise KeyError(a[:40])
        return t.replace(a, b, 1)
    return edit


WITNESSES = [
    ("effect entry guarded by the values instead of the row selection", "batchie.data",
     _rep("            if not np.any(mask):\n                continue\n\n            single_effect = np.mean(", "            if not np.any(single_treatment_observations[mask]):\n                continue\n\n            single_effect = np.mean("), ["R3"]),
    ("single-agent effects memoised and never reset", "batchie.data",
     _rep("        try:\n            return create_single_treatment_effect_array(\n                sample_ids=self.sample_ids,",
          "        if getattr(self, \"_ste\", None) is not None:\n            return self._ste\n        try:\n            self._ste = create_single_treatment_effect_array(\n                sample_ids=self.sample_ids,\n                treatment_ids=self.treatment_ids,\n                observation=self.observations,\n            )\n            return self._ste\n        except KeyError:\n            return None\n        try:\n            return create_single_treatment_effect_array(\n                sample_ids=self.sample_ids,"), ["R10"]),
    ("mse_variance over thetas", "batchie.models.main", _rep("((self.predictions - self.observations[:, None]) ** 2).mean(axis=1)\n        )", "((self.predictions - self.observations[:, None]) ** 2).mean(axis=0)\n        )"), ["R1"]),
    ("single effect = last observation", "batchie.data", _rep("single_effect = np.mean(single_treatment_observations[mask])", "single_effect = single_treatment_observations[mask][-1]"), ["R3"]),
    ("synergy sign flipped", "batchie.synergy", _rep("synergy = np.prod(single_effects) - observation", "synergy = observation - np.prod(single_effects)"), ["R4"]),
    ("einsum operands differ", "batchie.models.main", _rep('corr = np.einsum("ik, jk->ij", X_, X_)', 'corr = np.einsum("ik, jk->ij", X_, X)'), ["R6"]),
    ("lenient skip only when nothing found", "batchie.synergy", _rep("if len(current_treatment_ids) != len(single_effects):", "if not single_effects:"), ["R4"]),
    ("chain ids loaded into sample names", "batchie.models.main", _rep('sample_names = np.char.decode(f["sample_names"][:], "utf-8")', 'sample_names = np.char.decode(f["chain_ids"][:].astype(bytes), "utf-8")'), ["R2"]),
    ("calculate_mse uses mean prediction space", "batchie.retrospective", _rep("    preds = predict_viability_avg(\n", "    preds = predict_mean_avg(\n"), ["R5"]),
]
